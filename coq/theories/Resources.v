(* C09 - Simulant initializers run in dependency order or not at all.  MODEL (proofs: ResourcesProofs.v).

   API-level declarations made by components during `setup` (in the order the calls are made)
     -> registrations in the ResourceManager (the implicit dependency rules of the population, values and randomness
        managers), refusing duplicates with the error class the code raises
     -> `on_post_setup` of the values manager (one `value.<name>` group per pipeline)
     -> the dependency graph (`_to_graph`: an edge producer(dep) -> group for every KNOWN dependency)
     -> `kahn` (Kahn.v = networkx.topological_sort) -> the producers of the `column` / `null` groups, in that order
        (`ResourceManager.__iter__`), which is what `_create_simulants` iterates.

   Anchors (line numbers of /repo/src/vivarium/framework as printed by tools/strip.py):
     resource.py        add_resources 163-209, _get_resource_group 211-232, _to_graph 234-266, sorted_nodes 140-157,
                        __iter__ 268-281
     population/manager.py  InitializerComponentSet.add 58-119, register_simulant_initializer 264-314,
                        _create_simulants 334-356
     values.py          on_post_setup 273-296, register_value_producer 298-330, _register_value_producer 332-352,
                        register_value_modifier 354-397, get_value 399-419, _convert_dependencies 421-436,
                        _get_modifier_name 438-455
     randomness/manager.py  get_randomness_stream 67-120, _get_randomness_stream 122-138
     component.py       setup_component 349-377: `setup(builder)` runs first, then _register_simulant_initializer 752-770

   Names are numbers.  Resource names are structured (`res`) instead of dotted strings: the model therefore assumes
   that differently-built resource names never collide as strings (no user-chosen name contains a dot).

   Pipeline objects: since the repair "pipelines are named when first requested" (commit 74bd7d49, finding F-Q) every
   Pipeline object a component can hold (returned by get_value or register_value_producer) has its name set, so a
   pipeline used as the source / a modifier of another pipeline is always recorded as the dependency `value.<p>` and as
   the modifier name `<p>`.  (Before that commit a pipeline requested before its own producer was registered had
   name None, the dependency `value.None` matched nothing and the edge was silently dropped - the order of the
   initializers then depended on the order the components were supplied in.  The model describes the repaired code.) *)
From Viv Require Import Common Kahn.
Local Open Scope Z_scope.

(* ------------------------------------------------------------------------------------------------------------ *)
(* resource names                                                                                                *)
(* ------------------------------------------------------------------------------------------------------------ *)
Inductive mname : Set :=            (* _get_modifier_name *)
  | MFun (f : Z)                    (* "<owner.name>.<method name>" of a bound method / function *)
  | MPipe (p : Z).                  (* a Pipeline object used as modifier: its .name *)

Inductive res : Set :=
  | RCol (c : Z)                    (* column.<c> *)
  | RVal (v : Z)                    (* value.<v> *)
  | RSrc (v : Z)                    (* value_source.<v> *)
  | RMiss (v : Z)                   (* missing_value_source.<v> *)
  | RMod (v : Z) (i : Z) (m : mname)(* value_modifier.<v>.<i>.<m> *)
  | RStream (s : Z)                 (* stream.<s> *)
  | RNull (k : Z).                  (* null.<k> *)

Definition mname_eqb (a b : mname) : bool :=
  match a, b with
  | MFun x, MFun y => x =? y | MPipe x, MPipe y => x =? y | _, _ => false
  end.

Definition res_eqb (a b : res) : bool :=
  match a, b with
  | RCol x, RCol y | RVal x, RVal y | RSrc x, RSrc y | RMiss x, RMiss y | RStream x, RStream y
  | RNull x, RNull y => x =? y
  | RMod v i m, RMod v' i' m' => (v =? v') && (i =? i') && mname_eqb m m'
  | _, _ => false
  end.

Definition rmem (r : res) (l : list res) : bool := existsb (res_eqb r) l.

Definition tracked : Z := 0.        (* the column created by the population manager itself *)

(* ------------------------------------------------------------------------------------------------------------ *)
(* declarations: the calls components make on the builder during setup                                           *)
(* ------------------------------------------------------------------------------------------------------------ *)
Inductive source : Set := SFun | SPipe (p : Z).        (* source callable: a function, or the Pipeline get_value(p) *)
Inductive mutator : Set := UFun (f : Z) | UPipe (p : Z).
Inductive rawtype : Set := RwColumn | RwValue | RwSource | RwMissing | RwStream | RwUnknown.

Inductive decl : Set :=
  (* builder.population.initializes_simulants(method of component comp, creates, requires_columns/values/streams);
     also what Component._register_simulant_initializer does with columns_created / initialization_requirements *)
  | DInit (comp : Z) (creates rc rv rs : list Z)
  (* builder.value.register_value_producer(v, source, requires_...) *)
  | DProducer (v : Z) (src : source) (rc rv rs : list Z)
  (* builder.value.register_value_modifier(v, modifier, requires_...) *)
  | DModifier (v : Z) (u : mutator) (rc rv rs : list Z)
  (* builder.value.get_value(v): may create the pipeline *)
  | DGetValue (v : Z)
  (* builder.randomness.get_stream(s, initializes_crn_attributes) *)
  | DStream (s : Z) (crn_init : bool)
  (* builder.resources.add_resources(type, names, producer pid, dependencies) called directly *)
  | DRaw (t : rawtype) (names : list Z) (pid : Z) (deps : list res).

(* ------------------------------------------------------------------------------------------------------------ *)
(* state of the managers during setup                                                                            *)
(* ------------------------------------------------------------------------------------------------------------ *)
Record group : Set := mkgroup {
  g_names : list res;               (* ResourceGroup.names (never empty: null groups get null.<k>) *)
  g_prod : Z;                       (* the producer: component id of an initializer / pid of a raw registration; -1 otherwise *)
  g_deps : list res }.

Record state : Set := mkstate {
  groups : list group;              (* the registered ResourceGroups, in creation order *)
  nulls : Z;                        (* _null_producer_count *)
  comps : list Z;                   (* InitializerComponentSet._components *)
  cols : list Z;                    (* InitializerComponentSet._columns_produced *)
  pnames : list Z;                  (* ValuesManager._pipelines keys, in creation order *)
  sourced : list Z;                 (* pipelines whose .source is set *)
  muts : list (Z * mutator);        (* all registered modifiers (pipeline, modifier), in registration order *)
  streams : list Z }.               (* RandomnessManager._decision_points *)

Definition init_state : state := mkstate [] 0 [] [] [] [] [] [].

Definition with_groups (st : state) (gs : list group) (n : Z) : state :=
  mkstate gs n (comps st) (cols st) (pnames st) (sourced st) (muts st) (streams st).
Definition with_inits (st : state) (cs cl : list Z) : state :=
  mkstate (groups st) (nulls st) cs cl (pnames st) (sourced st) (muts st) (streams st).
Definition with_pipes (st : state) (pn so : list Z) (mu : list (Z * mutator)) : state :=
  mkstate (groups st) (nulls st) (comps st) (cols st) pn so mu (streams st).
Definition with_streams (st : state) (ss : list Z) : state :=
  mkstate (groups st) (nulls st) (comps st) (cols st) (pnames st) (sourced st) (muts st) ss.

(* ---- resource.py add_resources 202-209: a resource may have one producer only ---- *)
Definition owned (gs : list group) (r : res) : bool := existsb (fun g => rmem r (g_names g)) gs.

Fixpoint has_dup (l : list res) : bool :=
  match l with [] => false | x :: r => rmem x r || has_dup r end.

Definition clash (gs : list group) (names : list res) : bool := existsb (owned gs) names || has_dup names.

Definition add_group (gs : list group) (names : list res) (prod : Z) (deps : list res) : result (list group) :=
  if clash gs names then Rejected EResource else Ok (gs ++ [mkgroup names prod deps]).

(* _get_resource_group 224-230: no names -> type "null", name str(count), count += 1 *)
Definition add_resources (st : state) (names : list res) (prod : Z) (deps : list res) : result state :=
  match names with
  | [] => match add_group (groups st) [RNull (nulls st)] prod deps with
          | Ok gs => Ok (with_groups st gs (nulls st + 1)) | Rejected e => Rejected e | OutOfFuel => OutOfFuel end
  | _ => match add_group (groups st) names prod deps with
         | Ok gs => Ok (with_groups st gs (nulls st)) | Rejected e => Rejected e | OutOfFuel => OutOfFuel end
  end.

(* ---- values.py ---- *)
Definition ensure (v : Z) (l : list Z) : list Z := if zmem v l then l else l ++ [v].       (* defaultdict access *)

(* get_value 414-419: creates the pipeline if needed (and names it) *)
Definition get_value (st : state) (v : Z) : state :=
  with_pipes st (ensure v (pnames st)) (sourced st) (muts st).

(* _get_modifier_name 441-448 *)
Definition mut_name (u : mutator) : mname := match u with UFun f => MFun f | UPipe p => MPipe p end.

(* the three requires_* lists as resource names *)
Definition req_deps (rc rv rs : list Z) : list res := map RCol rc ++ map RVal rv ++ map RStream rs.

(* _convert_dependencies 428-436: a Pipeline depends on value.<its name>, anything else on the declared requirements *)
Definition src_deps (src : source) (rc rv rs : list Z) : list res :=
  match src with SPipe p => [RVal p] | SFun => req_deps rc rv rs end.
Definition mod_deps (u : mutator) (rc rv rs : list Z) : list res :=
  match u with UPipe p => [RVal p] | UFun _ => req_deps rc rv rs end.

(* register_simulant_initializer 303-311 *)
Definition init_deps (creates rc rv rs : list Z) : list res :=
  req_deps rc rv rs ++ (if zmem tracked creates then [] else [RCol tracked]).

Definition muts_of (v : Z) (mu : list (Z * mutator)) : list mutator := map snd (filter (fun e => fst e =? v) mu).

Fixpoint zhas_dup (l : list Z) : bool :=
  match l with [] => false | x :: r => zmem x r || zhas_dup r end.

Definition raw_res (t : rawtype) (n : Z) : res :=
  match t with RwColumn => RCol n | RwValue => RVal n | RwSource => RSrc n | RwMissing => RMiss n
             | RwStream => RStream n | RwUnknown => RNull n end.

(* one builder call.  kc = configuration.randomness.key_columns *)
Definition step (kc : list Z) (st : state) (d : decl) : result state :=
  match d with
  | DInit comp creates rc rv rs =>
      (* InitializerComponentSet.add 105-119 *)
      if zmem comp (comps st) then Rejected EPopulation
      else if existsb (fun c => zmem c (cols st)) creates || zhas_dup creates then Rejected EPopulation
      else
        (* register_simulant_initializer 302-314 *)
        add_resources (with_inits st (comp :: comps st) (creates ++ cols st)) (map RCol creates) comp
          (init_deps creates rc rv rs)
  | DProducer v src rc rv rs =>
      let st0 := match src with SPipe p => get_value st p | SFun => st end in
      (* _register_value_producer 341-352 *)
      if zmem v (sourced st0) then Rejected EDynamicValue
      else
        let st1 := with_pipes st0 (ensure v (pnames st0)) (v :: sourced st0) (muts st0) in
        (* 322-325 *)
        add_resources st1 [RSrc v] (-1) (src_deps src rc rv rs)
  | DModifier v u rc rv rs =>
      let st0 := match u with UPipe p => get_value st p | UFun _ => st end in
      (* 387-397 *)
      let st1 := with_pipes st0 (ensure v (pnames st0)) (sourced st0) (muts st0 ++ [(v, u)]) in
      add_resources st1 [RMod v (Z.of_nat (length (muts_of v (muts st1)))) (mut_name u)] (-1) (mod_deps u rc rv rs)
  | DGetValue v => Ok (get_value st v)
  | DStream s crn =>
      (* _get_randomness_stream 125-129, get_randomness_stream 98-105 *)
      if zmem s (streams st) then Rejected ERandomness
      else
        let st1 := with_streams st (s :: streams st) in
        if crn then Ok st1 else add_resources st1 [RStream s] (-1) (map RCol kc)
  | DRaw t names pid deps =>
      (* add_resources 192-196 *)
      match t with
      | RwUnknown => Rejected EResource
      | _ => add_resources st (map (raw_res t) names) pid deps
      end
  end.

Fixpoint run_decls (kc : list Z) (st : state) (ds : list decl) : result state :=
  match ds with
  | [] => Ok st
  | d :: r => match step kc st d with
              | Ok st' => run_decls kc st' r
              | Rejected e => Rejected e
              | OutOfFuel => OutOfFuel
              end
  end.

(* ---- values.py on_post_setup 287-296: value.<name> depends on its source (or missing_value_source) and on every
        modifier, numbered from 1 ---- *)
Fixpoint number_from (i : Z) (v : Z) (us : list mutator) : list res :=
  match us with [] => [] | u :: r => RMod v i (mut_name u) :: number_from (i + 1) v r end.

Definition value_deps (st : state) (v : Z) : list res :=
  (if zmem v (sourced st) then RSrc v else RMiss v) :: number_from 1 v (muts_of v (muts st)).

Fixpoint post_groups (st : state) (vs : list Z) (gs : list group) : result (list group) :=
  match vs with
  | [] => Ok gs
  | v :: r => match add_group gs [RVal v] (-1) (value_deps st v) with
              | Ok gs' => post_groups st r gs'
              | Rejected e => Rejected e
              | OutOfFuel => OutOfFuel
              end
  end.

(* all registrations of a simulation: the groups after post_setup *)
Definition build (kc : list Z) (ds : list decl) : result (list group) :=
  match run_decls kc init_state ds with
  | Ok st => post_groups st (pnames st) (groups st)
  | Rejected e => Rejected e
  | OutOfFuel => OutOfFuel
  end.

(* ------------------------------------------------------------------------------------------------------------ *)
(* the graph (resource.py _to_graph) and the order                                                               *)
(* ------------------------------------------------------------------------------------------------------------ *)
Definition key (g : group) : res := hd (RNull (-1)) (g_names g).     (* node identity: the group's first resource *)

Definition owner (gs : list group) (r : res) : option res :=
  match find (fun g => rmem r (g_names g)) gs with Some g => Some (key g) | None => None end.

(* for group in nodes: for dependency in group.dependencies: unknown -> warn, continue; else add_edge(dep group, group) *)
Definition group_edges (gs : list group) (g : group) : list (res * res) :=
  flat_map (fun d => match owner gs d with Some k => [(k, key g)] | None => [] end) (g_deps g).
Definition raw_edges (gs : list group) : list (res * res) := flat_map (group_edges gs) gs.

Definition edge_eqb (a b : res * res) : bool := res_eqb (fst a) (fst b) && res_eqb (snd a) (snd b).
Fixpoint dedup (seen l : list (res * res)) : list (res * res) :=      (* DiGraph keeps one edge per ordered pair *)
  match l with
  | [] => []
  | e :: r => if existsb (edge_eqb e) seen then dedup seen r else e :: dedup (e :: seen) r
  end.

Definition nodes_of (gs : list group) : list res := map key gs.
Definition edges_of (gs : list group) : list (res * res) := dedup [] (raw_edges gs).

(* __iter__ 275-281: the `column` and `null` groups *)
Definition is_init (k : res) : bool := match k with RCol _ | RNull _ => true | _ => false end.
Definition prod_of (gs : list group) (k : res) : Z :=
  match find (fun g => res_eqb (key g) k) gs with Some g => g_prod g | None => -1 end.

Definition sort_groups (gs : list group) : result (list Z) :=
  match kahn res_eqb (nodes_of gs) (edges_of gs) with
  | Ok o => Ok (map (prod_of gs) (filter is_init o))
  | Rejected e => Rejected e
  | OutOfFuel => OutOfFuel
  end.

(* the order in which _create_simulants calls the initializers, or the refusal *)
Definition init_order (kc : list Z) (ds : list decl) : result (list Z) :=
  match build kc ds with
  | Ok gs => sort_groups gs
  | Rejected e => Rejected e
  | OutOfFuel => OutOfFuel
  end.

(* ---- sorted_nodes 140-157 is a cached property: the order is computed at the first request and kept; a refused
        request assigns nothing, so that refusal is not state - every later request refuses again.  `init_order` above is
        therefore a function of the registrations; `request` spells the cache out so that this can be stated. ---- *)
Record manager : Set := mkmanager { m_groups : list group; m_cache : option (list res) }.

Definition producers_in (gs : list group) (o : list res) : list Z := map (prod_of gs) (filter is_init o).

Definition request (m : manager) : manager * result (list Z) :=
  match m_cache m with
  | Some o => (m, Ok (producers_in (m_groups m) o))
  | None => match kahn res_eqb (nodes_of (m_groups m)) (edges_of (m_groups m)) with
            | Ok o => (mkmanager (m_groups m) (Some o), Ok (producers_in (m_groups m) o))
            | Rejected e => (m, Rejected e)
            | OutOfFuel => (m, OutOfFuel)
            end
  end.

Fixpoint requests (n : nat) (m : manager) : list (result (list Z)) :=
  match n with O => [] | S k => let '(m', r) := request m in r :: requests k m' end.

(* ------------------------------------------------------------------------------------------------------------ *)
(* the verified checker: does an observed call order respect the declared requirements?                          *)
(* (soundness w.r.t. the declarative specification: ResourcesProofs.respects_sound)                             *)
(* ------------------------------------------------------------------------------------------------------------ *)
(* what a declaration feeds into a pipeline: (target pipeline, Some p if the callable is the pipeline p /
   None if it is a function with declared requirements, requires_columns, requires_values, requires_streams) *)
Definition feeds (d : decl) : option (Z * option Z * list Z * list Z * list Z) :=
  match d with
  | DProducer v SFun rc rv rs | DModifier v (UFun _) rc rv rs => Some (v, None, rc, rv, rs)
  | DProducer v (SPipe p) _ _ _ | DModifier v (UPipe p) _ _ _ => Some (v, Some p, [], [], [])
  | _ => None
  end.

Definition is_stream_decl (s : Z) (d : decl) : bool :=
  match d with DStream s' false => s' =? s | _ => false end.
(* the columns a required stream stands for: the CRN key columns, if the stream is a registered resource *)
Definition stream_cols (kc : list Z) (ds : list decl) (s : Z) : list Z :=
  if existsb (is_stream_decl s) ds then kc else [].

(* columns a declaration contributes to its pipeline's needs, given the needs N of the other pipelines *)
Definition contrib (kc : list Z) (ds : list decl) (N : Z -> list Z) (d : decl) : list Z :=
  match feeds d with
  | Some (_, None, rc, rv, rs) => rc ++ flat_map N rv ++ flat_map (stream_cols kc ds) rs
  | Some (_, Some p, _, _, _) => N p
  | None => []
  end.

Definition target (d : decl) : option Z :=
  match feeds d with Some (v, _, _, _, _) => Some v | None => None end.

Fixpoint znodup (l : list Z) : list Z :=
  match l with [] => [] | x :: r => if zmem x r then znodup r else x :: znodup r end.

Definition lookup (T : list (Z * list Z)) (v : Z) : list Z := match zassoc v T with Some l => l | None => [] end.

Definition targets (ds : list decl) : list Z :=
  znodup (flat_map (fun d => match target d with Some v => [v] | None => [] end) ds).

Definition needs_of (kc : list Z) (ds : list decl) (T : list (Z * list Z)) (v : Z) : list Z :=
  znodup (flat_map (fun d => match target d with
                             | Some v' => if v' =? v then contrib kc ds (lookup T) d else []
                             | None => [] end) ds).

Definition round (kc : list Z) (ds : list decl) (T : list (Z * list Z)) : list (Z * list Z) :=
  map (fun v => (v, needs_of kc ds T v)) (targets ds).

Fixpoint saturate (n : nat) (kc : list Z) (ds : list decl) (T : list (Z * list Z)) : list (Z * list Z) :=
  match n with O => T | S k => saturate k kc ds (round kc ds T) end.

Definition zsubset (a b : list Z) : bool := forallb (fun x => zmem x b) a.

(* T is closed under the requirement rules (certificate check: no fuel argument is trusted) *)
Definition closed (kc : list Z) (ds : list decl) (T : list (Z * list Z)) : bool :=
  forallb (fun d => match target d with
                    | Some v => zsubset (contrib kc ds (lookup T) d) (lookup T v)
                    | None => true end) ds.

(* the initializer registrations and the columns they create *)
Definition raw_is_init (t : rawtype) (names : list Z) : bool :=
  match t with RwUnknown => false | RwColumn => true | _ => match names with [] => true | _ => false end end.

Definition registered_inits (ds : list decl) : list Z :=
  flat_map (fun d => match d with
                     | DInit comp _ _ _ _ => [comp]
                     | DRaw t names pid _ => if raw_is_init t names then [pid] else []
                     | _ => [] end) ds.

Definition creators (ds : list decl) (c : Z) : list Z :=
  flat_map (fun d => match d with
                     | DInit comp creates _ _ _ => if zmem c creates then [comp] else []
                     | DRaw RwColumn names pid _ => if zmem c names then [pid] else []
                     | _ => [] end) ds.

(* b occurs after the first occurrence of a *)
Fixpoint beforeb (a b : Z) (o : list Z) : bool :=
  match o with [] => false | x :: r => if x =? a then zmem b r else beforeb a b r end.

Fixpoint zcount (x : Z) (l : list Z) : nat :=
  match l with [] => O | y :: r => if y =? x then S (zcount x r) else zcount x r end.
Definition zperm (a b : list Z) : bool := forallb (fun x => Nat.eqb (zcount x a) (zcount x b)) (a ++ b).

(* the columns an initializer registration needs, transitively *)
Definition init_needs (kc : list Z) (ds : list decl) (T : list (Z * list Z)) (creates rc rv rs : list Z) : list Z :=
  rc ++ (if zmem tracked creates then [] else [tracked]) ++ flat_map (lookup T) rv ++ flat_map (stream_cols kc ds) rs.

Definition respects_with (kc : list Z) (ds : list decl) (T : list (Z * list Z)) (o : list Z) : bool :=
  closed kc ds T &&
  zperm o (registered_inits ds) &&
  forallb (fun d => match d with
                    | DInit comp creates rc rv rs =>
                        forallb (fun c => forallb (fun j => beforeb j comp o) (creators ds c))
                                (init_needs kc ds T creates rc rv rs)
                    | _ => true end) ds.

Definition respects (kc : list Z) (ds : list decl) (o : list Z) : bool :=
  respects_with kc ds (saturate (S (length ds)) kc ds []) o.

(* ------------------------------------------------------------------------------------------------------------ *)
(* correspondence                                                                                                *)
(* ------------------------------------------------------------------------------------------------------------ *)
Definition err_code (e : err) : Z :=
  match e with
  | EPopulation => 1 | EDynamicValue => 2 | ERandomness => 3 | EResource => 4 | _ => 9
  end.

(* The property demands a refusal, not a particular error class (a refactoring that lets a different layer catch the
   same duplicate is harmless): model and implementation must both refuse; the classes are reported by the harness
   (tags), the model's class is kept for the theorems (C09_refusal_classes).  code 0 = no error. *)
Definition refusal_agrees (e : err) (code : Z) : bool := (0 <? err_code e) && (0 <? code).

Inductive obs : Set :=
  | ObsErr (code : Z)                                   (* the simulation refused: error class *)
  | ObsOk (ogroups : list (list res * Z * list res))    (* nodes of ResourceManager.graph after post_setup: names, producer id, dependencies *)
          (oedges : list (res * res))                   (* ResourceManager.graph.edges, as (first name, first name) *)
          (calls : list (list Z))                       (* per creation of simulants: initializer ids in call order *)
  | ObsOrder (calls : list (list Z)).                   (* not refused, graph not observable (harness fallback): call orders only *)

Definition rsubset (a b : list res) : bool := forallb (fun x => rmem x b) a.
Definition esubset (a b : list (res * res)) : bool := forallb (fun x => existsb (edge_eqb x) b) a.

Definition group_agrees (g : group) (og : list res * Z * list res) : bool :=
  let '(n, p, d) := og in
  list_eqb res_eqb (g_names g) n && (if is_init (key g) then g_prod g =? p else true)
  && rsubset (g_deps g) d && rsubset d (g_deps g).

(* same groups, whatever the order in which they were registered *)
Definition groups_agree (gs : list group) (ogs : list (list res * Z * list res)) : bool :=
  Nat.eqb (length gs) (length ogs) &&
  forallb (fun g => existsb (group_agrees g) ogs) gs &&
  forallb (fun og => existsb (fun g => group_agrees g og) gs) ogs.

(* ---- what the property constrains: the initializer groups and which of them must precede which ----
   The order of the initializers is constrained exactly by the paths between initializer (column / null) groups; the
   intermediate nodes (sources, modifiers, values, streams) matter only through those paths.  The correspondence
   therefore REQUIRES: same initializer groups (columns created, producer) and the same reachability relation among
   them - and only REPORTS whether the whole graphs are identical (`same_graph`), so that a refactoring that
   restructures or delays registrations irrelevant to every initializer cannot alarm. *)
Fixpoint rnodup (l : list res) : list res :=
  match l with [] => [] | x :: r => if rmem x r then rnodup r else x :: rnodup r end.

Definition succs_of (es : list (res * res)) (u : res) : list res :=
  map snd (filter (fun e => res_eqb (fst e) u) es).

(* worklist search: every node enters `seen` (and the worklist) at most once *)
Fixpoint reach (fuel : nat) (es : list (res * res)) (todo seen : list res) : list res :=
  match fuel with
  | O => seen
  | S f => match todo with
           | [] => seen
           | u :: r => let new := rnodup (filter (fun v => negb (rmem v seen)) (succs_of es u)) in
                       reach f es (r ++ new) (seen ++ new)
           end
  end.

(* the nodes reachable from u by a non-empty path *)
Definition descendants (es : list (res * res)) (u : res) : list res :=
  let s := rnodup (succs_of es u) in reach (2 * length es + 2) es s s.

Definition same_constraints (inits : list res) (es es' : list (res * res)) : bool :=
  forallb (fun a => let d := descendants es a in let d' := descendants es' a in
                    forallb (fun b => Bool.eqb (rmem b d) (rmem b d')) inits) inits.

Definition init_group_agrees (g : group) (og : list res * Z * list res) : bool :=
  let '(n, p, _) := og in list_eqb res_eqb (g_names g) n && (g_prod g =? p).

Definition okey (og : list res * Z * list res) : res := hd (RNull (-1)) (fst (fst og)).

Definition init_groups_agree (gs : list group) (ogs : list (list res * Z * list res)) : bool :=
  let igs := filter (fun g => is_init (key g)) gs in
  let iogs := filter (fun og => is_init (okey og)) ogs in
  Nat.eqb (length igs) (length iogs) &&
  forallb (fun g => existsb (init_group_agrees g) iogs) igs &&
  forallb (fun og => existsb (fun g => init_group_agrees g og) igs) iogs.

Definition case : Set := (list Z * list decl * obs)%type.

Definition check_case (c : case) : bool :=
  let '(kc, ds, ob) := c in
  match build kc ds with
  | Rejected e => match ob with ObsErr code => refusal_agrees e code | _ => false end
  | OutOfFuel => false
  | Ok gs =>
      let T := saturate (S (length ds)) kc ds [] in
      match sort_groups gs, ob with
      | Rejected e, ObsErr code => refusal_agrees e code
      | Ok o, ObsOk ogs oes calls =>
          init_groups_agree gs ogs
          && same_constraints (filter is_init (nodes_of gs)) (edges_of gs) oes
          && respects_with kc ds T o                             (* the model's own order passes the checker *)
          && forallb (respects_with kc ds T) calls               (* and so does every observed call order *)
      | Ok o, ObsOrder calls =>
          respects_with kc ds T o && forallb (respects_with kc ds T) calls
      | _, _ => false
      end
  end.

(* the whole graphs are identical, node for node and edge for edge (reported by the harness, not required) *)
Definition same_graph (c : case) : bool :=
  let '(kc, ds, ob) := c in
  match build kc ds, ob with
  | Ok gs, ObsOk ogs oes _ => groups_agree gs ogs && esubset (edges_of gs) oes && esubset oes (edges_of gs)
  | _, _ => true
  end.

(* the model's Kahn order equals the observed one exactly (reported by the harness, not required) *)
Definition same_order (c : case) : bool :=
  let '(kc, ds, ob) := c in
  match init_order kc ds, ob with
  | Ok o, ObsOk _ _ calls => forallb (zlist_eqb o) calls
  | _, _ => true
  end.
