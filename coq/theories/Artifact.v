(* Model of vivarium/framework/artifact/artifact.py (Artifact, Keys) on top of artifact/hdf.py (DESIGN.md C19).

   An artifact is a path to an HDF file + the in-memory key list (Keys._keys, persisted as the JSON node
   `metadata.keyspace`) + the cache of loaded data.  Every operation is written in the code's order of effects, as the
   code stands after the fix commits 18714332 (replace validates before removing), f8d5c251 (JSON payload serialised
   before the file node is created), 7b352a55 (remove refuses the reserved key), 29349355 (a failed HDFStore.put
   removes the group it created), 4cf26c03 (replace restores the old data and the key's position when the write
   raises), 4bbd9e87 (write refuses a key that is a dotted prefix / extension of an existing key) and d4f70230 (an
   empty group left at a key's path - by the removal of `t.n.m`, or by a failed put below it - no longer blocks the JSON
   write of `t.n`: empty groups are therefore unobservable and the file is modelled as the flat list of its data nodes).

   The store holds VALUES: a content id stands for the value as it was when it was handed to write / replace; what
   the caller does to its object afterwards, or to an object a load returned, is not an operation of the model.  The
   correspondence mutates the objects it handed over and expects every later load - same handle, re-opened handle,
   unfiltered observer - to return the value as written (its JSON round-trip for non-pandas data: tuples come back as
   lists).  One exception is modelled faithfully, open finding F-AL: a load returns the cached object itself, so an
   in-place change of a LOADED object is an operation after all - [Mutate k j] - that replaces the cache entry.

   Keys are the list of their dot-separated parts (strings interned by the harness, 0 = the empty string;
   `metadata` = 1, `keyspace` = 2).  Data values are content ids (interned canonical forms).

   artifact.py anchors (tools/strip.py line numbers)          hdf.py anchors
     Artifact.load     103-116 -> [load]                        write 106-112, _write_pandas_data 364-387,
     Artifact.write    134-147 -> [write]                         _write_json_blob 390-406      -> [hdf_write]
     Artifact.remove   162-174 -> [remove]                      check_writable 133-137           -> [writable]
     Artifact.replace  192-212 -> [replace]                     remove 215-219                   -> [hdf_remove]
     clear_cache 214, __init__ 43-49 (re-opening) -> [step]     EntityKey.__init__ 262-267       -> [valid_key]
     Keys.append / Keys.insert / Keys.remove: the in-memory     EntityKey.path 285-307: `t.m` is the node /t/m,
       list is changed and the keyspace node is rewritten         `t.n.m` is /t/n/m -> [child_of], [parent_json]
       from it                                                  get_keys / _get_keys             -> [file_keys]

   The HDF layer is modelled with the behaviour that made the last three fixes necessary (a frame put on `t.m` deletes
   the whole group /t/m with `t.m.x` in it, remove is recursive, a failing put happens after the old group is gone):
   the theorems show that the Artifact layer as it now stands never lets these effects show.                     *)
From Viv Require Import Common.
Local Open Scope Z_scope.

Definition key := list Z.
Definition key_eqb (a b : key) : bool := zlist_eqb a b.
Definition ks_key : key := [1; 2].                       (* "metadata.keyspace" = Keys.keyspace_node *)

(* EntityKey.__init__: two or three parts, none of them empty *)
Definition valid_key (k : key) : bool :=
  match k with
  | [a; b] => negb (a =? 0) && negb (b =? 0)
  | [a; b; c] => negb (a =? 0) && negb (b =? 0) && negb (c =? 0)
  | _ => false
  end.

Inductive data :=
  | DNone                 (* None *)
  | DUnwritable           (* hdf.check_writable raises: json.dumps fails, or an empty frame without an index *)
  | DBadFrame             (* a frame that passes check_writable but on which HDFStore.put raises (object cells) *)
  | DFrame (i : Z)        (* DataFrame / Series that can be stored *)
  | DJson (i : Z).        (* any other value that json.dumps accepts *)

Inductive node :=
  | NTable (i : Z)        (* pandas table group with its metadata *)
  | NJson (i : Z).        (* EArray file node holding the JSON payload *)

Definition file := list (key * node).     (* the data nodes of the HDF file; the keyspace node is [keyspace] below *)

Record store := {
  file_of : file;
  keyspace : list key;           (* content of the persisted node metadata.keyspace *)
  keys : list key;               (* Keys._keys of the open Artifact object *)
  cache : list (key * Z);        (* Artifact._cache: key -> loaded content (as seen through the handle's filter) *)
  filt : Z                       (* the open object's filter_terms (+ draw column filter), as an id; 0 = none *)
}.

Fixpoint find {A} (k : key) (m : list (key * A)) : option A :=
  match m with [] => None | (k', v) :: r => if key_eqb k' k then Some v else find k r end.
Definition del {A} (k : key) (m : list (key * A)) : list (key * A) :=
  filter (fun e => negb (key_eqb (fst e) k)) m.
Definition memk (k : key) (l : list key) : bool := existsb (key_eqb k) l.
(* list.remove: the first occurrence *)
Fixpoint remove_first (k : key) (l : list key) : list key :=
  match l with [] => [] | x :: r => if key_eqb x k then r else x :: remove_first k r end.

(* list.index / list.insert *)
Fixpoint index_of (k : key) (l : list key) : nat :=
  match l with [] => O | x :: r => if key_eqb x k then O else S (index_of k r) end.
Definition insert_at (n : nat) (k : key) (l : list key) : list key := firstn n l ++ k :: skipn n l.

(* Artifact.write 138: `k'.startswith(k + ".") or k.startswith(k' + ".")` on the dotted strings = one part list is a
   proper prefix of the other *)
Fixpoint strict_prefix (a b : key) : bool :=
  match a, b with
  | [], _ :: _ => true
  | x :: a', y :: b' => (x =? y) && strict_prefix a' b'
  | _, _ => false
  end.
Definition overlaps (k k' : key) : bool := strict_prefix k k' || strict_prefix k' k.

(* ---- the HDF tree: `t.m` is the node /t/m and `t.m.x` is the node /t/m/x ---- *)
Definition child_of (k k' : key) : bool :=            (* k' lies strictly below the path of k *)
  match k' with [a; b; _] => key_eqb k [a; b] | _ => false end.
Definition under (k k' : key) : bool := key_eqb k k' || child_of k k'.
Definition occupied (f : file) (k : key) : bool := existsb (fun e => under k (fst e)) f.
Definition has_child (f : file) (k : key) : bool := existsb (fun e => child_of k (fst e)) f.
(* the parent path of a three-part key holds a JSON file node (an EArray, not a group): nothing can be created below *)
Definition parent_json (f : file) (k : key) : bool :=
  match k with
  | [a; b; _] => key_eqb [a; b] ks_key || match find [a; b] f with Some (NJson _) => true | _ => false end
  | _ => false
  end.

(* hdf.remove: file.remove_node(path, recursive=True) *)
Definition hdf_remove (f : file) (k : key) : file := filter (fun e => negb (under k (fst e))) f.

(* hdf.write; returns the file afterwards and the error, if any.  (None never reaches it: Artifact checks first.)
     JSON : payload first (f8d5c251); groups; filenode.new_node -> NodeError if anything is at the path, error if the
            parent is not a group
     frame: HDFStore.put(format="table") removes an existing group at the path (recursively), then creates it; when it
            then fails on the columns, the group it created is removed again (29349355) and the error re-raised  *)
Definition hdf_write (f : file) (k : key) (d : data) : file * option err :=
  if negb (valid_key k) then (f, Some EOther) else
  match d with
  | DNone | DUnwritable => (f, Some EOther)
  | DJson i => if parent_json f k || occupied f k then (f, Some EOther) else (f ++ [(k, NJson i)], None)
  | DFrame i => if parent_json f k then (f, Some EOther) else (hdf_remove f k ++ [(k, NTable i)], None)
  | DBadFrame => if parent_json f k then (f, Some EOther) else (hdf_remove f k, Some EOther)
  end.

(* hdf.check_writable *)
Definition writable (d : data) : bool := match d with DNone | DUnwritable => false | _ => true end.

Inductive out := Done | Loaded (i : Z) | LoadedReserved | Rej (e : err).
Inductive op :=
  | Write (k : key) (d : data) | Load (k : key) | Remove (k : key) | Replace (k : key) (d : data)
  | ClearCache | Reopen (f : Z)
  | Mutate (k : key) (j : Z).         (* the CALLER changed in place the object a load of k returned; its value is now j *)      (* Reopen f = Artifact(path, filter_terms = f); f < 0: terms the constructor refuses *)

Section Ops.
(* what the UNFILTERED hdf.load gives back for a stored content: [rt true] for tables, [rt false] for JSON payloads
   (json.load o json.dumps); and what a handle with filter [f] makes of a table content ([view f]: the rows passing
   the valid filter terms, the columns the draw filter selects - see load_filtered / select_columns below).  JSON
   payloads are not filtered (hdf.load 176-179). *)
Variable rt : bool -> Z -> Z.
Variable view : Z -> Z -> Z.
Definition back (n : node) : Z := match n with NTable i => rt true i | NJson i => rt false i end.
(* hdf.load(path, key, filter_terms, draw_column_filter) through a handle whose filter is [f] *)
Definition seen (f : Z) (n : node) : Z := match n with NTable i => view f (rt true i) | NJson i => rt false i end.

Definition set_file (s : store) (f : file) : store :=
  {| file_of := f; keyspace := keyspace s; keys := keys s; cache := cache s; filt := filt s |}.

(* Artifact.write: duplicate, no data, overlapping key (4bbd9e87), hdf.write, Keys.append *)
Definition write (s : store) (k : key) (d : data) : store * out :=
  if memk k (keys s) then (s, Rej EArtifact)
  else match d with
       | DNone => (s, Rej EArtifact)
       | _ => if existsb (overlaps k) (keys s) then (s, Rej EArtifact) else
              let '(f', r) := hdf_write (file_of s) k d in
              match r with
              | Some e => (set_file s f', Rej e)
              | None => ({| file_of := f'; keyspace := keys s ++ [k]; keys := keys s ++ [k]; cache := cache s; filt := filt s |}, Done)
              end
       end.

(* Artifact.remove: Keys.remove (list + node), cache, then hdf.remove (EntityKey check, remove_node) *)
Definition remove (s : store) (k : key) : store * out :=
  if negb (memk k (keys s)) then (s, Rej EArtifact)
  else if key_eqb k ks_key then (s, Rej EArtifact)
  else let ks' := remove_first k (keys s) in
       if valid_key k && occupied (file_of s) k
       then ({| file_of := hdf_remove (file_of s) k; keyspace := ks'; keys := ks'; cache := del k (cache s); filt := filt s |}, Done)
       else ({| file_of := file_of s; keyspace := ks'; keys := ks'; cache := del k (cache s); filt := filt s |}, Rej EOther).

(* what re-writing the data loaded from a node stores again (hdf.write o hdf.load on a stored node) *)
Definition data_of (n : node) : data :=
  match n with NTable i => DFrame i | NJson i => DJson i end.

(* Artifact.replace: membership, no data, check_writable, position + RAW hdf.load(path, key, None, None) of the old
   data - not through the handle's filter: what is written back on failure is the whole stored content (raises when the
   node is not loadable - nothing has happened yet), remove, write; when the write raises: hdf.write of the old data
   and Keys.insert at the old position, then the error is re-raised (4cf26c03).  For the reserved key the raw load
   succeeds (the key list) and remove refuses. *)
Definition replace (s : store) (k : key) (d : data) : store * out :=
  if negb (memk k (keys s)) then (s, Rej EArtifact)
  else match d with
       | DNone => (s, Rej EArtifact)
       | DUnwritable => (s, Rej EOther)
       | _ =>
         let pos := index_of k (keys s) in
         let old := if key_eqb k ks_key then Some DUnwritable (* the key list; never written back: remove refuses *)
                    else option_map data_of (find k (file_of s)) in
         match old with
         | None => (s, Rej EOther)
         | Some od =>
           let '(s1, o1) := remove s k in
           match o1 with
           | Done =>
               let '(s2, o2) := write s1 k d in
               match o2 with
               | Rej e =>
                   let '(f3, r3) := hdf_write (file_of s2) k od in
                   match r3 with
                   | None => ({| file_of := f3; keyspace := insert_at pos k (keys s2); keys := insert_at pos k (keys s2);
                                 cache := cache s2; filt := filt s2 |}, Rej e)
                   | Some e3 => (set_file s2 f3, Rej e3)       (* the handler itself raised *)
                   end
               | _ => (s2, o2)
               end
           | _ => (s1, o1)
           end
         end
       end.

(* Artifact.load.  Loading the reserved key returns the key list (content not modelled: [LoadedReserved]). *)
Definition load (s : store) (k : key) : store * out :=
  if negb (memk k (keys s)) then (s, Rej EArtifact)
  else if key_eqb k ks_key then (s, LoadedReserved)
  else match find k (cache s) with
       | Some i => (s, Loaded i)
       | None => match find k (file_of s) with
                 | Some n => ({| file_of := file_of s; keyspace := keyspace s; keys := keys s;
                                 cache := (k, seen (filt s) n) :: cache s; filt := filt s |}, Loaded (seen (filt s) n))
                 | None => (s, Rej EOther)
                 end
       end.

(* Reopen f = a new Artifact object on the same path with filter f: Keys.__init__ reads the keyspace node, the cache is
   empty.  Two handles with different filters used alternately on one file are a history with Reopen between.
   Artifact.__init__ 45 calls _parse_draw_filters first: two draw terms (ValueError) or a draw comparison other than
   =, ==, in (NotImplementedError) make the constructor raise before anything is touched - the old handle stays. *)
Definition step (s : store) (o : op) : store * out :=
  match o with
  | Write k d => write s k d
  | Load k => load s k
  | Remove k => remove s k
  | Replace k d => replace s k d
  | ClearCache => ({| file_of := file_of s; keyspace := keyspace s; keys := keys s; cache := []; filt := filt s |}, Done)
  | Mutate k j =>
      (* Artifact.load 106-116 returns self._cache[key] - the cached OBJECT, not a copy (open finding F-AL): what the
         caller does to it in place is what the next load through this handle returns, until the entry is dropped
         (remove / replace / clear_cache / a new Artifact) *)
      match find k (cache s) with
      | Some _ => ({| file_of := file_of s; keyspace := keyspace s; keys := keys s; cache := (k, j) :: del k (cache s);
                      filt := filt s |}, Done)
      | None => (s, Done)
      end
  | Reopen f => if f <? 0 then (s, Rej EOther)
                else ({| file_of := file_of s; keyspace := keyspace s; keys := keyspace s; cache := []; filt := f |}, Done)
  end.

Fixpoint run (s : store) (ops : list op) : store :=
  match ops with [] => s | o :: r => run (fst (step s o)) r end.

(* what a key holds, as a freshly opened UNFILTERED artifact (or hdf.load without terms) would load it *)
Definition abs (s : store) (k : key) : option Z := option_map back (find k (file_of s)).

End Ops.

(* Artifact(path) on a path where no file exists: touch + keyspace node ["metadata.keyspace"] *)
Definition init : store := {| file_of := []; keyspace := [ks_key]; keys := [ks_key]; cache := []; filt := 0 |}.

(* ---- the abstract machine the artifact refines: a plain finite map key -> what was stored (kind + content) ---- *)
Definition amap := list (key * node).
Definition node_of (d : data) : option node :=
  match d with DFrame i => Some (NTable i) | DJson i => Some (NJson i) | _ => None end.
Definition is_some {A} (o : option A) : bool := match o with Some _ => true | None => false end.

(* the new map and whether the operation is accepted:
     write   = insert, if the key is well formed, not the reserved one, absent, overlaps no present key (nor the
               reserved one) and the data can be stored
     remove  = delete, if present;   replace = overwrite, if present and the data can be stored
     everything else - and every operation that is not accepted - is the identity; the handle's filter plays no role *)
Definition spec_step (m : amap) (o : op) : amap * bool :=
  match o with
  | Write k d =>
      match node_of d with
      | Some n => if valid_key k && negb (key_eqb k ks_key) && negb (is_some (find k m)) &&
                     negb (existsb (overlaps k) (ks_key :: map fst m))
                  then (m ++ [(k, n)], true) else (m, false)
      | None => (m, false)
      end
  | Remove k => if is_some (find k m) then (del k m, true) else (m, false)
  | Replace k d =>
      match node_of d with
      | Some n => if is_some (find k m) then (del k m ++ [(k, n)], true) else (m, false)
      | None => (m, false)
      end
  | Load k => (m, is_some (find k m) || key_eqb k ks_key)
  | ClearCache | Mutate _ _ => (m, true)
  | Reopen f => (m, 0 <=? f)
  end.
Fixpoint spec_run (m : amap) (ops : list op) : amap :=
  match ops with [] => m | o :: r => spec_run (fst (spec_step m o)) r end.

(* an operation sequence with the handles' filters forgotten *)
Definition erase (o : op) : op :=
  match o with Reopen f => Reopen (if f <? 0 then -1 else 0) | Mutate k _ => Mutate k 0 | _ => o end.

Definition is_rej (o : out) : bool := match o with Rej _ => true | _ => false end.
Definition op_key (o : op) : option key :=
  match o with Write k _ | Load k | Remove k | Replace k _ => Some k | _ => None end.
(* the operation can change what is stored under k *)
Definition touches (k : key) (o : op) : bool :=
  match o with Write k' _ | Remove k' | Replace k' _ => key_eqb k' k | _ => false end.

(* ------------------------------------------------------------------------------------------------------------
   Filter terms (hdf._get_valid_filter_terms 447-460 + the `where=` of read_hdf): a term is a Boolean combination
   of comparisons `column op constant`; a term that mentions a column the table cannot be queried on is dropped;
   the remaining terms are a conjunction; rows keep their order.                                                *)
Inductive cmp := CLt | CLe | CEq | CGe | CGt | CNe.
Inductive term := TAtom (col : Z) (c : cmp) (v : Z) | TAnd (a b : term) | TOr (a b : term).

Fixpoint term_cols (t : term) : list Z :=
  match t with TAtom c _ _ => [c] | TAnd a b | TOr a b => term_cols a ++ term_cols b end.
Definition term_valid (cols : list Z) (t : term) : bool := forallb (fun c => zmem c cols) (term_cols t).
Definition valid_terms (cols : list Z) (ts : list term) : list term := filter (term_valid cols) ts.

Definition cmp_eval (c : cmp) (x v : Z) : bool :=
  match c with
  | CLt => x <? v | CLe => x <=? v | CEq => x =? v | CGe => x >=? v | CGt => x >? v | CNe => negb (x =? v)
  end.
Fixpoint cell (cols : list Z) (row : list Z) (c : Z) : option Z :=
  match cols, row with
  | a :: cr, x :: rr => if a =? c then Some x else cell cr rr c
  | _, _ => None
  end.
Fixpoint term_eval (cols : list Z) (row : list Z) (t : term) : bool :=
  match t with
  | TAtom c o v => match cell cols row c with Some x => cmp_eval o x v | None => false end
  | TAnd a b => term_eval cols row a && term_eval cols row b
  | TOr a b => term_eval cols row a || term_eval cols row b
  end.
Definition row_passes (cols : list Z) (ts : list term) (row : list Z) : bool :=
  forallb (term_eval cols row) (valid_terms cols ts).
(* hdf.load of a table with filter terms: the rows (each = its values in the queryable columns) that pass *)
Definition load_filtered (cols : list Z) (ts : list term) (rows : list (list Z)) : list (list Z) :=
  filter (row_passes cols ts) rows.

(* The draw filter (artifact.py _parse_draw_filters 286-320 + read_hdf(columns=...)): one filter term of the form
   `draw == n` / `draw = n` / `draw in [n, ...]` does not restrict rows at all (`draw` is no column: the term is dropped
   by valid_terms) but selects columns: of the stored value columns, those named draw_n for a requested n and `value`. *)
Definition select_columns (stored : list Z) (request : option (list Z)) : list Z :=
  match request with None => stored | Some cols => filter (fun c => zmem c cols) stored end.

(* ------------------------------------------------------------------------------------------------------------
   Correspondence.  Stream `ops`: an operation sequence on a real HDF file; after every operation the harness records
   the outcome, artifact.keys, hdf.get_keys(path), the keys of a second Artifact opened on the path and what that
   second artifact loads for a selection of keys.  Key lists are compared as multisets.                         *)
Definition count_key (k : key) (l : list key) : nat := length (filter (key_eqb k) l).
Definition same_keys (a b : list key) : bool :=
  forallb (fun k => Nat.eqb (count_key k a) (count_key k b)) (a ++ b).

(* hdf.get_keys: every table / JSON node, plus the keyspace node *)
Definition file_keys (f : file) : list key := ks_key :: map fst f.

Definition lookup_rt (tbl : list (Z * Z)) (i : Z) : Z := match zassoc i tbl with Some j => j | None => i end.
Definition mk_rt (tj tb : list (Z * Z)) (is_table : bool) (i : Z) : Z :=
  if is_table then lookup_rt tb i else lookup_rt tj i.

Record observation := {
  o_op : op;
  o_rej : bool;                          (* the call raised *)
  o_loaded : option Z;                   (* content id returned by a successful load of a non-reserved key *)
  o_keys : list key;                     (* artifact.keys *)
  o_file : list key;                     (* hdf.get_keys(path) *)
  o_keys2 : list key;                    (* Artifact(path).keys *)
  o_loads2 : list (key * option Z)       (* Artifact(path).load(k): content id, None = raised *)
}.

Fixpoint lookup_view (tbl : list (Z * Z * Z)) (f i : Z) : Z :=
  match tbl with
  | [] => i
  | (f', i', j) :: r => if (f' =? f) && (i' =? i) then j else lookup_view r f i
  end.

Fixpoint run_obs (rt : bool -> Z -> Z) (view : Z -> Z -> Z) (s : store) (l : list observation) : bool :=
  match l with
  | [] => true
  | o :: r =>
      let '(s', res) := step rt view s (o_op o) in
      Bool.eqb (is_rej res) (o_rej o) &&
      match res with Loaded i => option_eqb Z.eqb (Some i) (o_loaded o) | _ => true end &&
      same_keys (keys s') (o_keys o) && same_keys (file_keys (file_of s')) (o_file o) &&
      same_keys (keyspace s') (o_keys2 o) &&
      forallb (fun kv => option_eqb Z.eqb
                           (if memk (fst kv) (keyspace s') && negb (key_eqb (fst kv) ks_key)
                            then option_map (back rt) (find (fst kv) (file_of s'))
                            else None) (snd kv)) (o_loads2 o) &&
      run_obs rt view s' r
  end.

(* rt json, rt table, the filters' effect on table contents (filter id, content id, filtered content id), observations;
   [o_loaded] is what the (possibly filtered) HANDLE returned, [o_loads2] what an UNFILTERED second artifact loads *)
Definition ops_case := (list (Z * Z) * list (Z * Z) * list (Z * Z * Z) * list observation)%type.
Definition check_ops (c : ops_case) : bool :=
  let '(tj, tb, vt, l) := c in run_obs (mk_rt tj tb) (lookup_view vt) init l.

(* Stream `filt`: a table whose queryable columns are [cols] with rows [rows] (in stored order), loaded through an
   artifact with filter terms [ts]; observed: the positions (in the unfiltered load) of the rows returned. *)
Fixpoint positions_from (n : Z) (p : list Z -> bool) (rows : list (list Z)) : list Z :=
  match rows with [] => [] | r :: rest => if p r then n :: positions_from (n + 1) p rest else positions_from (n + 1) p rest end.
Fixpoint count_zs (x : Z) (l : list Z) : nat :=
  match l with [] => O | y :: r => if y =? x then S (count_zs x r) else count_zs x r end.
Definition same_zs (a b : list Z) : bool := forallb (fun x => Nat.eqb (count_zs x a) (count_zs x b)) (a ++ b).
(* ... plus: the stored value columns, the columns a draw term requests (if there is one), the columns returned *)
Definition filt_case := (list Z * list (list Z) * list term * list Z * (list Z * option (list Z) * list Z))%type.
Definition check_filt (c : filt_case) : bool :=
  let '(cols, rows, ts, observed, (stored, request, ocols)) := c in
  zlist_eqb (positions_from 0 (row_passes cols ts) rows) observed &&
  same_zs (select_columns stored request) ocols.
