(* Model of vivarium/framework/results: ResultsManager / ResultsContext / Stratification / *Observation
   (DESIGN.md C16).  Names of stratifications, observations, categories, phases are numbers (the harness interns the
   strings; stratification names are interned in lexicographic order so that Z order = Python's string order).

   anchors (line numbers of /repo/src/vivarium/framework/results/*.py as printed by tools/strip.py):
     manager.py  register_binned_stratification 240-300 -> [binned_shape_ok], [bin_index], [mapped_value]
     context.py  add_stratification 96-186, stratification.py __post_init__ 56-72 -> [add_stratification]
     manager.py  _get_stratifications 375-391 -> [spec_set], [resolve]
     context.py  register_observation 188-240 -> [add_observation]
     manager.py  on_post_setup 104-136, observation.py create_expanded_df 236-287 -> [init], [init_one], [product]
     manager.py  gather_results 154-165 / _prepare_population 403-415 -> [step] (full-table view: NO tracked filter)
     stratification.py stratify 74-111 -> [classify], [valid_event]
     context.py  gather_results 242-314, _filter_population 316-333, _get_groups 335-359 -> [update_one]
     observation.py _aggregate/_format/_expand_index 314-348 -> [grouped]; add_results 404-435 -> [add_results];
                 concatenate_results 488-507 -> [concatenate]

   External (library / user) behaviour is an INPUT of the model, supplied per case by the harness from the real objects:
   the mapper outputs ([r_raw]), the verdict of pandas `query` for each pop_filter ([r_pass]), the aggregator weights
   ([r_w], integers), the to_observe verdicts ([e_obs]) and the iteration order of the Python set in
   _get_stratifications.                                                                                            *)
From Viv Require Import Common.
Local Open Scope Z_scope.

Definition cid := Z.
Definition stratum := list cid.

(* ---------- small helpers ---------- *)
Fixpoint sumZ {A : Type} (f : A -> Z) (l : list A) : Z :=
  match l with [] => 0 | x :: r => f x + sumZ f r end.
Definition is_nil {A : Type} (l : list A) : bool := match l with [] => true | _ => false end.
Definition is_some {A : Type} (o : option A) : bool := match o with Some _ => true | None => false end.
Fixpoint znodupb (l : list Z) : bool :=
  match l with [] => true | x :: r => negb (zmem x r) && znodupb r end.
Definition ocid_eqb : option cid -> option cid -> bool := option_eqb Z.eqb.

(* ================================================================================================================
   Stratifications
   ================================================================================================================ *)
Inductive skind :=
  | KMapped                                         (* default / vectorised / per-row mapper: output given by the harness *)
  | KBinned (edges : list Z) (labels : list cid).   (* register_binned_stratification: pd.cut(right=False) *)

Record strat := { s_name : Z;
                  s_cats : list cid;     (* Stratification.categories: the NON-excluded categories, in order *)
                  s_excl : list cid;     (* Stratification.excluded_categories *)
                  s_kind : skind }.

Inductive qkind := QDefault | QMapper | QBinned (edges : list Z).
Record sreq := { q_name : Z; q_cats : list cid;
                 q_excl : option (list cid);      (* excluded_categories argument; None = take the configuration's *)
                 q_kind : qkind; q_sources : nat }.

Definition config := list (Z * list cid).          (* stratification.excluded_categories *)

Definition resolve_excl (cfg : config) (q : sreq) : list cid :=      (* context.py 160-164 *)
  match q_excl q with
  | Some l => l
  | None => match zassoc (q_name q) cfg with Some l => l | None => [] end
  end.

Definition binned_shape_ok (q : sreq) : bool :=                       (* manager.py 284-288 *)
  match q_kind q with QBinned edges => Nat.eqb (length edges) (S (length (q_cats q))) | _ => true end.

Definition kind_of (q : sreq) : skind :=
  match q_kind q with QBinned edges => KBinned edges (q_cats q) | _ => KMapped end.

(* every refusal is a ValueError (EOther); nothing is recorded on refusal *)
Definition add_stratification (cfg : config) (regs : list strat) (q : sreq) : result (list strat) :=
  if negb (binned_shape_ok q) then Rejected EOther
  else if existsb (fun s => s_name s =? q_name q) regs then Rejected EOther           (* name already used *)
  else if negb (znodupb (q_cats q)) then Rejected EOther                              (* duplicate categories *)
  else let ex := resolve_excl cfg q in
  if negb (forallb (fun c => zmem c (q_cats q)) ex) then Rejected EOther               (* unknown exclusions *)
  else let cats := filter (fun c => negb (zmem c ex)) (q_cats q) in
  if (match q_kind q with QDefault => negb (Nat.eqb (q_sources q) 1) | _ => false end)
  then Rejected EOther                                                                 (* no mapper, #sources <> 1 *)
  else if is_nil cats then Rejected EOther                                             (* categories empty *)
  else if Nat.eqb (q_sources q) 0 then Rejected EOther                                 (* sources empty *)
  else Ok (regs ++ [{| s_name := q_name q; s_cats := cats; s_excl := ex; s_kind := kind_of q |}]).

(* a sequence of registration attempts; refused ones leave the registry as it was *)
Fixpoint build_regs (cfg : config) (qs : list sreq) (regs : list strat) : list strat :=
  match qs with
  | [] => regs
  | q :: r => match add_stratification cfg regs q with Ok regs' => build_regs cfg r regs' | _ => build_regs cfg r regs end
  end.

Fixpoint find_strat (n : Z) (regs : list strat) : option strat :=
  match regs with [] => None | s :: r => if s_name s =? n then Some s else find_strat n r end.
Definition registered (regs : list strat) (n : Z) : bool := is_some (find_strat n regs).
Definition cats_of_name (regs : list strat) (n : Z) : list cid :=
  match find_strat n regs with Some s => s_cats s | None => [] end.

(* ---- Stratification.stratify on one value ---- *)
Fixpoint bin_index (edges : list Z) (x : Z) : option nat :=            (* half-open bins [e_i, e_i+1) *)
  match edges with
  | lo :: ((hi :: _) as r) => if (lo <=? x) && (x <? hi) then Some 0%nat else option_map S (bin_index r x)
  | _ => None
  end.
Fixpoint increasing (l : list Z) : bool :=
  match l with a :: ((b :: _) as r) => (a <? b) && increasing r | _ => true end.

Definition mapped_value (s : strat) (raw : option Z) : option cid :=   (* None = NaN *)
  match s_kind s, raw with
  | KMapped, _ => raw
  | KBinned edges labels, Some x => match bin_index edges x with Some i => nth_error labels i | None => None end
  | KBinned _ _, None => None
  end.

(* Ok (Some c): category c; Ok None: an excluded category (NaN after the cast, dropped later);
   Rejected: NaN or a value outside categories + excluded -> ValueError *)
Definition classify (s : strat) (raw : option Z) : result (option cid) :=
  match mapped_value s raw with
  | None => Rejected EOther
  | Some v => if zmem v (s_cats s) then Ok (Some v)
              else if zmem v (s_excl s) then Ok None
              else Rejected EOther
  end.

(* ================================================================================================================
   _get_stratifications: tuple(sorted(list(set(default + requested + additional) - set(excluded))))
   ================================================================================================================ *)
Fixpoint zdedup (l : list Z) : list Z :=
  match l with [] => [] | x :: r => if zmem x r then zdedup r else x :: zdedup r end.
Definition spec_set (d r a e : list Z) : list Z := filter (fun x => negb (zmem x e)) (zdedup (d ++ r ++ a)).

Fixpoint insert (x : Z) (l : list Z) : list Z :=
  match l with [] => [x] | y :: r => if x <=? y then x :: y :: r else y :: insert x r end.
Fixpoint isort (l : list Z) : list Z := match l with [] => [] | x :: r => insert x (isort r) end.

(* [iter] = the order in which Python iterates the set; any permutation of [spec_set] *)
Definition resolve (iter : list Z) : list Z := isort iter.

Fixpoint count_z (x : Z) (l : list Z) : nat :=
  match l with [] => O | y :: r => if x =? y then S (count_z x r) else count_z x r end.
Definition is_perm (l1 l2 : list Z) : bool :=
  Nat.eqb (length l1) (length l2) && forallb (fun x => Nat.eqb (count_z x l1) (count_z x l2)) l1.

(* ================================================================================================================
   Observations
   ================================================================================================================ *)
Inductive okind :=
  | OCount                    (* AddingObservation, aggregator = len *)
  | OSum (col : nat)          (* AddingObservation, aggregator = pandas sum of weight column [col] *)
  | OConcat (cols : list nat). (* ConcatenatingObservation of payload columns [cols] (+ event_time) *)

Record obs := { o_name : Z; o_phase : Z; o_filter : nat; o_strats : list Z; o_kind : okind }.

Definition uses_strats (o : obs) : bool := match o_kind o with OConcat _ => false | _ => true end.

Definition add_observation (os : list obs) (o : obs) : result (list obs) :=     (* context.py 219-240 *)
  if existsb (fun o' => o_name o' =? o_name o) os then Rejected EOther else Ok (os ++ [o]).

(* ---- results ---- *)
Definition table := list (stratum * Z).
Definition crow := (Z * list Z)%type.               (* event_time, payload values *)
Inductive oresult := RAdd (t : table) | RCat (rows : list crow).
Definition state := list (obs * oresult).

(* itertools.product *)
Fixpoint product (ls : list (list cid)) : list stratum :=
  match ls with [] => [[]] | l :: r => flat_map (fun c => map (cons c) (product r)) l end.

Definition strata (regs : list strat) (o : obs) : list stratum := product (map (cats_of_name regs) (o_strats o)).

Definition init_one (regs : list strat) (o : obs) : oresult :=
  match o_kind o with
  | OConcat _ => RCat []                                            (* create_empty_df *)
  | _ => RAdd (map (fun k => (k, 0)) (strata regs o))              (* create_expanded_df: [[]] = the `all` row *)
  end.

(* on_post_setup: refuses when an observation asks for an unregistered stratification *)
Definition init (regs : list strat) (os : list obs) : result state :=
  if forallb (fun o => negb (uses_strats o) || forallb (registered regs) (o_strats o)) os
  then Ok (map (fun o => (o, init_one regs o)) os)
  else Rejected EOther.

(* ================================================================================================================
   Events
   ================================================================================================================ *)
Record row := { r_label : Z;
                r_raw  : list (Z * option Z);   (* stratification name -> mapper output (None = NaN); binned: the value binned *)
                r_pass : list bool;             (* verdict of `query` per pop_filter number *)
                r_w    : list Z;                (* weight columns *)
                r_pay  : list Z }.              (* payload columns for concatenating observations *)

Record event := { e_phase : Z; e_time : Z; e_rows : list row;
                  e_obs : list Z }.             (* names of the observations whose to_observe(event) is true *)

Definition raw_of (n : Z) (r : row) : option Z := match zassoc n (r_raw r) with Some v => v | None => None end.
Definition class_ok (s : strat) (r : row) : bool :=
  match classify s (raw_of (s_name s) r) with Ok _ => true | _ => false end.

(* pd.cut refuses bin edges that do not increase, on every call.  (Before fix commit 44312e20 - finding F-R - `_bin_data`
   also refused every ONE-row population: DataFrame.squeeze() of a 1x1 frame is a scalar.  Repaired: squeeze(axis=1).) *)
Definition kind_ok (s : strat) : bool :=
  match s_kind s with
  | KMapped => true
  | KBinned edges _ => increasing edges
  end.

(* every registered stratification (used or not) is applied to the whole event population *)
Definition valid_event (regs : list strat) (rows : list row) : bool :=
  forallb kind_ok regs && forallb (fun r => forallb (fun s => class_ok s r) regs) rows.

(* the `<name>_mapped_values` cell of a row, after the cast to the categorical of the non-excluded categories *)
Definition cat_of (regs : list strat) (n : Z) (r : row) : option cid :=
  match find_strat n regs with
  | Some s => match classify s (raw_of n r) with Ok c => c | _ => None end
  | None => None
  end.

(* an observation's view of a row *)
Record vrow := { v_pass : bool; v_cats : list (option cid); v_w : Z }.
Definition weight (o : obs) (r : row) : Z :=
  match o_kind o with OCount => 1 | OSum c => nth c (r_w r) 0 | OConcat _ => 0 end.
Definition passes (o : obs) (r : row) : bool := nth (o_filter o) (r_pass r) false.
Definition v_of (regs : list strat) (o : obs) (r : row) : vrow :=
  {| v_pass := passes o r; v_cats := map (fun n => cat_of regs n r) (o_strats o); v_w := weight o r |}.
Definition ev_view (regs : list strat) (o : obs) (ev : event) : list vrow := map (v_of regs o) (e_rows ev).

(* ---- the pipeline of context.gather_results for one stratified observation ---- *)
Definition vfilter (v : list vrow) : list vrow := filter v_pass v.                             (* query *)
Definition dropna (v : list vrow) : list vrow := filter (fun r => forallb is_some (v_cats r)) v.
Definition cats_match (cats : list (option cid)) (k : stratum) : bool := list_eqb ocid_eqb cats (map Some k).
Definition group (k : stratum) (v : list vrow) : list vrow := filter (fun r => cats_match (v_cats r) k) v.
Definition aggregate (v : list vrow) : Z := sumZ v_w v.                                     (* len / sum; empty -> 0 *)
(* groupby(observed=False) + aggregate + fillna(0) + _expand_index: one row per combination of the levels *)
Definition grouped (cs : list (list cid)) (v : list vrow) : table :=
  map (fun k => (k, aggregate (group k v))) (product cs).

Fixpoint tlookup (k : stratum) (t : table) : option Z :=
  match t with [] => None | (k', x) :: r => if zlist_eqb k' k then Some x else tlookup k r end.
(* add_results: `existing[col] += new[col]`, aligned on the existing index (a key missing from [new] cannot occur:
   ResultsProofs.grouped_complete) *)
Definition add_results (existing new : table) : table :=
  map (fun kx => (fst kx, snd kx + match tlookup (fst kx) new with Some y => y | None => 0 end)) existing.

Definition concatenate (existing new : list crow) : list crow :=
  if is_nil existing then new else existing ++ new.

Definition observed (o : obs) (ev : event) : bool := (e_phase ev =? o_phase o) && zmem (o_name o) (e_obs ev).
Definition payload (cols : list nat) (ev : event) (r : row) : crow := (e_time ev, map (fun c => nth c (r_pay r) 0) cols).

Definition update_one (regs : list strat) (ev : event) (o : obs) (res : oresult) : oresult :=
  if negb (e_phase ev =? o_phase o) then res else                       (* observations[lifecycle_phase] *)
  match o_kind o, res with
  | OConcat cols, RCat old =>
      let f := filter (passes o) (e_rows ev) in                         (* no dropna: stratifications is None *)
      if is_nil f then res                                               (* filtered_pop.empty: yield None *)
      else if negb (zmem (o_name o) (e_obs ev)) then res                 (* to_observe false: observe returns None *)
      else RCat (concatenate old (map (payload cols ev) f))
  | OConcat _, RAdd _ => res
  | _, RAdd t =>
      let f := dropna (vfilter (ev_view regs o ev)) in
      if is_nil f then res
      else if negb (zmem (o_name o) (e_obs ev)) then res
      else RAdd (add_results t (grouped (map (cats_of_name regs) (o_strats o)) f))
  | _, RCat _ => res
  end.

Inductive outcome := Accepted | Refused (e : err).

(* ResultsManager.gather_results for one event.  All stratifications are evaluated before the first observation is
   updated (the loop at context.py 281-290 precedes the first `yield`), so a refusal changes nothing. *)
Definition step (regs : list strat) (st : state) (ev : event) : state * outcome :=
  if is_nil (e_rows ev) then (st, Accepted)                              (* population.empty: return *)
  else if negb (valid_event regs (e_rows ev)) then (st, Refused EOther)
  else (map (fun orr => (fst orr, update_one regs ev (fst orr) (snd orr))) st, Accepted).

(* the simulation stops at the first refused event *)
Fixpoint run (regs : list strat) (st : state) (evs : list event) : state * outcome :=
  match evs with
  | [] => (st, Accepted)
  | ev :: r => match step regs st ev with
               | (st', Accepted) => run regs st' r
               | (st', Refused e) => (st', Refused e)
               end
  end.

(* ---- declarative side: what one event contributes to one stratum ---- *)
Definition eligible (r : vrow) : bool := v_pass r && forallb is_some (v_cats r).
Definition contrib (r : vrow) (k : stratum) : Z := if eligible r && cats_match (v_cats r) k then v_w r else 0.
Definition increment (v : list vrow) (k : stratum) : Z := sumZ (fun r => contrib r k) v.
Definition eligible_total (v : list vrow) : Z := sumZ (fun r => if eligible r then v_w r else 0) v.
Definition ev_increment (regs : list strat) (o : obs) (ev : event) (k : stratum) : Z :=
  if observed o ev then increment (ev_view regs o ev) k else 0.
Definition ev_rows (o : obs) (cols : list nat) (ev : event) : list crow :=
  if observed o ev then map (payload cols ev) (filter (passes o) (e_rows ev)) else [].

(* an event with an invalid mapped value somewhere *)
Definition has_unknown (regs : list strat) (rows : list row) : bool :=
  existsb (fun r => existsb (fun s => negb (class_ok s r)) regs) rows.

(* ================================================================================================================
   Correspondence
   ================================================================================================================ *)
Definition code_of (o : outcome) : Z := match o with Accepted => 0 | Refused _ => 1 end.
Definition rcode {A : Type} (r : result A) : Z := match r with Ok _ => 0 | _ => 1 end.

(* ---- stream `strat`: add_stratification + stratify on single values ----
   case = (cfg, request, observed registration code, [(raw, observed)]), observed: 0 c = category c; 1 _ = NaN
   (excluded); 2 _ = raised *)
Definition strat_case := (config * sreq * Z * list (option Z * (Z * Z)))%type.
Definition classify_obs (s : strat) (raw : option Z) : Z * Z :=
  match classify s raw with Ok (Some c) => (0, c) | Ok None => (1, 0) | _ => (2, 0) end.
Definition check_strat (c : strat_case) : bool :=
  let '(cfg, q, code, vals) := c in
  match add_stratification cfg [] q with
  | Ok [s] => (code =? 0) &&
              (match s_kind s with KBinned edges _ => increasing edges | _ => true end) &&
              forallb (fun vo => let '(a, b) := classify_obs s (fst vo) in (a =? fst (snd vo)) && implb (a =? 0) (b =? snd (snd vo))) vals
  | Ok _ => false
  | _ => code =? 1
  end.

(* ---- stream `resolve`: _get_stratifications ----
   case = (default, requested, additional, excluded, iteration order of the set, observed tuple) *)
Definition resolve_case := (list Z * list Z * list Z * list Z * list Z * list Z)%type.
Definition check_resolve (c : resolve_case) : bool :=
  let '(d, r, a, e, iter, tuple) := c in
  is_perm iter (spec_set d r a e) && zlist_eqb (resolve iter) tuple.

(* ---- stream `sim`: whole simulations ---- *)
Inductive ores := OAdd (t : table) | OCat (rows : list crow).
(* observation request: name, phase, filter, kind, default, additional, excluded stratifications, set iteration order,
   observed registration code, observed stratification tuple *)
Definition oreq := (Z * Z * nat * okind * (list Z * list Z * list Z) * list Z * Z * list Z)%type.

Definition table_eqb (m o : table) : bool :=
  Nat.eqb (length m) (length o) && forallb (fun kx => option_eqb Z.eqb (tlookup (fst kx) o) (Some (snd kx))) m.
Definition crow_eqb (a b : crow) : bool := (fst a =? fst b) && zlist_eqb (snd a) (snd b).
Definition ores_eqb (m : oresult) (o : ores) : bool :=
  match m, o with
  | RAdd t, OAdd t' => table_eqb t t'
  | RCat r, OCat r' => list_eqb crow_eqb r r'
  | _, _ => false
  end.
Fixpoint olookup (n : Z) (l : list (Z * ores)) : option ores :=
  match l with [] => None | (a, v) :: r => if a =? n then Some v else olookup n r end.
Definition state_eqb (st : state) (o : list (Z * ores)) : bool :=
  Nat.eqb (length st) (length o) &&
  forallb (fun orr => match olookup (o_name (fst orr)) o with Some x => ores_eqb (snd orr) x | None => false end) st.

Fixpoint build_regs_checked (cfg : config) (qs : list (sreq * Z)) (regs : list strat) : option (list strat) :=
  match qs with
  | [] => Some regs
  | (q, code) :: r =>
      match add_stratification cfg regs q with
      | Ok regs' => if code =? 0 then build_regs_checked cfg r regs' else None
      | _ => if code =? 1 then build_regs_checked cfg r regs else None
      end
  end.

Fixpoint build_obs_checked (rs : list oreq) (os : list obs) : option (list obs) :=
  match rs with
  | [] => Some os
  | (name, phase, flt, kind, (d, a, e), iter, code, tuple) :: r =>
      let strats := if (match kind with OConcat _ => true | _ => false end) then [] else resolve iter in
      let o := {| o_name := name; o_phase := phase; o_filter := flt; o_strats := strats; o_kind := kind |} in
      if (match kind with OConcat _ => true | _ => false end) || (is_perm iter (spec_set d [] a e) && zlist_eqb strats tuple)
      then match add_observation os o with
           | Ok os' => if code =? 0 then build_obs_checked r os' else None
           | _ => if code =? 1 then build_obs_checked r os else None
           end
      else None
  end.

(* number of events accepted before the run stopped *)
Fixpoint run_count (regs : list strat) (st : state) (evs : list event) (n : Z) : state * outcome * Z :=
  match evs with
  | [] => (st, Accepted, n)
  | ev :: r => match step regs st ev with
               | (st', Accepted) => run_count regs st' r (n + 1)
               | (st', Refused e) => (st', Refused e, n)
               end
  end.

Definition wf_row (nf nw np : nat) (regs : list strat) (r : row) : bool :=
  Nat.eqb (length (r_pass r)) nf && Nat.eqb (length (r_w r)) nw && Nat.eqb (length (r_pay r)) np &&
  forallb (fun s => is_some (zassoc (s_name s) (r_raw r))) regs.

(* case = (cfg, stratification requests+codes, observation requests, (#filters, #weight cols, #payload cols),
           post_setup code, results right after post_setup, events, (final code, #events accepted), final results) *)
Definition sim_case := (config * list (sreq * Z) * list oreq * (nat * nat * nat) * Z * list (Z * ores) *
                        list event * (Z * Z) * list (Z * ores))%type.

Definition check_sim (c : sim_case) : bool :=
  let '(cfg, qs, ors, (nf, nw, np), post_code, initial, evs, (fcode, naccepted), final) := c in
  match build_regs_checked cfg qs [], build_obs_checked ors [] with
  | Some regs, Some os =>
      forallb (fun ev => forallb (wf_row nf nw np regs) (e_rows ev)) evs &&
      match init regs os with
      | Ok st0 =>
          (post_code =? 0) && state_eqb st0 initial &&
          let '(st, out, n) := run_count regs st0 evs 0 in
          (code_of out =? fcode) && (n =? naccepted) && state_eqb st final &&
          (* a refused event is the last one the implementation saw *)
          ((fcode =? 0) || (Z.of_nat (length evs) =? n + 1))
      | _ => (post_code =? 1)
      end
  | _, _ => false
  end.
