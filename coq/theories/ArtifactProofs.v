(* Lemmas about the artifact model (Artifact.v): the invariant and its preservation by every operation, rejected
   operations change nothing, refinement to a finite map, cache clearing / re-opening are neutral, filter terms only
   restrict.                                                                                                      *)
From Viv Require Import Common Artifact.
Local Open Scope Z_scope.

(* ---------------------------------------------------------------------------------------------------------- *)
(* keys, association lists                                                                                     *)
Lemma key_eqb_eq a b : key_eqb a b = true <-> a = b.
Proof. apply zlist_eqb_eq. Qed.
Lemma key_eqb_refl a : key_eqb a a = true.
Proof. now apply key_eqb_eq. Qed.
Lemma key_eqb_neq a b : key_eqb a b = false <-> a <> b.
Proof.
  split.
  - intros H E. apply key_eqb_eq in E. congruence.
  - intros H. destruct (key_eqb a b) eqn:E; [apply key_eqb_eq in E; contradiction | reflexivity].
Qed.
Lemma key_eqb_sym a b : key_eqb a b = key_eqb b a.
Proof.
  destruct (key_eqb a b) eqn:E.
  - apply key_eqb_eq in E. subst. now rewrite key_eqb_refl.
  - apply key_eqb_neq in E. symmetry. apply key_eqb_neq. congruence.
Qed.
Lemma key_dec (a b : key) : {a = b} + {a <> b}.
Proof. destruct (key_eqb a b) eqn:E; [left; now apply key_eqb_eq | right; now apply key_eqb_neq]. Qed.

Lemma memk_In k l : memk k l = true <-> In k l.
Proof.
  unfold memk. rewrite existsb_exists. split.
  - intros [x [Hx E]]. apply key_eqb_eq in E. now subst.
  - intros H. exists k. split; [assumption | apply key_eqb_refl].
Qed.
Lemma memk_false k l : memk k l = false <-> ~ In k l.
Proof.
  split.
  - intros H Hin. apply memk_In in Hin. congruence.
  - intros H. destruct (memk k l) eqn:E; [apply memk_In in E; contradiction | reflexivity].
Qed.

Lemma find_app {A} k (m1 m2 : list (key * A)) :
  find k (m1 ++ m2) = match find k m1 with Some v => Some v | None => find k m2 end.
Proof. induction m1 as [|[a v] r IH]; simpl; [reflexivity|]. destruct (key_eqb a k); auto. Qed.

Lemma find_None {A} k (m : list (key * A)) : find k m = None <-> ~ In k (map fst m).
Proof.
  induction m as [|[a v] r IH]; simpl; [tauto|].
  destruct (key_eqb a k) eqn:E.
  - apply key_eqb_eq in E. subst. split; [discriminate | intros H; exfalso; apply H; now left].
  - apply key_eqb_neq in E. rewrite IH. tauto.
Qed.

Lemma find_In {A} k (v : A) m : find k m = Some v -> In (k, v) m.
Proof.
  induction m as [|[a w] r IH]; simpl; [discriminate|].
  destruct (key_eqb a k) eqn:E; intros H.
  - apply key_eqb_eq in E. inversion H; subst. now left.
  - right. auto.
Qed.

Lemma find_del_same {A} k (m : list (key * A)) : find k (del k m) = None.
Proof.
  induction m as [|[a v] r IH]; simpl; [reflexivity|].
  destruct (key_eqb a k) eqn:E; simpl; [assumption | now rewrite E].
Qed.
Lemma find_del_other {A} k k' (m : list (key * A)) : k' <> k -> find k' (del k m) = find k' m.
Proof.
  intros Hne. induction m as [|[a v] r IH]; simpl; [reflexivity|].
  destruct (key_eqb a k) eqn:E; simpl.
  - apply key_eqb_eq in E. subst a. destruct (key_eqb k k') eqn:E2; [apply key_eqb_eq in E2; congruence | assumption].
  - destruct (key_eqb a k'); auto.
Qed.

Lemma nodup_map_filter {A} (p : key * A -> bool) (m : list (key * A)) :
  NoDup (map fst m) -> NoDup (map fst (filter p m)).
Proof.
  induction m as [|[a v] r IH]; simpl; intros H; [constructor|].
  inversion H as [|? ? Hn Hr]; subst. destruct (p (a, v)); simpl; [|auto].
  constructor; [|auto]. intros Hin. apply Hn. apply in_map_iff in Hin. destruct Hin as [[a' v'] [E Hin]].
  simpl in E. subst a'. apply filter_In in Hin. apply in_map_iff. exists (a, v'). tauto.
Qed.

Lemma nodup_snoc {A} (l : list A) x : NoDup l -> ~ In x l -> NoDup (l ++ [x]).
Proof.
  induction l as [|y r IH]; simpl; intros Hn Hx; [constructor; [tauto | constructor]|].
  inversion Hn as [|? ? Hy Hr]; subst. constructor.
  - intros Hin. apply in_app_or in Hin. destruct Hin as [Hin|[E|[]]]; [contradiction|]. subst. apply Hx. now left.
  - apply IH; [assumption | tauto].
Qed.

(* list.remove on a duplicate-free list *)
Lemma remove_first_In k l x : NoDup l -> (In x (remove_first k l) <-> In x l /\ x <> k).
Proof.
  induction l as [|y r IH]; simpl; intros Hn; [tauto|].
  inversion Hn as [|? ? Hy Hr]; subst. destruct (key_eqb y k) eqn:E.
  - apply key_eqb_eq in E. subst y. split.
    + intros H. split; [now right|]. intros ->. contradiction.
    + intros [[H|H] Hne]; [congruence | assumption].
  - apply key_eqb_neq in E. simpl. rewrite (IH Hr). split.
    + intros [H|[H1 H2]]; [subst; split; [now left | congruence] | split; [now right | assumption]].
    + intros [[H|H] Hne]; [now left | right; split; assumption].
Qed.
Lemma remove_first_subset k l x : In x (remove_first k l) -> In x l.
Proof.
  induction l as [|y r IH]; simpl; [tauto|]. destruct (key_eqb y k); simpl; [now right|].
  intros [H|H]; [now left | right; auto].
Qed.
Lemma remove_first_NoDup k l : NoDup l -> NoDup (remove_first k l).
Proof.
  induction l as [|y r IH]; simpl; intros Hn; [constructor|].
  inversion Hn as [|? ? Hy Hr]; subst. destruct (key_eqb y k); [assumption|].
  constructor; [|auto]. intros H. apply Hy. eapply remove_first_subset; eauto.
Qed.

(* ---------------------------------------------------------------------------------------------------------- *)
(* more list facts                                                                                             *)
Lemma in_find {A} k (v : A) m : In (k, v) m -> find k m <> None.
Proof.
  intros H E. apply find_None in E. apply E. apply in_map_iff. exists (k, v). auto.
Qed.
Lemma find_some_keys {A} k (m : list (key * A)) : find k m <> None <-> In k (map fst m).
Proof.
  split.
  - intros H. destruct (in_dec key_dec k (map fst m)) as [Hi|Hi]; [assumption|]. apply find_None in Hi. contradiction.
  - intros H E. apply find_None in E. contradiction.
Qed.
Lemma find_snoc_fresh {A} k (n : A) f k' : find k f = None ->
  find k' (f ++ [(k, n)]) = if key_eqb k k' then Some n else find k' f.
Proof.
  intros H. rewrite find_app. simpl. destruct (key_eqb k k') eqn:E.
  - apply key_eqb_eq in E. subst k'. now rewrite H.
  - destruct (find k' f); reflexivity.
Qed.
Lemma find_del_sub {A} k k' (v : A) m : find k' (del k m) = Some v -> find k' m = Some v.
Proof.
  destruct (key_dec k' k) as [E|E]; [subst; rewrite find_del_same; discriminate | now rewrite find_del_other].
Qed.
Lemma find_filter_key {A} (p : key -> bool) k (m : list (key * A)) :
  find k (filter (fun e => p (fst e)) m) = if p k then find k m else None.
Proof.
  induction m as [|[a v] r IH]; simpl; [now destruct (p k)|].
  destruct (p a) eqn:Ea; simpl; destruct (key_eqb a k) eqn:E.
  - apply key_eqb_eq in E. subst a. now rewrite Ea.
  - exact IH.
  - apply key_eqb_eq in E. subst a. rewrite Ea in *. exact IH.
  - exact IH.
Qed.
Lemma del_absent {A} k (m : list (key * A)) : find k m = None -> del k m = m.
Proof.
  induction m as [|[a v] r IH]; simpl; [reflexivity|].
  destruct (key_eqb a k) eqn:E; [discriminate|]. simpl. intros H. now rewrite IH.
Qed.
Lemma existsb_set {A} (p : A -> bool) l1 l2 : (forall x, In x l1 <-> In x l2) -> existsb p l1 = existsb p l2.
Proof.
  intros H. destruct (existsb p l1) eqn:E1; destruct (existsb p l2) eqn:E2; try reflexivity.
  - apply existsb_exists in E1. destruct E1 as [x [Hx Hp]]. apply H in Hx.
    assert (existsb p l2 = true) by (apply existsb_exists; eauto). congruence.
  - apply existsb_exists in E2. destruct E2 as [x [Hx Hp]]. apply H in Hx.
    assert (existsb p l1 = true) by (apply existsb_exists; eauto). congruence.
Qed.
Lemma existsb_false {A} (p : A -> bool) l : existsb p l = false <-> forall x, In x l -> p x = false.
Proof.
  split.
  - intros H x Hx. destruct (p x) eqn:E; [|reflexivity].
    assert (existsb p l = true) by (apply existsb_exists; eauto). congruence.
  - intros H. destruct (existsb p l) eqn:E; [|reflexivity]. apply existsb_exists in E. destruct E as [x [Hx Hp]].
    rewrite (H x Hx) in Hp. discriminate.
Qed.

(* list.index / list.insert undo list.remove *)
Lemma insert_remove k l : In k l -> insert_at (index_of k l) k (remove_first k l) = l.
Proof.
  unfold insert_at. induction l as [|x r IH]; simpl; [tauto|]. intros H.
  destruct (key_eqb x k) eqn:E.
  - apply key_eqb_eq in E. subst x. reflexivity.
  - simpl. f_equal. apply IH. destruct H as [H|H]; [subst; rewrite key_eqb_refl in E; discriminate | assumption].
Qed.

(* ---------------------------------------------------------------------------------------------------------- *)
(* key overlap and the HDF tree                                                                                *)
Lemma strict_prefix_irrefl k : strict_prefix k k = false.
Proof. induction k as [|x r IH]; simpl; [reflexivity|]. now rewrite Z.eqb_refl. Qed.
Lemma overlaps_sym a b : overlaps a b = overlaps b a.
Proof. unfold overlaps. apply orb_comm. Qed.
Lemma child_prefix k k' : child_of k k' = true -> strict_prefix k k' = true.
Proof.
  unfold child_of. destruct k' as [|a [|b [|c [|? ?]]]]; try discriminate. intros H. apply key_eqb_eq in H. subst k.
  simpl. now rewrite !Z.eqb_refl.
Qed.
Lemma parent_json_prefix f k : parent_json f k = true ->
  exists p, strict_prefix p k = true /\ (p = ks_key \/ find p f <> None).
Proof.
  unfold parent_json. destruct k as [|a [|b [|c [|? ?]]]]; try discriminate. intros H. exists [a; b]. split.
  - simpl. now rewrite !Z.eqb_refl.
  - apply orb_true_iff in H. destruct H as [H|H]; [left; now apply key_eqb_eq|]. right.
    destruct (find [a; b] f); [discriminate | discriminate].
Qed.

Lemma has_child_false f k : has_child f k = false <-> forall e, In e f -> child_of k (fst e) = false.
Proof. unfold has_child. apply existsb_false. Qed.

Lemma hdf_remove_del f k : has_child f k = false -> hdf_remove f k = del k f.
Proof.
  intros H. unfold hdf_remove, del. apply filter_ext_in. intros e He.
  unfold under. rewrite (proj1 (has_child_false f k) H e He), orb_false_r. now rewrite key_eqb_sym.
Qed.

Lemma occupied_false_intro f k : find k f = None -> has_child f k = false -> occupied f k = false.
Proof.
  intros Hf Hc. apply existsb_false. intros [k' n] He. unfold under.
  pose proof (proj1 (has_child_false f k) Hc _ He) as Hx. simpl in *. rewrite Hx, orb_false_r.
  apply key_eqb_neq. intros ->. apply (in_find _ _ _ He). assumption.
Qed.
Lemma occupied_find f k : find k f <> None -> occupied f k = true.
Proof.
  intros H. destruct (find k f) as [n|] eqn:E; [|congruence]. apply find_In in E.
  unfold occupied. apply existsb_exists. exists (k, n). split; [assumption|].
  unfold under. simpl. now rewrite key_eqb_refl.
Qed.

(* ---------------------------------------------------------------------------------------------------------- *)
(* files up to the order of their nodes                                                                        *)
Definition feq (f1 f2 : file) : Prop := forall k, find k f1 = find k f2.

Lemma feq_refl f : feq f f.
Proof. intros k. reflexivity. Qed.
Lemma feq_keys f1 f2 : feq f1 f2 -> forall k, In k (map fst f1) <-> In k (map fst f2).
Proof. intros H k. rewrite <- !find_some_keys, (H k). tauto. Qed.
Lemma existsb_key_feq (p : key -> bool) f1 f2 : feq f1 f2 ->
  existsb (fun e : key * node => p (fst e)) f1 = existsb (fun e => p (fst e)) f2.
Proof.
  intros H.
  assert (E : forall f : file, existsb (fun e => p (fst e)) f = existsb p (map fst f)).
  { induction f as [|e r IH]; simpl; [reflexivity | now rewrite IH]. }
  rewrite !E. apply existsb_set. apply (feq_keys _ _ H).
Qed.
Lemma feq_has_child f1 f2 k : feq f1 f2 -> has_child f1 k = has_child f2 k.
Proof. intros H. apply (existsb_key_feq (child_of k) _ _ H). Qed.
Lemma feq_occupied f1 f2 k : feq f1 f2 -> occupied f1 k = occupied f2 k.
Proof. intros H. apply (existsb_key_feq (under k) _ _ H). Qed.
Lemma feq_parent_json f1 f2 k : feq f1 f2 -> parent_json f1 k = parent_json f2 k.
Proof. intros H. unfold parent_json. destruct k as [|a [|b [|c [|? ?]]]]; try reflexivity. now rewrite (H [a; b]). Qed.
Lemma feq_hdf_remove f1 f2 k : feq f1 f2 -> feq (hdf_remove f1 k) (hdf_remove f2 k).
Proof.
  intros H k'. unfold hdf_remove.
  rewrite (find_filter_key (fun x => negb (under k x)) k' f1), (find_filter_key (fun x => negb (under k x)) k' f2).
  now rewrite (H k').
Qed.
Lemma feq_app f1 f2 g : feq f1 f2 -> feq (f1 ++ g) (f2 ++ g).
Proof. intros H k. now rewrite !find_app, (H k). Qed.

Lemma hdf_write_feq f1 f2 k d : feq f1 f2 ->
  snd (hdf_write f1 k d) = snd (hdf_write f2 k d) /\ feq (fst (hdf_write f1 k d)) (fst (hdf_write f2 k d)).
Proof.
  intros H. unfold hdf_write. destruct (valid_key k); simpl; [|auto].
  destruct d as [| | |i|i]; simpl; auto; rewrite (feq_parent_json _ _ k H).
  - destruct (parent_json f2 k); simpl; [auto|]. split; [reflexivity | now apply feq_hdf_remove].
  - destruct (parent_json f2 k); simpl; [auto|]. split; [reflexivity | apply feq_app; now apply feq_hdf_remove].
  - rewrite (feq_occupied _ _ k H). destruct (parent_json f2 k || occupied f2 k); simpl; [auto|].
    split; [reflexivity | now apply feq_app].
Qed.

(* ---------------------------------------------------------------------------------------------------------- *)
(* THE INVARIANT                                                                                               *)
Section Proofs.
Variable rt : bool -> Z -> Z.
Variable view : Z -> Z -> Z.
(* the keys of which the caller may have changed a LOADED object in place (open finding F-AL): for them the cache entry
   need not be what the file holds.  [fun _ => False]: no such change; [fun _ => True]: anything goes. *)
Variable T : key -> Prop.
Notation back := (back rt).
Notation seen := (seen rt view).
Notation step := (step rt view).
Notation run := (run rt view).
Notation abs := (abs rt).
Notation load := (load rt view).

Record Inv (s : store) : Prop := {
  inv_ks : keys s = keyspace s;                                    (* the open object agrees with the persisted node *)
  inv_nodup : NoDup (keys s);
  inv_res : In ks_key (keys s);
  inv_valid : forall k, In k (keys s) -> valid_key k = true;
  inv_dom : forall k, In k (keys s) <-> k = ks_key \/ find k (file_of s) <> None;    (* keys = reserved + file nodes *)
  inv_ksf : find ks_key (file_of s) = None;
  inv_fnodup : NoDup (map fst (file_of s));
  inv_noov : forall k k', In k (keys s) -> In k' (keys s) -> strict_prefix k k' = false;   (* no key extends another *)
  inv_cache : forall k i, find k (cache s) = Some i -> exists n, find k (file_of s) = Some n /\ (seen (filt s) n = i \/ T k);
  inv_filt : 0 <= filt s                                           (* the handle's filter is one the constructor accepted *)
}.

Lemma inv_init : Inv init.
Proof.
  constructor; simpl; try tauto; try discriminate.
  - constructor; [tauto | constructor].
  - intros k [H|[]]. now subst.
  - intros k. split; [intros [H|[]]; now left | intros [H|H]; [now left | congruence]].
  - constructor.
  - intros k k' [H|[]] [H'|[]]. subst. reflexivity.
Qed.

Lemma store_eta s : {| file_of := file_of s; keyspace := keyspace s; keys := keys s; cache := cache s; filt := filt s |} = s.
Proof. now destruct s. Qed.

(* a key that overlaps no key of the artifact has a free, independent place in the HDF tree *)
Lemma no_overlap_clean s k : Inv s -> existsb (overlaps k) (keys s) = false ->
  parent_json (file_of s) k = false /\ has_child (file_of s) k = false.
Proof.
  intros I H. pose proof (proj1 (existsb_false _ _) H) as Ho. split.
  - destruct (parent_json (file_of s) k) eqn:E; [|reflexivity]. exfalso.
    apply parent_json_prefix in E. destruct E as [p [Hp Hin]].
    assert (Hk : In p (keys s)) by (apply (inv_dom _ I); tauto).
    specialize (Ho p Hk). unfold overlaps in Ho. rewrite Hp, orb_true_r in Ho. discriminate.
  - apply has_child_false. intros [k' n] He. simpl. destruct (child_of k k') eqn:E; [|reflexivity]. exfalso.
    assert (Hk : In k' (keys s)) by (apply (inv_dom _ I); right; eapply in_find; eauto).
    specialize (Ho k' Hk). unfold overlaps in Ho. rewrite (child_prefix _ _ E) in Ho. discriminate.
Qed.
Lemma own_key_no_overlap s k : Inv s -> In k (keys s) -> existsb (overlaps k) (keys s) = false.
Proof.
  intros I Hk. apply existsb_false. intros k' Hk'. unfold overlaps.
  now rewrite (inv_noov _ I k k' Hk Hk'), (inv_noov _ I k' k Hk' Hk).
Qed.
Lemma own_key_clean s k : Inv s -> In k (keys s) ->
  parent_json (file_of s) k = false /\ has_child (file_of s) k = false.
Proof. intros I Hk. apply no_overlap_clean; [assumption | now apply own_key_no_overlap]. Qed.

(* ---- write ---- *)
Definition added (s : store) (k : key) (n : node) : store :=
  {| file_of := file_of s ++ [(k, n)]; keyspace := keys s ++ [k]; keys := keys s ++ [k]; cache := cache s; filt := filt s |}.

Lemma inv_add s k n : Inv s -> ~ In k (keys s) -> valid_key k = true -> existsb (overlaps k) (keys s) = false ->
  Inv (added s k n).
Proof.
  intros I Hk Hv Ho. pose proof (proj1 (existsb_false _ _) Ho) as Ho'.
  assert (Hks : k <> ks_key) by (intros ->; apply Hk, (inv_res _ I)).
  assert (Hf : find k (file_of s) = None).
  { destruct (find k (file_of s)) eqn:E; [|reflexivity]. exfalso. apply Hk. apply (inv_dom _ I). right. congruence. }
  constructor; simpl.
  - reflexivity.
  - apply nodup_snoc; [apply (inv_nodup _ I) | assumption].
  - apply in_or_app. left. apply (inv_res _ I).
  - intros k' H. apply in_app_or in H. destruct H as [H|[H|[]]]; [apply (inv_valid _ I _ H) | now subst].
  - intros k'. rewrite (find_snoc_fresh _ _ _ _ Hf), in_app_iff, (inv_dom _ I k'). simpl.
    destruct (key_eqb k k') eqn:E.
    + apply key_eqb_eq in E. subst k'. split; [intros _; right; discriminate | intros _; right; now left].
    + apply key_eqb_neq in E. split; [intros [H|[H|[]]]; [assumption | contradiction] | intros H; now left].
  - rewrite (find_snoc_fresh _ _ _ _ Hf), (proj2 (key_eqb_neq _ _) Hks). apply (inv_ksf _ I).
  - rewrite map_app. simpl. apply nodup_snoc; [apply (inv_fnodup _ I)|]. now apply find_None.
  - intros a b Ha Hb. apply in_app_or in Ha. apply in_app_or in Hb.
    destruct Ha as [Ha|[Ha|[]]]; destruct Hb as [Hb|[Hb|[]]]; subst.
    + apply (inv_noov _ I _ _ Ha Hb).
    + specialize (Ho' a Ha). unfold overlaps in Ho'. apply orb_false_iff in Ho'. tauto.
    + specialize (Ho' b Hb). unfold overlaps in Ho'. apply orb_false_iff in Ho'. tauto.
    + apply strict_prefix_irrefl.
  - intros k' i H. destruct (inv_cache _ I k' i H) as [m [Hm Hb]]. exists m. rewrite find_app, Hm. auto.
  - apply (inv_filt _ I).
Qed.

(* the two outcomes of Artifact.write: rejected and nothing changed, or the node and the key are added *)
Lemma write_cases s k d : Inv s ->
  (fst (write s k d) = s /\ is_rej (snd (write s k d)) = true /\
   ~ (exists n, node_of d = Some n /\ ~ In k (keys s) /\ valid_key k = true /\ existsb (overlaps k) (keys s) = false)) \/
  (exists n, node_of d = Some n /\ ~ In k (keys s) /\ valid_key k = true /\ existsb (overlaps k) (keys s) = false /\
             write s k d = (added s k n, Done)).
Proof.
  intros I. unfold write. destruct (memk k (keys s)) eqn:Em.
  { left. apply memk_In in Em. repeat split; auto. intros [n [_ [H _]]]. contradiction. }
  apply memk_false in Em.
  assert (Hf : find k (file_of s) = None).
  { destruct (find k (file_of s)) eqn:E; [|reflexivity]. exfalso. apply Em. apply (inv_dom _ I). right. congruence. }
  destruct d as [| | |i|i];
    try (left; repeat split; auto; intros [n [Hn _]]; discriminate).
  all: destruct (existsb (overlaps k) (keys s)) eqn:Eo;
    [left; repeat split; auto; intros [n [_ [_ [_ H]]]]; discriminate|].
  all: destruct (no_overlap_clean s k I Eo) as [Hp Hc].
  all: unfold hdf_write; destruct (valid_key k) eqn:Ev; simpl;
    [|left; unfold set_file; rewrite store_eta; repeat split; auto; intros [n [_ [_ [H _]]]]; discriminate].
  - (* unwritable *) left. unfold set_file. rewrite store_eta. repeat split; auto. intros [n [Hn _]]. discriminate.
  - (* put-failing frame: the group is gone again *)
    rewrite Hp. simpl. rewrite (hdf_remove_del _ _ Hc), (del_absent _ _ Hf). left. unfold set_file. rewrite store_eta.
    repeat split; auto. intros [n [Hn _]]. discriminate.
  - rewrite Hp. simpl. rewrite (hdf_remove_del _ _ Hc), (del_absent _ _ Hf). right. exists (NTable i). repeat split; auto.
  - rewrite Hp, (occupied_false_intro _ _ Hf Hc). simpl. right. exists (NJson i). repeat split; auto.
Qed.

Lemma write_inv s k d : Inv s -> Inv (fst (write s k d)).
Proof.
  intros I. destruct (write_cases s k d I) as [[H _]|[n [_ [Hk [Hv [Ho H]]]]]]; rewrite H; [assumption|].
  now apply inv_add.
Qed.

(* ---- remove ---- *)
Definition removed (s : store) (k : key) : store :=
  {| file_of := del k (file_of s); keyspace := remove_first k (keys s); keys := remove_first k (keys s);
     cache := del k (cache s); filt := filt s |}.

Lemma inv_remove s k : Inv s -> In k (keys s) -> k <> ks_key -> Inv (removed s k).
Proof.
  intros I Hk Hks. pose proof (inv_nodup _ I) as Hnd. constructor; simpl.
  - reflexivity.
  - now apply remove_first_NoDup.
  - apply remove_first_In; [assumption|]. split; [apply (inv_res _ I) | congruence].
  - intros k' H. apply (inv_valid _ I). eapply remove_first_subset; eauto.
  - intros k'. rewrite (remove_first_In _ _ _ Hnd), (inv_dom _ I k'). destruct (key_dec k' k) as [E|E].
    + subst k'. rewrite find_del_same. split; [tauto | intros [H|H]; congruence].
    + rewrite (find_del_other _ _ _ E). tauto.
  - rewrite find_del_other; [apply (inv_ksf _ I) | congruence].
  - apply nodup_map_filter. apply (inv_fnodup _ I).
  - intros a b Ha Hb. apply (inv_noov _ I); eapply remove_first_subset; eauto.
  - intros k' i H. destruct (key_dec k' k) as [E|E]; [subst; rewrite find_del_same in H; discriminate|].
    rewrite (find_del_other _ _ _ E) in H. destruct (inv_cache _ I k' i H) as [m [Hm Hb]].
    exists m. rewrite (find_del_other _ _ _ E). auto.
  - apply (inv_filt _ I).
Qed.

Lemma remove_done s k : Inv s -> In k (keys s) -> k <> ks_key -> remove s k = (removed s k, Done).
Proof.
  intros I Hk Hks. unfold remove. rewrite (proj2 (memk_In _ _) Hk). simpl.
  rewrite (proj2 (key_eqb_neq _ _) Hks), (inv_valid _ I _ Hk). simpl.
  rewrite occupied_find; [|destruct (proj1 (inv_dom _ I k) Hk); [contradiction | assumption]].
  destruct (own_key_clean s k I Hk) as [_ Hc]. now rewrite (hdf_remove_del _ _ Hc).
Qed.

Lemma remove_cases s k : Inv s ->
  (remove s k = (s, Rej EArtifact) /\ (~ In k (keys s) \/ k = ks_key)) \/
  (In k (keys s) /\ k <> ks_key /\ remove s k = (removed s k, Done)).
Proof.
  intros I. destruct (memk k (keys s)) eqn:Em.
  - apply memk_In in Em. destruct (key_dec k ks_key) as [E|E].
    + left. subst k. unfold remove. rewrite (proj2 (memk_In _ _) Em). auto.
    + right. repeat split; auto. now apply remove_done.
  - left. unfold remove. rewrite Em. split; [reflexivity | left; now apply memk_false].
Qed.

Lemma remove_inv s k : Inv s -> Inv (fst (remove s k)).
Proof.
  intros I. destruct (remove_cases s k I) as [[H _]|[Hk [Hks H]]]; rewrite H; [assumption | now apply inv_remove].
Qed.

(* ---- replace ---- *)
Definition replaced (s : store) (k : key) (n : node) : store := added (removed s k) k n.
(* the state after a replace whose write raised: the old node is back, the key list is as it was, the key's cache
   entry is gone *)
Definition restored (s : store) (k : key) (n : node) : store :=
  {| file_of := del k (file_of s) ++ [(k, n)]; keyspace := keys s; keys := keys s; cache := del k (cache s); filt := filt s |}.

Lemma removed_facts s k : Inv s -> In k (keys s) -> k <> ks_key ->
  ~ In k (keys (removed s k)) /\ valid_key k = true /\ existsb (overlaps k) (keys (removed s k)) = false.
Proof.
  intros I Hk Hks. split; [|split].
  - simpl. intros H. apply (remove_first_In _ _ _ (inv_nodup _ I)) in H. tauto.
  - apply (inv_valid _ I _ Hk).
  - apply existsb_false. intros k' Hk'. simpl in Hk'. apply remove_first_subset in Hk'.
    apply (proj1 (existsb_false _ _) (own_key_no_overlap s k I Hk) k' Hk').
Qed.

Lemma inv_restore s k n : Inv s -> In k (keys s) -> k <> ks_key -> find k (file_of s) = Some n -> Inv (restored s k n).
Proof.
  intros I Hk Hks Hf.
  assert (Hfind : forall k', find k' (del k (file_of s) ++ [(k, n)]) = find k' (file_of s)).
  { intros k'. rewrite (find_snoc_fresh _ _ _ _ (find_del_same k (file_of s))). destruct (key_eqb k k') eqn:E.
    - apply key_eqb_eq in E. now subst.
    - apply key_eqb_neq in E. apply find_del_other. congruence. }
  constructor; simpl.
  - reflexivity.
  - apply (inv_nodup _ I).
  - apply (inv_res _ I).
  - apply (inv_valid _ I).
  - intros k'. rewrite Hfind. apply (inv_dom _ I).
  - rewrite Hfind. apply (inv_ksf _ I).
  - rewrite map_app. simpl. apply nodup_snoc; [apply nodup_map_filter, (inv_fnodup _ I)|].
    apply find_None. apply find_del_same.
  - apply (inv_noov _ I).
  - intros k' i H. apply find_del_sub in H. destruct (inv_cache _ I k' i H) as [m [Hm Hb]]. exists m. now rewrite Hfind.
  - apply (inv_filt _ I).
Qed.

Lemma replace_cases s k d : Inv s ->
  (fst (replace s k d) = s /\ is_rej (snd (replace s k d)) = true /\
   (~ In k (keys s) \/ k = ks_key \/ d = DNone \/ d = DUnwritable)) \/
  (exists n0, In k (keys s) /\ k <> ks_key /\ find k (file_of s) = Some n0 /\ d = DBadFrame /\
              replace s k d = (restored s k n0, Rej EOther)) \/
  (exists n, In k (keys s) /\ k <> ks_key /\ node_of d = Some n /\ replace s k d = (replaced s k n, Done)).
Proof.
  intros I. unfold replace. destruct (memk k (keys s)) eqn:Em; simpl.
  2:{ left. repeat split; auto. left. now apply memk_false. }
  apply memk_In in Em.
  destruct d as [| | |i|i]; try (left; repeat split; auto; tauto).
  all: destruct (key_dec k ks_key) as [Ek|Ek].
  all: try (subst k; rewrite key_eqb_refl; unfold remove; rewrite (proj2 (memk_In _ _) Em); simpl; left; repeat split; auto; tauto).
  all: rewrite (proj2 (key_eqb_neq _ _) Ek).
  all: destruct (find k (file_of s)) as [n0|] eqn:Ef;
    [|exfalso; destruct (proj1 (inv_dom _ I k) Em); [contradiction | congruence]].
  all: simpl; rewrite (remove_done s k I Em Ek).
  all: pose proof (inv_remove s k I Em Ek) as I1; destruct (removed_facts s k I Em Ek) as [H1 [H2 H3]].
  - (* put-failing frame: write raises, the handler restores *)
    right. left. exists n0. repeat split; auto.
    assert (Hf1 : find k (del k (file_of s)) = None) by apply find_del_same.
    destruct (no_overlap_clean _ k I1 H3) as [Hp Hc]. simpl in Hp, Hc, H1, H3.
    assert (Hrm : hdf_remove (del k (file_of s)) k = del k (file_of s)).
    { now rewrite (hdf_remove_del _ _ Hc), (del_absent _ _ Hf1). }
    assert (Hw : write (removed s k) k DBadFrame = (removed s k, Rej EOther)).
    { unfold write. simpl. rewrite (proj2 (memk_false _ _) H1), H3. unfold hdf_write. rewrite H2, Hp. simpl.
      now rewrite Hrm. }
    rewrite Hw.
    assert (Hw2 : hdf_write (del k (file_of s)) k (data_of n0) = (del k (file_of s) ++ [(k, n0)], None)).
    { unfold hdf_write. rewrite H2. destruct n0; simpl; rewrite Hp; simpl.
      - now rewrite Hrm.
      - now rewrite (occupied_false_intro _ _ Hf1 Hc). }
    simpl. rewrite Hw2. unfold restored. now rewrite (insert_remove _ _ Em).
  - right. right. exists (NTable i). repeat split; auto.
    destruct (write_cases (removed s k) k (DFrame i) I1) as [[_ [_ Hn]]|[n [Hn [_ [_ [_ Hw]]]]]].
    + exfalso. apply Hn. exists (NTable i). auto.
    + inversion Hn; subst n. now rewrite Hw.
  - right. right. exists (NJson i). repeat split; auto.
    destruct (write_cases (removed s k) k (DJson i) I1) as [[_ [_ Hn]]|[n [Hn [_ [_ [_ Hw]]]]]].
    + exfalso. apply Hn. exists (NJson i). auto.
    + inversion Hn; subst n. now rewrite Hw.
Qed.

Lemma replace_inv s k d : Inv s -> Inv (fst (replace s k d)).
Proof.
  intros I. destruct (replace_cases s k d I) as [[H _]|[[n0 [Hk [Hks [Hf [_ H]]]]]|[n [Hk [Hks [_ H]]]]]]; rewrite H; simpl.
  - assumption.
  - now apply inv_restore.
  - destruct (removed_facts s k I Hk Hks) as [H1 [H2 H3]]. apply inv_add; auto. now apply inv_remove.
Qed.

(* ---- load ---- *)
Lemma load_inv s k : Inv s -> Inv (fst (load s k)).
Proof.
  intros I. unfold load. destruct (memk k (keys s)); simpl; [|assumption].
  destruct (key_eqb k ks_key); [assumption|]. destruct (find k (cache s)); [assumption|].
  destruct (find k (file_of s)) as [n|] eqn:E; [|assumption].
  destruct I; constructor; simpl; try assumption. intros k' j. destruct (key_eqb k k') eqn:E2; auto.
  apply key_eqb_eq in E2. subst k'. intros H. inversion H; subst. eauto.
Qed.

(* the in-place changes of loaded objects in a history concern only keys of [T] *)
Definition mut_ok (o : op) : Prop := forall k j, o = Mutate k j -> T k.
Fixpoint muts_ok (ops : list op) : Prop := match ops with [] => True | o :: r => mut_ok o /\ muts_ok r end.

(* C19_inv, one step: EVERY operation - accepted or rejected - preserves the invariant *)
Theorem step_inv s o : Inv s -> mut_ok o -> Inv (fst (step s o)).
Proof.
  intros I HT. destruct o as [k d|k|k|k d| |f|k j]; simpl.
  - now apply write_inv.
  - now apply load_inv.
  - now apply remove_inv.
  - now apply replace_inv.
  - destruct I; constructor; simpl; try assumption. discriminate.
  - destruct (f <? 0) eqn:Ef; [assumption|]. apply Z.ltb_ge in Ef. simpl.
    rewrite <- (inv_ks _ I). destruct I; constructor; simpl; try assumption; [reflexivity | discriminate].
  - (* the caller changed a loaded object: the cache entry of k is no longer what the file holds *)
    destruct (find k (cache s)) as [i0|] eqn:Ec; [|assumption].
    destruct (inv_cache _ I k i0 Ec) as [n [Hn _]].
    destruct I; constructor; simpl; try assumption.
    intros k' i. destruct (key_eqb k k') eqn:E.
    + apply key_eqb_eq in E. subst k'. intros _. exists n. split; [assumption | right; apply (HT k j eq_refl)].
    + apply key_eqb_neq in E. intros H. apply find_del_sub in H. auto.
Qed.

Theorem run_inv ops : forall s, Inv s -> muts_ok ops -> Inv (run s ops).
Proof.
  induction ops as [|o r IH]; intros s I H; simpl; [assumption|]. destruct H as [H1 H2]. apply IH; [now apply step_inv | assumption].
Qed.

(* ---------------------------------------------------------------------------------------------------------- *)
(* OBSERVATIONAL EQUALITY: same keys, same persisted keys, same content under every key (the cache and the order of the
   file's nodes are not observable) - and it is a bisimulation                                                  *)
Definition sim0 (s1 s2 : store) : Prop :=
  feq (file_of s1) (file_of s2) /\ keyspace s1 = keyspace s2 /\ keys s1 = keys s2.

Lemma sim0_refl s : sim0 s s.
Proof. split; [apply feq_refl | split; reflexivity]. Qed.
Lemma sim0_sym s1 s2 : sim0 s1 s2 -> sim0 s2 s1.
Proof. intros [H1 [H2 H3]]. split; [intros k; symmetry; apply H1 | split; congruence]. Qed.
Lemma sim0_trans s1 s2 s3 : sim0 s1 s2 -> sim0 s2 s3 -> sim0 s1 s3.
Proof. intros [A1 [A2 A3]] [B1 [B2 B3]]. split; [intros k; rewrite (A1 k); apply B1 | split; congruence]. Qed.

Fixpoint outs (s : store) (ops : list op) : list out :=
  match ops with [] => [] | o :: r => snd (step s o) :: outs (fst (step s o)) r end.

Lemma write_sim0 s1 s2 k d : sim0 s1 s2 -> snd (write s1 k d) = snd (write s2 k d) /\ sim0 (fst (write s1 k d)) (fst (write s2 k d)).
Proof.
  intros [Hf [Hs Hk]]. unfold write. rewrite Hk. destruct (memk k (keys s2)); [repeat split; assumption|].
  destruct (hdf_write_feq _ _ k d Hf) as [E1 E2].
  destruct (hdf_write (file_of s1) k d) as [f1 r1]. destruct (hdf_write (file_of s2) k d) as [f2 r2].
  simpl in E1, E2. subst r2.
  destruct d as [| | |i|i]; try (repeat split; assumption).
  all: destruct (existsb (overlaps k) (keys s2)); [repeat split; assumption|].
  all: destruct r1; simpl; repeat split; auto; now rewrite Hk.
Qed.
Lemma remove_sim0 s1 s2 k : sim0 s1 s2 -> snd (remove s1 k) = snd (remove s2 k) /\ sim0 (fst (remove s1 k)) (fst (remove s2 k)).
Proof.
  intros [Hf [Hs Hk]]. unfold remove. rewrite Hk, (feq_occupied _ _ k Hf).
  destruct (memk k (keys s2)); simpl; [|repeat split; assumption].
  destruct (key_eqb k ks_key); [repeat split; assumption|].
  destruct (valid_key k && occupied (file_of s2) k); simpl; repeat split; auto. now apply feq_hdf_remove.
Qed.
Lemma replace_sim0 s1 s2 k d : sim0 s1 s2 -> snd (replace s1 k d) = snd (replace s2 k d) /\ sim0 (fst (replace s1 k d)) (fst (replace s2 k d)).
Proof.
  intros S. pose proof S as [Hf [Hs Hk]]. unfold replace. rewrite Hk, (Hf k).
  destruct (memk k (keys s2)); simpl; [|split; [reflexivity | assumption]].
  destruct (remove_sim0 s1 s2 k S) as [R1 R2]. destruct (remove s1 k) as [a1 o1]. destruct (remove s2 k) as [a2 o2].
  simpl in R1, R2. subst o2.
  destruct (write_sim0 a1 a2 k d R2) as [W1 W2]. destruct (write a1 k d) as [b1 p1]. destruct (write a2 k d) as [b2 p2].
  simpl in W1, W2. subst p2.
  destruct d as [| | |i|i]; try (split; [reflexivity | assumption]).
  all: destruct (if key_eqb k ks_key then Some DUnwritable else option_map data_of (find k (file_of s2))) as [od|];
       [|split; [reflexivity | assumption]].
  all: destruct o1; try (split; [reflexivity | assumption]).
  all: destruct p1; try (split; [reflexivity | assumption]).
  all: destruct W2 as [Wf [Ws Wk]]; destruct (hdf_write_feq _ _ k od Wf) as [E1 E2];
       destruct (hdf_write (file_of b1) k od) as [f1 r1]; destruct (hdf_write (file_of b2) k od) as [f2 r2];
       simpl in E1, E2; subst r2; destruct r1; simpl; repeat split; auto; now rewrite Wk.
Qed.

(* the value a successful load returns is what the file holds, seen through the handle's filter (cache coherence) *)
Lemma load_value s k : Inv s -> ~ T k -> In k (keys s) -> k <> ks_key ->
  exists n, find k (file_of s) = Some n /\ snd (load s k) = Loaded (seen (filt s) n).
Proof.
  intros I HT Hk Hks. destruct (proj1 (inv_dom _ I k) Hk) as [H|H]; [contradiction|].
  destruct (find k (file_of s)) as [n|] eqn:E; [|congruence]. exists n. split; [reflexivity|].
  unfold load. rewrite (proj2 (memk_In _ _) Hk), (proj2 (key_eqb_neq _ _) Hks). simpl.
  destruct (find k (cache s)) as [i|] eqn:Ec.
  - destruct (inv_cache _ I k i Ec) as [m [Hm [Hb|Hb]]]; [|contradiction]. rewrite E in Hm. inversion Hm; subst. reflexivity.
  - now rewrite E.
Qed.
(* whatever the caller did to loaded objects: a key of the artifact can be loaded *)
Lemma load_loaded s k : Inv s -> In k (keys s) -> k <> ks_key -> exists v, snd (load s k) = Loaded v.
Proof.
  intros I Hk Hks. destruct (proj1 (inv_dom _ I k) Hk) as [H|H]; [contradiction|].
  destruct (find k (file_of s)) as [n|] eqn:E; [|congruence].
  unfold load. rewrite (proj2 (memk_In _ _) Hk), (proj2 (key_eqb_neq _ _) Hks). simpl.
  destruct (find k (cache s)) as [i|]; [simpl; eauto|]. rewrite E. simpl. eauto.
Qed.
Lemma load_file s k : file_of (fst (load s k)) = file_of s /\ keys (fst (load s k)) = keys s /\
                      keyspace (fst (load s k)) = keyspace s /\ filt (fst (load s k)) = filt s.
Proof.
  unfold load. destruct (memk k (keys s)); simpl; [|auto]. destruct (key_eqb k ks_key); [auto|].
  destruct (find k (cache s)); [auto|]. destruct (find k (file_of s)); simpl; auto.
Qed.

(* only re-opening changes the handle's filter *)
Lemma write_filt s k d : filt (fst (write s k d)) = filt s.
Proof.
  unfold write. destruct (memk k (keys s)); [reflexivity|]. destruct d; try reflexivity;
    (destruct (existsb (overlaps k) (keys s)); [reflexivity|]); destruct (hdf_write (file_of s) k _) as [f' [e|]]; reflexivity.
Qed.
Lemma remove_filt s k : filt (fst (remove s k)) = filt s.
Proof.
  unfold remove. destruct (memk k (keys s)); [|reflexivity]. simpl. destruct (key_eqb k ks_key); [reflexivity|].
  destruct (valid_key k && occupied (file_of s) k); reflexivity.
Qed.
Lemma replace_filt s k d : filt (fst (replace s k d)) = filt s.
Proof.
  unfold replace. destruct (memk k (keys s)); [|reflexivity]. simpl.
  destruct d; try reflexivity;
    (destruct (if key_eqb k ks_key then Some DUnwritable else option_map data_of (find k (file_of s))) as [od|]; [|reflexivity]);
    pose proof (remove_filt s k) as Hr; destruct (remove s k) as [s1 o1]; simpl in Hr; destruct o1; try exact Hr;
    match goal with |- context [write s1 k ?d] => pose proof (write_filt s1 k d) as Hw; destruct (write s1 k d) as [s2 o2] end;
    simpl in Hw; destruct o2; simpl; try congruence;
    destruct (hdf_write (file_of s2) k od) as [f3 [e3|]]; simpl; congruence.
Qed.
Lemma step_filt s o : filt (fst (step s o)) = match o with Reopen f => if f <? 0 then filt s else f | _ => filt s end.
Proof.
  destruct o as [k d|k|k|k d| |f|k j]; simpl; try reflexivity; try (destruct (f <? 0); reflexivity).
  - apply write_filt.
  - apply (load_file s k).
  - apply remove_filt.
  - apply replace_filt.
  - destruct (find k (cache s)); reflexivity.
Qed.

(* same keys, same persisted keys, same (unfiltered) content under every key, same filter on the handle *)
Definition sim (s1 s2 : store) : Prop := sim0 s1 s2 /\ filt s1 = filt s2.
Lemma sim_refl s : sim s s.
Proof. split; [apply sim0_refl | reflexivity]. Qed.

Definition is_mutate (o : op) : bool := match o with Mutate _ _ => true | _ => false end.

Lemma step_sim s1 s2 o : (forall k, ~ T k) -> Inv s1 -> Inv s2 -> sim s1 s2 ->
  snd (step s1 o) = snd (step s2 o) /\ sim (fst (step s1 o)) (fst (step s2 o)).
Proof.
  intros HT I1 I2 [S Hfl].
  assert (Hfl' : filt (fst (step s1 o)) = filt (fst (step s2 o))) by (rewrite !step_filt; destruct o as [| | | | |f|]; try congruence; destruct (f <? 0); congruence).
  cut (snd (step s1 o) = snd (step s2 o) /\ sim0 (fst (step s1 o)) (fst (step s2 o))).
  { intros [A B]. split; [assumption | split; assumption]. }
  destruct o as [k d|k|k|k d| |f|k j]; simpl.
  - now apply write_sim0.
  - destruct (load_file s1 k) as [A1 [A2 [A3 _]]]. destruct (load_file s2 k) as [B1 [B2 [B3 _]]].
    destruct S as [Hf [Hs Hk]]. split; [|unfold sim0; rewrite A1, A2, A3, B1, B2, B3; auto].
    destruct (memk k (keys s1)) eqn:Em.
    + apply memk_In in Em. destruct (key_dec k ks_key) as [E|E].
      * subst k. unfold load. rewrite <- Hk, (proj2 (memk_In _ _) Em), key_eqb_refl. reflexivity.
      * destruct (load_value s1 k I1 (HT k) Em E) as [n1 [F1 L1]]. rewrite Hk in Em.
        destruct (load_value s2 k I2 (HT k) Em E) as [n2 [F2 L2]]. rewrite L1, L2, Hfl. rewrite (Hf k) in F1. congruence.
    + unfold load. rewrite <- Hk, Em. reflexivity.
  - now apply remove_sim0.
  - now apply replace_sim0.
  - destruct S as [Hf [Hs Hk]]. repeat split; assumption.
  - destruct S as [Hf [Hs Hk]]. destruct (f <? 0); simpl; repeat split; assumption.
  - (* with no tainted key allowed, a Mutate cannot occur in an invariant-preserving history; it keeps sim anyway *)
    destruct S as [Hf [Hs Hk]]. destruct (find k (cache s1)); destruct (find k (cache s2)); simpl; repeat split; assumption.
Qed.

Theorem sim_outs ops : (forall k, ~ T k) -> muts_ok ops -> forall s1 s2, Inv s1 -> Inv s2 -> sim s1 s2 -> outs s1 ops = outs s2 ops.
Proof.
  intros HT. induction ops as [|o r IH]; intros Hm s1 s2 I1 I2 S; simpl; [reflexivity|]. destruct Hm as [Hm1 Hm2].
  destruct (step_sim s1 s2 o HT I1 I2 S) as [E S']. rewrite E. f_equal. apply IH; try assumption; now apply step_inv.
Qed.

(* ---------------------------------------------------------------------------------------------------------- *)
(* REJECTED => UNCHANGED                                                                                       *)
(* Literally unchanged (object, file, persisted keys, cache) - except that a replace whose data turn out unstorable
   only inside HDFStore.put has rewritten the old node and dropped the key's cache entry: then the state is
   observationally equal ([sim]), the key list is the same list, the cache has only shrunk.                     *)
Definition bad_replace (o : op) : bool := match o with Replace _ DBadFrame => true | _ => false end.

Theorem rejected_unchanged s o e : Inv s -> snd (step s o) = Rej e ->
  sim s (fst (step s o)) /\
  (forall k i, find k (cache (fst (step s o))) = Some i -> find k (cache s) = Some i) /\
  (bad_replace o = false -> fst (step s o) = s).
Proof.
  intros I Hr.
  assert (Heq : fst (step s o) = s -> sim s (fst (step s o)) /\
            (forall k i, find k (cache (fst (step s o))) = Some i -> find k (cache s) = Some i) /\
            (bad_replace o = false -> fst (step s o) = s)).
  { intros E. rewrite E. split; [apply sim_refl | auto]. }
  destruct o as [k d|k|k|k d| |f|k j]; simpl in *; try discriminate.
  - destruct (write_cases s k d I) as [[H _]|[n [_ [_ [_ [_ H]]]]]]; [auto | rewrite H in Hr; discriminate].
  - apply Heq. unfold load in *. destruct (memk k (keys s)); simpl in *; [|reflexivity].
    destruct (key_eqb k ks_key); [reflexivity|]. destruct (find k (cache s)); [reflexivity|].
    destruct (find k (file_of s)); [discriminate | reflexivity].
  - destruct (remove_cases s k I) as [[H _]|[_ [_ H]]]; rewrite H in *; [auto | discriminate].
  - destruct (replace_cases s k d I) as [[H _]|[[n0 [Hk [Hks [Hf [Hd H]]]]]|[n [_ [_ [_ H]]]]]].
    + auto.
    + rewrite H. simpl. subst d. split; [|split; [|discriminate]].
      * split; [|reflexivity]. split; [|split; [simpl; symmetry; apply (inv_ks _ I) | reflexivity]]. intros k'. simpl. rewrite (find_snoc_fresh _ _ _ _ (find_del_same k (file_of s))).
        destruct (key_eqb k k') eqn:E; [apply key_eqb_eq in E; subst k'; exact Hf|].
        apply key_eqb_neq in E. symmetry. apply find_del_other. congruence.
      * intros k' i. apply find_del_sub.
    + rewrite H in Hr. discriminate.
  - (* a refused constructor: the old handle stays *)
    apply Heq. destruct (f <? 0); [reflexivity | discriminate].
  - destruct (find k (cache s)); discriminate.
Qed.

(* ... hence no later operation sequence can tell that the rejected operation was ever attempted *)
Theorem rejected_indistinguishable s o e ops : (forall k, ~ T k) -> muts_ok ops -> Inv s -> snd (step s o) = Rej e ->
  outs (fst (step s o)) ops = outs s ops.
Proof.
  intros HT Hm I Hr. symmetry. apply sim_outs; try assumption; [|apply (rejected_unchanged s o e I Hr)].
  apply step_inv; [assumption|]. intros k j ->. simpl in Hr. destruct (find k (cache s)); discriminate.
Qed.

(* the listed reasons are indeed rejected *)
Lemma duplicate_write_rejected s k d : In k (keys s) -> write s k d = (s, Rej EArtifact).
Proof. intros H. unfold write. now rewrite (proj2 (memk_In _ _) H). Qed.
Lemma missing_rejected s k d : ~ In k (keys s) ->
  remove s k = (s, Rej EArtifact) /\ replace s k d = (s, Rej EArtifact) /\ load s k = (s, Rej EArtifact).
Proof. intros H. unfold remove, replace, load. now rewrite (proj2 (memk_false _ _) H). Qed.
Lemma no_data_rejected s k : is_rej (snd (write s k DNone)) = true /\ is_rej (snd (replace s k DNone)) = true.
Proof. unfold write, replace. destruct (memk k (keys s)); simpl; auto. Qed.
Lemma not_storable_rejected s k d : Inv s -> node_of d = None ->
  is_rej (snd (write s k d)) = true /\ is_rej (snd (replace s k d)) = true.
Proof.
  intros I Hn. split.
  - destruct (write_cases s k d I) as [[_ [H _]]|[n [Hn' _]]]; [assumption | congruence].
  - destruct (replace_cases s k d I) as [[_ [H _]]|[[n0 [_ [_ [_ [_ H]]]]]|[n [_ [_ [Hn' _]]]]]]; [assumption | now rewrite H | congruence].
Qed.
Lemma malformed_key_rejected s k d : Inv s -> valid_key k = false ->
  is_rej (snd (write s k d)) = true /\ is_rej (snd (remove s k)) = true /\ is_rej (snd (replace s k d)) = true /\
  is_rej (snd (load s k)) = true.
Proof.
  intros I Hv.
  assert (Hk : ~ In k (keys s)) by (intros H; rewrite (inv_valid _ I _ H) in Hv; discriminate).
  destruct (missing_rejected s k d Hk) as [H1 [H2 H3]]. rewrite H1, H2, H3. repeat split; try reflexivity.
  destruct (write_cases s k d I) as [[_ [H _]]|[n [_ [_ [Hv' _]]]]]; [assumption | congruence].
Qed.
Lemma overlapping_key_rejected s k d k' : In k' (keys s) -> overlaps k k' = true -> is_rej (snd (write s k d)) = true.
Proof.
  intros Hk Ho. unfold write. destruct (memk k (keys s)); [reflexivity|].
  assert (E : existsb (overlaps k) (keys s) = true) by (apply existsb_exists; eauto).
  rewrite E. destruct d; reflexivity.
Qed.
Lemma reserved_remove_rejected s : Inv s -> remove s ks_key = (s, Rej EArtifact).
Proof. intros I. unfold remove. rewrite (proj2 (memk_In _ _) (inv_res _ I)). reflexivity. Qed.

(* ---------------------------------------------------------------------------------------------------------- *)
(* REFINEMENT TO A FINITE MAP                                                                                  *)
Definition R (s : store) (m : amap) : Prop := forall k, find k (file_of s) = find k m.

Lemma abs_some_iff s k : Inv s -> (is_some (abs s k) = true <-> In k (keys s) /\ k <> ks_key).
Proof.
  intros I. unfold abs. rewrite (inv_dom _ I k). split.
  - intros H. destruct (find k (file_of s)) eqn:E; [|discriminate]. split; [right; congruence|].
    intros ->. rewrite (inv_ksf _ I) in E. discriminate.
  - intros [[H|H] Hn]; [contradiction|]. destruct (find k (file_of s)); [reflexivity | congruence].
Qed.
Lemma abs_none_notin s k : Inv s -> ~ In k (keys s) -> abs s k = None.
Proof.
  intros I H. destruct (abs s k) eqn:E; [|reflexivity]. exfalso. apply H.
  apply (abs_some_iff s k I). now rewrite E.
Qed.
Lemma abs_ks s : Inv s -> abs s ks_key = None.
Proof. intros I. unfold abs. now rewrite (inv_ksf _ I). Qed.

Lemma file_some_iff s k : Inv s -> (is_some (find k (file_of s)) = true <-> In k (keys s) /\ k <> ks_key).
Proof.
  intros I. rewrite <- (abs_some_iff s k I). unfold abs. destruct (find k (file_of s)); simpl; tauto.
Qed.
Lemma R_abs s m : R s m -> forall k, abs s k = option_map back (find k m).
Proof. intros HR k. unfold abs. now rewrite (HR k). Qed.

(* the keys of the artifact, as a set, are the reserved key + the domain of the map *)
Lemma keys_set s m : Inv s -> R s m -> forall k, In k (keys s) <-> In k (ks_key :: map fst m).
Proof.
  intros I HR k. simpl. rewrite <- find_some_keys, <- (HR k), (inv_dom _ I k). split; intros [H|H]; auto.
Qed.

Theorem step_refines s m o : Inv s -> R s m ->
  R (fst (step s o)) (fst (spec_step m o)) /\ is_rej (snd (step s o)) = negb (snd (spec_step m o)).
Proof.
  intros I HR.
  assert (Hov : forall k, existsb (overlaps k) (keys s) = existsb (overlaps k) (ks_key :: map fst m)).
  { intros k. apply existsb_set. apply (keys_set s m I HR). }
  assert (Hsome : forall k, is_some (find k m) = true <-> In k (keys s) /\ k <> ks_key).
  { intros k. rewrite <- (HR k). apply (file_some_iff s k I). }
  destruct o as [k d|k|k|k d| |f|k j]; cbn [Artifact.step spec_step].
  - (* write *)
    destruct (write_cases s k d I) as [[Hs [Hr Hno]]|[n [Hn [Hk [Hv [Ho Hw]]]]]].
    + rewrite Hs, Hr. destruct (node_of d) as [n|] eqn:En; [|auto].
      destruct (valid_key k && negb (key_eqb k ks_key) && negb (is_some (find k m)) &&
                negb (existsb (overlaps k) (ks_key :: map fst m))) eqn:C; [|auto].
      exfalso. apply Hno. exists n.
      apply andb_true_iff in C. destruct C as [C C4]. apply andb_true_iff in C. destruct C as [C C3].
      apply andb_true_iff in C. destruct C as [C1 C2].
      apply negb_true_iff in C2, C3, C4. apply key_eqb_neq in C2. rewrite <- Hov in C4.
      split; [reflexivity|]. split; [|split; assumption].
      intros Hin. assert (Hx : is_some (find k m) = true) by (apply Hsome; auto). congruence.
    + rewrite Hw, Hn. cbn [fst snd].
      assert (Hks : k <> ks_key) by (intros ->; apply Hk, (inv_res _ I)).
      assert (Hnone : find k m = None).
      { destruct (find k m) eqn:E; [|reflexivity]. exfalso. apply Hk. apply (Hsome k). now rewrite E. }
      rewrite Hv, (proj2 (key_eqb_neq _ _) Hks), Hnone, <- Hov, Ho. simpl. split; [|reflexivity].
      intros k'. simpl.
      assert (Hf : find k (file_of s) = None) by (rewrite (HR k); exact Hnone).
      rewrite (find_snoc_fresh _ _ _ _ Hf), (find_snoc_fresh _ _ _ _ Hnone). destruct (key_eqb k k'); [reflexivity | apply HR].
  - (* load *)
    destruct (load_file s k) as [Hf _]. split; [intros k'; rewrite Hf; apply HR|].
    destruct (memk k (keys s)) eqn:Em.
    + apply memk_In in Em. destruct (key_dec k ks_key) as [E|E].
      * subst k. unfold load. rewrite (proj2 (memk_In _ _) Em), key_eqb_refl. simpl. now rewrite orb_true_r.
      * destruct (load_loaded s k I Em E) as [v Hl]. rewrite Hl. simpl.
        now rewrite (proj2 (Hsome k) (conj Em E)).
    + unfold load. rewrite Em. simpl. apply memk_false in Em.
      assert (Hn : is_some (find k m) = false).
      { destruct (is_some (find k m)) eqn:E; [|reflexivity]. apply Hsome in E. tauto. }
      rewrite Hn. simpl. destruct (key_eqb k ks_key) eqn:E; [|reflexivity].
      apply key_eqb_eq in E. subst k. exfalso. apply Em, (inv_res _ I).
  - (* remove *)
    destruct (remove_cases s k I) as [[H Hwhy]|[Hk [Hks H]]]; rewrite H; simpl.
    + assert (Hn : is_some (find k m) = false).
      { destruct (is_some (find k m)) eqn:E; [|reflexivity]. apply Hsome in E. tauto. }
      rewrite Hn. auto.
    + rewrite (proj2 (Hsome k) (conj Hk Hks)). simpl. split; [|reflexivity].
      intros k'. simpl. destruct (key_dec k' k) as [E|E].
      * subst k'. now rewrite !find_del_same.
      * rewrite !find_del_other by assumption. apply HR.
  - (* replace *)
    destruct (replace_cases s k d I) as [[Hs [Hr Hwhy]]|[[n0 [Hk [Hks [Hf [Hd H]]]]]|[n [Hk [Hks [Hn H]]]]]].
    + rewrite Hs, Hr. destruct (node_of d) as [n|] eqn:En; [|auto].
      destruct (is_some (find k m)) eqn:E; [|auto]. exfalso. apply Hsome in E. destruct E as [E1 E2].
      destruct Hwhy as [Hw|[Hw|[Hw|Hw]]]; try contradiction; subst d; discriminate.
    + rewrite H. subst d. simpl. split; [|reflexivity].
      intros k'. simpl. rewrite (find_snoc_fresh _ _ _ _ (find_del_same k (file_of s))).
      destruct (key_eqb k k') eqn:E.
      * apply key_eqb_eq in E. subst k'. rewrite <- (HR k). now rewrite Hf.
      * apply key_eqb_neq in E. rewrite find_del_other by congruence. apply HR.
    + rewrite H, Hn, (proj2 (Hsome k) (conj Hk Hks)). simpl. split; [|reflexivity].
      intros k'. simpl.
      rewrite (find_snoc_fresh _ _ _ _ (find_del_same k (file_of s))), (find_snoc_fresh _ _ _ _ (find_del_same k m)).
      destruct (key_eqb k k') eqn:E; [reflexivity|]. apply key_eqb_neq in E.
      rewrite !find_del_other by congruence. apply HR.
  - split; [intros k; apply HR | reflexivity].
  - rewrite Z.leb_antisym. destruct (f <? 0); simpl; (split; [intros k; apply HR | reflexivity]).
  - destruct (find k (cache s)); simpl; (split; [intros k'; apply HR | reflexivity]).
Qed.

Theorem run_refines ops : forall s m, Inv s -> muts_ok ops -> R s m -> R (run s ops) (spec_run m ops).
Proof.
  induction ops as [|o r IH]; intros s m I Hm HR; simpl; [assumption|]. destruct Hm as [Hm1 Hm2].
  apply IH; [now apply step_inv | assumption | apply (step_refines s m o I HR)].
Qed.

Lemma R_init : R init [].
Proof. intros k. reflexivity. Qed.

(* the reported keys are exactly the loadable keys, and what a freshly opened artifact reports *)
Theorem keys_loadable_reopen s : Inv s ->
  (forall k, In k (keys s) <-> k = ks_key \/ abs s k <> None) /\
  (forall k, In k (keys s) <-> is_rej (snd (load s k)) = false) /\
  (forall f, keys (fst (step s (Reopen f))) = keys s) /\
  (* a load through the handle returns the stored content seen through the handle's filter; the content itself is whole *)
  (forall k v, k <> ks_key -> ~ T k (* no loaded object of k was changed in place: open finding F-AL *) ->
     (snd (load s k) = Loaded v <-> exists n, find k (file_of s) = Some n /\ v = seen (filt s) n /\ abs s k = Some (back n))).
Proof.
  intros I. split; [|split; [|split]].
  - intros k. rewrite (inv_dom _ I k). unfold abs. destruct (find k (file_of s)); simpl; split; intros [H|H]; auto;
      right; try discriminate; congruence.
  - intros k. split.
    + intros H. destruct (key_dec k ks_key) as [E|E].
      * subst k. unfold load. now rewrite (proj2 (memk_In _ _) H), key_eqb_refl.
      * destruct (load_loaded s k I H E) as [v Hl]. now rewrite Hl.
    + intros H. destruct (memk k (keys s)) eqn:Em; [now apply memk_In|]. unfold load in H. rewrite Em in H. discriminate.
  - intros f. simpl. destruct (f <? 0); [reflexivity|]. simpl. symmetry. apply (inv_ks _ I).
  - intros k v Hks HT. split.
    + intros H. destruct (memk k (keys s)) eqn:Em.
      * apply memk_In in Em. destruct (load_value s k I HT Em Hks) as [n [Hf Hl]]. rewrite Hl in H. inversion H; subst.
        exists n. unfold abs. rewrite Hf. auto.
      * unfold load in H. rewrite Em in H. discriminate.
    + intros [n [Hf [Hv Ha]]]. assert (Hk : In k (keys s)) by (apply (abs_some_iff s k I); now rewrite Ha).
      destruct (load_value s k I HT Hk Hks) as [n' [Hf' Hl]]. rewrite Hl. congruence.
Qed.

(* operations on other keys leave a key's content alone *)
Lemma spec_untouched m o k : touches k o = false -> find k (fst (spec_step m o)) = find k m.
Proof.
  destruct o as [k' d|k'|k'|k' d| |f|k' j]; simpl; intros H; try reflexivity; apply key_eqb_neq in H.
  - destruct (node_of d); [|reflexivity].
    destruct (valid_key k' && negb (key_eqb k' ks_key) && negb (is_some (find k' m)) && _); [|reflexivity].
    simpl. rewrite find_app. simpl. rewrite (proj2 (key_eqb_neq _ _) H). now destruct (find k m).
  - destruct (is_some (find k' m)); [|reflexivity]. simpl. apply find_del_other. congruence.
  - destruct (node_of d); [|reflexivity]. destruct (is_some (find k' m)); [|reflexivity]. simpl.
    rewrite find_app. simpl. rewrite (proj2 (key_eqb_neq _ _) H), find_del_other by congruence. now destruct (find k m).
Qed.
Lemma spec_run_untouched ops : forall m k, (forall o, In o ops -> touches k o = false) -> find k (spec_run m ops) = find k m.
Proof.
  induction ops as [|o r IH]; intros m k H; simpl; [reflexivity|].
  rewrite IH; [apply spec_untouched; apply H; now left | intros o' Ho'; apply H; now right].
Qed.

(* LOAD RETURNS THE ROUNDTRIP OF THE LAST WRITTEN DATA: after an accepted write / replace of [d] under [k], and any
   further operations none of which writes, removes or replaces [k], loading [k] returns [back (node d)] *)
(* after an accepted write / replace the file holds exactly the node given - and the cache holds nothing for the key *)
Lemma written_node s o0 k d n : Inv s -> (o0 = Write k d \/ o0 = Replace k d) -> node_of d = Some n ->
  snd (step s o0) = Done ->
  find k (file_of (fst (step s o0))) = Some n /\ find k (cache (fst (step s o0))) = None.
Proof.
  intros I Ho Hn Hd. destruct Ho as [-> | ->]; simpl in *.
  - destruct (write_cases s k d I) as [[_ [Hr _]]|[n' [Hn' [Hk [_ [_ Hw]]]]]]; [rewrite Hd in Hr; discriminate|].
    rewrite Hw. simpl. assert (n' = n) by congruence. subst n'. split.
    + rewrite find_snoc_fresh, key_eqb_refl; [reflexivity|].
      destruct (find k (file_of s)) eqn:E; [|reflexivity]. exfalso. apply Hk. apply (inv_dom _ I). right. congruence.
    + destruct (find k (cache s)) as [i|] eqn:E; [|reflexivity]. exfalso. destruct (inv_cache _ I k i E) as [m [Hm _]].
      apply Hk. apply (inv_dom _ I). right. congruence.
  - destruct (replace_cases s k d I) as [[_ [Hr _]]|[[n0 [_ [_ [_ [_ H]]]]]|[n' [_ [_ [Hn' H]]]]]].
    + rewrite Hd in Hr. discriminate.
    + rewrite H in Hd. discriminate.
    + rewrite H. simpl. assert (n' = n) by congruence. subst n'. split.
      * now rewrite (find_snoc_fresh _ _ _ _ (find_del_same k (file_of s))), key_eqb_refl.
      * apply find_del_same.
Qed.

(* a key nobody writes, removes or replaces, and of which no loaded object is changed in place, loads as what the file
   holds, seen through the handle's filter *)
Lemma load_untouched s k n post : Inv s -> find k (file_of s) = Some n ->
  (forall o, In o post -> touches k o = false) -> muts_ok post -> ~ T k ->
  find k (file_of (run s post)) = Some n /\ snd (step (run s post) (Load k)) = Loaded (seen (filt (run s post)) n).
Proof.
  intros I Hf Hpost Hm HT.
  assert (HR : R s (file_of s)) by (intros k'; reflexivity).
  assert (I2 : Inv (run s post)) by (now apply run_inv).
  assert (Hk2 : find k (file_of (run s post)) = Some n).
  { rewrite (run_refines post _ _ I Hm HR k). now rewrite spec_run_untouched. }
  split; [exact Hk2|].
  assert (Hks : k <> ks_key).
  { intros ->. rewrite (inv_ksf _ I2) in Hk2. discriminate. }
  assert (Hin : In k (keys (run s post))) by (apply (inv_dom _ I2); right; congruence).
  destruct (load_value _ k I2 HT Hin Hks) as [n' [Hf' Hl]]. simpl in *. rewrite Hl. congruence.
Qed.

(* a key whose cache entry is absent can be taken out of the tainted set *)
Lemma inv_untaint s k : Inv s -> find k (cache s) = None -> forall k' i, find k' (cache s) = Some i ->
  exists n, find k' (file_of s) = Some n /\ (seen (filt s) n = i \/ (T k' /\ k' <> k)).
Proof.
  intros I Hc k' i H. destruct (inv_cache _ I k' i H) as [n [Hn [Hb|Hb]]]; exists n; split; auto.
  right. split; [assumption|]. intros ->. congruence.
Qed.

(* THE HANDLES' FILTERS NEVER REACH THE FILE: the stored content (and hence the key set and every outcome) after a
   history does not depend on the filters the artifacts were opened with *)
Lemma spec_step_erase m o : spec_step m (erase o) = spec_step m o.
Proof.
  destruct o as [| | | | |f|]; try reflexivity. simpl. rewrite (Z.leb_antisym f 0).
  destruct (f <? 0) eqn:E; simpl; reflexivity.
Qed.
Lemma spec_run_erase ops : forall m, spec_run m (map erase ops) = spec_run m ops.
Proof. induction ops as [|o r IH]; intros m; simpl; [reflexivity|]. now rewrite spec_step_erase, IH. Qed.

Theorem filter_independent ops ops' : muts_ok ops -> muts_ok ops' -> map erase ops = map erase ops' ->
  (forall k, find k (file_of (run init ops)) = find k (file_of (run init ops'))) /\
  (forall k, In k (keys (run init ops)) <-> In k (keys (run init ops'))) /\
  (forall o, is_rej (snd (step (run init ops) o)) = is_rej (snd (step (run init ops') o))).
Proof.
  intros M1 M2 E.
  pose proof (run_refines ops init [] inv_init M1 (fun k => eq_refl)) as R1.
  pose proof (run_refines ops' init [] inv_init M2 (fun k => eq_refl)) as R2.
  assert (Em : spec_run [] ops = spec_run [] ops') by (rewrite <- (spec_run_erase ops), <- (spec_run_erase ops'), E; reflexivity).
  pose proof (run_inv ops init inv_init M1) as I1. pose proof (run_inv ops' init inv_init M2) as I2.
  split; [|split].
  - intros k. now rewrite (R1 k), (R2 k), Em.
  - intros k. rewrite (keys_set _ _ I1 R1 k), (keys_set _ _ I2 R2 k), Em. tauto.
  - intros o. rewrite (proj2 (step_refines _ _ o I1 R1)), (proj2 (step_refines _ _ o I2 R2)), Em. reflexivity.
Qed.

(* ---------------------------------------------------------------------------------------------------------- *)
(* CLEARING THE CACHE AND RE-OPENING ARE NEUTRAL                                                               *)
Theorem clear_reopen_neutral s o ops : (forall k, ~ T k) -> muts_ok ops -> Inv s -> (o = ClearCache \/ o = Reopen (filt s)) ->
  (forall k, abs (fst (step s o)) k = abs s k) /\ keys (fst (step s o)) = keys s /\
  outs (fst (step s o)) ops = outs s ops.
Proof.
  intros HT Hm I Ho.
  assert (S : sim s (fst (step s o))).
  { pose proof (inv_filt _ I) as Hf. apply Z.ltb_ge in Hf.
    destruct Ho as [-> | ->]; simpl; [|rewrite Hf; simpl]; (split; [|reflexivity]); simpl; repeat split; auto. apply (inv_ks _ I). }
  assert (I' : Inv (fst (step s o))) by (apply step_inv; [assumption | intros k j E; destruct Ho as [-> | ->]; discriminate]).
  repeat split.
  - intros k. unfold abs. destruct S as [[Hf _] _]. now rewrite <- (Hf k).
  - destruct S as [[_ [_ Hk]] _]. now symmetry.
  - symmetry. now apply sim_outs.
Qed.

End Proofs.

Definition Any (k : key) : Prop := True.          (* loaded objects may have been changed in place, for any key *)
Definition Nobody (k : key) : Prop := False.      (* no loaded object is ever changed in place *)
Definition no_mutation (ops : list op) : Prop := forall k j, ~ In (Mutate k j) ops.

Lemma muts_ok_intro (T : key -> Prop) ops : (forall k j, In (Mutate k j) ops -> T k) -> muts_ok T ops.
Proof.
  induction ops as [|o r IH]; intros H; simpl; [exact I|]. split.
  - intros k j ->. apply (H k j). now left.
  - apply IH. intros k j Hin. apply (H k j). now right.
Qed.
Lemma muts_ok_any ops : muts_ok Any ops.
Proof. apply muts_ok_intro. intros; exact I. Qed.
Lemma muts_ok_nobody ops : no_mutation ops -> muts_ok Nobody ops.
Proof. intros H. apply muts_ok_intro. intros k j Hin. exact (H k j Hin). Qed.

(* forgetting about a key whose cache entry is absent *)
Lemma inv_narrow rt view (T : key -> Prop) s k : Inv rt view T s -> find k (cache s) = None -> Inv rt view (fun x => T x /\ x <> k) s.
Proof.
  intros I Hc. pose proof (inv_untaint rt view T s k I Hc) as Hu. destruct I; constructor; assumption.
Qed.

(* LOAD RETURNS THE ROUNDTRIP OF THE LAST WRITTEN DATA.  GUARD (open finding F-AL): the caller changes in place no object
   that a load of this key returned after the write *)
Theorem load_last_written rt view s o0 k d n post : Inv rt view Any s -> (o0 = Write k d \/ o0 = Replace k d) ->
  node_of d = Some n -> snd (step rt view s o0) = Done -> (forall o, In o post -> touches k o = false) ->
  (forall j, ~ In (Mutate k j) post) ->
  find k (file_of (run rt view s (o0 :: post))) = Some n /\
  snd (step rt view (run rt view s (o0 :: post)) (Load k)) = Loaded (seen rt view (filt (run rt view s (o0 :: post))) n).
Proof.
  intros I Ho Hn Hd Hpost Hnm. simpl.
  assert (I1 : Inv rt view Any (fst (step rt view s o0))).
  { apply step_inv; [assumption|]. intros k0 j0 _. exact Logic.I. }
  destruct (written_node rt view Any s o0 k d n I Ho Hn Hd) as [Hf Hc].
  apply (load_untouched rt view (fun x => Any x /\ x <> k) _ k n post (inv_narrow _ _ _ _ k I1 Hc) Hf Hpost).
  - apply muts_ok_intro. intros k' j Hin. split; [exact Logic.I|]. intros ->. exact (Hnm j Hin).
  - intros [_ H]. now apply H.
Qed.

(* ... and the guard is needed: the unguarded statement is false of the code as it stands (F-AL) *)
Lemma load_last_written_refuted :
  let rt := fun (_ : bool) (i : Z) => i in let view := fun (_ i : Z) => i in
  let post := [Load [5; 6]; Mutate [5; 6] 99] in
  snd (step rt view init (Write [5; 6] (DJson 10))) = Done /\
  (forall o, In o post -> touches [5; 6] o = false) /\
  snd (step rt view (run rt view init (Write [5; 6] (DJson 10) :: post)) (Load [5; 6])) = Loaded 99 /\
  abs rt (run rt view init (Write [5; 6] (DJson 10) :: post)) [5; 6] = Some 10.
Proof.
  simpl. repeat split; try reflexivity. intros o [<-|[<-|[]]]; reflexivity.
Qed.

(* ---------------------------------------------------------------------------------------------------------- *)
(* FILTER TERMS ONLY RESTRICT                                                                                  *)
Inductive sublist {A} : list A -> list A -> Prop :=
  | sub_nil : sublist [] []
  | sub_skip x l1 l2 : sublist l1 l2 -> sublist l1 (x :: l2)
  | sub_keep x l1 l2 : sublist l1 l2 -> sublist (x :: l1) (x :: l2).

Lemma sublist_refl {A} (l : list A) : sublist l l.
Proof. induction l; [constructor | now apply sub_keep]. Qed.
Lemma sublist_filter {A} (p : A -> bool) l : sublist (filter p l) l.
Proof. induction l as [|x r IH]; simpl; [constructor|]. destruct (p x); [now apply sub_keep | now apply sub_skip]. Qed.
Lemma sublist_filter_imp {A} (p q : A -> bool) l : (forall x, p x = true -> q x = true) -> sublist (filter p l) (filter q l).
Proof.
  intros H. induction l as [|x r IH]; simpl; [constructor|]. destruct (p x) eqn:E.
  - rewrite (H x E). now apply sub_keep.
  - destruct (q x); [now apply sub_skip | assumption].
Qed.
Lemma sublist_In {A} (l1 l2 : list A) x : sublist l1 l2 -> In x l1 -> In x l2.
Proof. induction 1; simpl; intros H'; [contradiction | right; auto | destruct H'; [now left | right; auto]]. Qed.
Lemma sublist_length {A} (l1 l2 : list A) : sublist l1 l2 -> (length l1 <= length l2)%nat.
Proof. induction 1; simpl; lia. Qed.

Section Filter.
Variable cols : list Z.

(* the rows returned are a sub-sequence of the rows stored: nothing is added, nothing reordered or duplicated *)
Theorem filter_restricts ts rows : sublist (load_filtered cols ts rows) rows.
Proof. apply sublist_filter. Qed.

(* exactly the rows on which every term over queryable columns holds *)
Theorem filter_spec ts rows r : In r (load_filtered cols ts rows) <->
  In r rows /\ forall t, In t ts -> term_valid cols t = true -> term_eval cols r t = true.
Proof.
  unfold load_filtered, row_passes, valid_terms. rewrite filter_In, forallb_forall. split.
  - intros [H1 H2]. split; [assumption|]. intros t Ht Hv. apply H2. apply filter_In. auto.
  - intros [H1 H2]. split; [assumption|]. intros t Ht. apply filter_In in Ht. destruct Ht. auto.
Qed.

(* a term over a column the table cannot be queried on is dropped - wherever it stands in the list *)
Theorem filter_absent_dropped ts1 t ts2 rows : term_valid cols t = false ->
  load_filtered cols (ts1 ++ t :: ts2) rows = load_filtered cols (ts1 ++ ts2) rows.
Proof.
  intros H. unfold load_filtered, row_passes, valid_terms. apply filter_ext. intros r.
  rewrite !filter_app. simpl. now rewrite H.
Qed.

Theorem filter_none rows : load_filtered cols [] rows = rows.
Proof.
  unfold load_filtered, row_passes. simpl. induction rows as [|r l IH]; simpl; [reflexivity | now rewrite IH].
Qed.

(* more terms, fewer rows *)
Theorem filter_monotone t ts rows : sublist (load_filtered cols (t :: ts) rows) (load_filtered cols ts rows).
Proof.
  apply sublist_filter_imp. intros r. unfold row_passes, valid_terms. simpl.
  destruct (term_valid cols t); simpl; [|auto]. intros H. now apply andb_true_iff in H.
Qed.

(* the positions reported to the correspondence are those of [load_filtered] *)
Lemma positions_length p rows : forall n, length (positions_from n p rows) = length (filter p rows).
Proof. induction rows as [|r l IH]; intros n; simpl; [reflexivity|]. destruct (p r); simpl; now rewrite IH. Qed.
End Filter.

(* the draw filter returns a sub-sequence of the stored columns (all of them when no draw term is given) *)
Theorem select_columns_sublist stored request : sublist (select_columns stored request) stored.
Proof. destruct request; simpl; [apply sublist_filter | apply sublist_refl]. Qed.
Theorem select_columns_spec stored cols c : In c (select_columns stored (Some cols)) <-> In c stored /\ In c cols.
Proof. simpl. rewrite filter_In, zmem_In. tauto. Qed.
