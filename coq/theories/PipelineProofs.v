(* Lemmas about the pipeline model (DESIGN.md C14). *)
From Viv Require Import Common Pipeline.
From Coq Require Import Permutation.
Local Open Scope Z_scope.

(* ================================================================================================================ *)
(* registry as an association list                                                                                  *)
(* ================================================================================================================ *)
Lemma zassoc_set_same r n p : zassoc n (set_pipe r n p) = Some p.
Proof.
  induction r as [|[k x] t IH]; simpl.
  - now rewrite Z.eqb_refl.
  - destruct (Z.eqb_spec k n) as [->|Hne]; simpl.
    + now rewrite Z.eqb_refl.
    + destruct (Z.eqb_spec k n); [contradiction | exact IH].
Qed.

Lemma zassoc_set_other r n m p : n <> m -> zassoc m (set_pipe r n p) = zassoc m r.
Proof.
  intros Hnm. induction r as [|[k x] t IH]; simpl.
  - destruct (Z.eqb_spec n m); [contradiction | reflexivity].
  - destruct (Z.eqb_spec k n) as [->|Hne]; simpl.
    + destruct (Z.eqb_spec n m); [contradiction | reflexivity].
    + destruct (Z.eqb_spec k m); [reflexivity | exact IH].
Qed.

Lemma get_set_same r n p : get_pipe (set_pipe r n p) n = p.
Proof. unfold get_pipe. now rewrite zassoc_set_same. Qed.

Lemma get_set_other r n m p : n <> m -> get_pipe (set_pipe r n p) m = get_pipe r m.
Proof. intros H. unfold get_pipe. now rewrite zassoc_set_other. Qed.

(* `self._pipelines[name]` on a new name creates a pipeline that is indistinguishable from an absent one *)
Lemma get_touch r n m : get_pipe (touch r n) m = get_pipe r m.
Proof.
  unfold touch. destruct (zassoc n r) eqn:E; [reflexivity|].
  destruct (Z.eq_dec n m) as [->|Hne].
  - rewrite get_set_same. unfold get_pipe. now rewrite E.
  - now apply get_set_other.
Qed.

(* ================================================================================================================ *)
(* Part 1 - generic theorems                                                                                        *)
(* ================================================================================================================ *)
Section G.
  Variables arg atom : Type.
  Variable src : Z -> arg -> pv atom.
  Variable modr : Z -> arg -> pv atom -> pv atom.
  Variable modl : Z -> arg -> atom.
  Variable post : postk -> pv atom -> result (pv atom).

  Local Notation step' := (step arg atom src modr modl post).
  Local Notation run' := (run arg atom src modr modl post).
  Local Notation call' := (call arg atom src modr modl post).
  Local Notation apply' := (apply_muts arg atom modr modl).
  Local Notation rtrace := (replace_trace arg atom modr).

  (* ---------- run ---------- *)
  Lemma run_cons_fst r o t : fst (run' r (o :: t)) = fst (run' (fst (step' r o)) t).
  Proof. simpl. destruct (step' r o) as [r1 x]. simpl. now destruct (run' r1 t). Qed.

  Lemma run_app_fst r l1 l2 : fst (run' r (l1 ++ l2)) = fst (run' (fst (run' r l1)) l2).
  Proof.
    revert r; induction l1 as [|o t IH]; intros r; [reflexivity|].
    rewrite <- app_comm_cons, !run_cons_fst. apply IH.
  Qed.

  Lemma run_app_snd r l1 l2 : snd (run' r (l1 ++ l2)) = snd (run' r l1) ++ snd (run' (fst (run' r l1)) l2).
  Proof.
    revert r; induction l1 as [|o t IH]; intros r; [reflexivity|].
    rewrite <- app_comm_cons. simpl. destruct (step' r o) as [r1 x]. specialize (IH r1).
    destruct (run' r1 (t ++ l2)) as [r2 xs]. destruct (run' r1 t) as [r3 ys]. simpl in *. now rewrite IH.
  Qed.

  Lemma run_length r ops : length (snd (run' r ops)) = length ops.
  Proof.
    revert r; induction ops as [|o t IH]; intros r; [reflexivity|].
    simpl. destruct (step' r o) as [r1 x]. specialize (IH r1). destruct (run' r1 t). simpl in *. now rewrite IH.
  Qed.

  (* calls and look-ups never change what is registered *)
  Lemma call_inert r n a skip : fst (step' r (Call n a skip)) = r.
  Proof. simpl. now destruct (call' (get_pipe r n) a skip). Qed.

  Lemma get_value_inert r n m : get_pipe (fst (step' r (GetValue n))) m = get_pipe r m.
  Proof. simpl. apply get_touch. Qed.

  (* ---------- mutators: the registered sub-sequence, in registration order, whatever else happens ---------- *)
  Lemma mods_of_cons n (o : op arg) t : mods_of n (o :: t) = mods_of n [o] ++ mods_of n t.
  Proof. destruct o; simpl; try reflexivity. now destruct (n0 =? n). Qed.

  Lemma mods_of_app n (l1 l2 : list (op arg)) : mods_of n (l1 ++ l2) = mods_of n l1 ++ mods_of n l2.
  Proof.
    induction l1 as [|o t IH]; [reflexivity|]. rewrite <- app_comm_cons, mods_of_cons, IH, app_assoc.
    now rewrite <- mods_of_cons.
  Qed.

  Lemma step_muts r o n : p_muts (get_pipe (fst (step' r o)) n) = p_muts (get_pipe r n) ++ mods_of n [o].
  Proof.
    destruct o as [n' s c k | n' m | n' | n' a skip]; simpl mods_of.
    - rewrite app_nil_r. simpl. unfold register_producer.
      destruct (Z.eq_dec n' n) as [->|Hne].
      + destruct (p_source (get_pipe r n)) as [s0|]; simpl; try reflexivity;
          now rewrite get_set_same.
      + destruct (p_source (get_pipe r n')) as [s0|]; simpl; try reflexivity;
          now rewrite get_set_other.
    - simpl. destruct (Z.eqb_spec n' n) as [->|Hne].
      + now rewrite get_set_same.
      + rewrite app_nil_r. now rewrite get_set_other.
    - rewrite app_nil_r. now rewrite get_value_inert.
    - rewrite app_nil_r. now rewrite call_inert.
  Qed.

  Theorem run_muts ops : forall r n, p_muts (get_pipe (fst (run' r ops)) n) = p_muts (get_pipe r n) ++ mods_of n ops.
  Proof.
    induction ops as [|o t IH]; intros r n.
    - simpl. now rewrite app_nil_r.
    - rewrite run_cons_fst, IH, step_muts, <- app_assoc. now rewrite <- mods_of_cons.
  Qed.

  (* ---------- source / combiner / post-processor ---------- *)
  Definition skp (p : pipe) : option Z * combiner * postk := (p_source p, p_comb p, p_post p).

  Lemma first_producer_cons n (o : op arg) t :
    first_producer n (o :: t) = match first_producer n [o] with Some x => Some x | None => first_producer n t end.
  Proof. destruct o; simpl; try reflexivity. now destruct (n0 =? n). Qed.

  Lemma first_producer_app n (l1 l2 : list (op arg)) :
    first_producer n (l1 ++ l2) = match first_producer n l1 with Some x => Some x | None => first_producer n l2 end.
  Proof.
    induction l1 as [|o t IH]; [reflexivity|]. rewrite <- app_comm_cons, first_producer_cons, IH.
    rewrite (first_producer_cons n o t). now destruct (first_producer n [o]).
  Qed.

  (* an operation that is not a source registration for n leaves n's source, combiner and post-processor alone *)
  Lemma step_skp_other r o n : first_producer n [o] = None -> skp (get_pipe (fst (step' r o)) n) = skp (get_pipe r n).
  Proof.
    destruct o as [n' s c k | n' m | n' | n' a skip]; simpl first_producer; intros H.
    - destruct (Z.eqb_spec n' n) as [->|Hne]; [discriminate|]. simpl. unfold register_producer.
      destruct (p_source (get_pipe r n')) as [s0|]; simpl; try reflexivity;
        now rewrite get_set_other.
    - simpl. destruct (Z.eq_dec n' n) as [->|Hne]; [now rewrite get_set_same | now rewrite get_set_other].
    - now rewrite get_value_inert.
    - now rewrite call_inert.
  Qed.

  (* once a (truthy) source is there, nothing changes it *)
  Lemma step_skp_sourced r o n :
    has_source (get_pipe r n) = true -> skp (get_pipe (fst (step' r o)) n) = skp (get_pipe r n).
  Proof.
    intros Hs. destruct (first_producer n [o]) as [[[s c] k]|] eqn:E; [|now apply step_skp_other].
    destruct o as [n' s' c' k' | | |]; simpl in E; try discriminate.
    destruct (Z.eqb_spec n' n) as [->|]; [|discriminate].
    simpl. unfold register_producer. unfold has_source in Hs.
    destruct (p_source (get_pipe r n)) as [s0|]; [|discriminate]. reflexivity.
  Qed.

  Lemma has_source_skp p p' : skp p = skp p' -> has_source p = has_source p'.
  Proof. unfold skp, has_source. now intros [= -> _ _]. Qed.

  Lemma run_skp_sourced ops : forall r n,
    has_source (get_pipe r n) = true -> skp (get_pipe (fst (run' r ops)) n) = skp (get_pipe r n).
  Proof.
    induction ops as [|o t IH]; intros r n Hs; [reflexivity|].
    rewrite run_cons_fst. pose proof (step_skp_sourced r o n Hs) as E.
    rewrite IH; [exact E|]. now rewrite (has_source_skp _ _ E).
  Qed.

  (* a second source: rejected, and the registry is the very same *)
  Theorem second_source_rejected r n s c k :
    has_source (get_pipe r n) = true -> step' r (RegisterProducer n s c k) = (r, ORejected EDynamicValue).
  Proof.
    unfold has_source. simpl. unfold register_producer. intros H.
    destruct (p_source (get_pipe r n)) as [s0|]; [|discriminate]. reflexivity.
  Qed.

    Theorem run_first_producer ops : forall r n, p_source (get_pipe r n) = None ->
      match first_producer n ops with
      | Some (s, c, k) => skp (get_pipe (fst (run' r ops)) n) = (Some s, c, k)
      | None => skp (get_pipe (fst (run' r ops)) n) = skp (get_pipe r n)
      end.
    Proof.
      induction ops as [|o t IH]; intros r n Hn; [reflexivity|].
      rewrite first_producer_cons, run_cons_fst.
      destruct (first_producer n [o]) as [[[s c] k]|] eqn:E.
      - destruct o as [n' s' c' k' | | |]; simpl in E; try discriminate.
        destruct (Z.eqb_spec n' n) as [->|]; [|discriminate]. injection E as -> -> ->.
        assert (G : get_pipe (fst (step' r (RegisterProducer n s c k))) n =
                    {| p_source := Some s; p_muts := p_muts (get_pipe r n); p_comb := c; p_post := k |}).
        { simpl. unfold register_producer. rewrite Hn. simpl. apply get_set_same. }
        rewrite run_skp_sourced; [now rewrite G|]. rewrite G. reflexivity.
      - pose proof (step_skp_other r o n E) as E1.
        assert (Hn' : p_source (get_pipe (fst (step' r o)) n) = None).
        { unfold skp in E1. injection E1 as -> _ _. exact Hn. }
        specialize (IH _ _ Hn'). destruct (first_producer n t) as [[[s c] k]|]; [exact IH | now rewrite IH].
    Qed.

    Lemma sourced_after ops n : first_producer n ops <> None ->
      has_source (get_pipe (fst (run' [] ops)) n) = true.
    Proof.
      intros H. pose proof (run_first_producer ops [] n eq_refl) as R.
      destruct (first_producer n ops) as [[[s c] k]|]; [|contradiction].
      unfold skp in R. injection R as R _ _. unfold has_source. now rewrite R.
    Qed.

    (* the whole registry statement, over every history that starts from the empty registry *)
    Theorem registry_history ops n :
      let r := fst (run' [] ops) in
      p_muts (get_pipe r n) = mods_of n ops /\
      match first_producer n ops with
      | Some (s, c, k) => p_source (get_pipe r n) = Some s /\ p_comb (get_pipe r n) = c /\ p_post (get_pipe r n) = k
      | None => p_source (get_pipe r n) = None
      end /\
      (forall pre s c k rest, ops = pre ++ RegisterProducer n s c k :: rest -> first_producer n pre <> None ->
         step' (fst (run' [] pre)) (RegisterProducer n s c k) = (fst (run' [] pre), ORejected EDynamicValue)).
    Proof.
      cbv zeta. split; [|split].
      - now rewrite run_muts.
      - pose proof (run_first_producer ops [] n eq_refl) as R.
        destruct (first_producer n ops) as [[[s c] k]|]; unfold skp in R.
        + now injection R as -> -> ->.
        + now injection R as -> _ _.
      - intros pre s c k rest _ Hp. apply second_source_rejected. now apply sourced_after.
    Qed.

  (* ---------- the call ---------- *)
  Lemma apply_replace ms a : forall tr v,
    apply' CReplace ms a tr v = (tr ++ rtrace a ms v, Ok (fold_left (fun x m => modr m a x) ms v)).
  Proof.
    induction ms as [|m t IH]; intros tr v; simpl.
    - now rewrite app_nil_r.
    - rewrite IH, <- app_assoc. reflexivity.
  Qed.

  Lemma apply_list ms a : forall tr l,
    apply' CList ms a tr (Many l) =
      (tr ++ map (fun m => EMod m a None) ms, Ok (Many (l ++ map (fun m => modl m a) ms))).
  Proof.
    induction ms as [|m t IH]; intros tr l; simpl.
    - now rewrite !app_nil_r.
    - rewrite IH, <- !app_assoc. reflexivity.
  Qed.

  (* list_combiner on something that is not a list: the first application raises, its modifier is not evaluated *)
  Lemma apply_list_scalar m t a tr x : apply' CList (m :: t) a tr (One x) = (tr, Rejected EOther).
  Proof. simpl. now rewrite app_nil_r. Qed.

  Definition post_events (p : pipe) (skip : bool) (v : pv atom) : list (ev arg atom) :=
    if post_applies p skip then [EPost (p_post p) v] else [].
  Definition post_value (p : pipe) (skip : bool) (v : pv atom) : result (pv atom) :=
    if post_applies p skip then post (p_post p) v else Ok v.

  Theorem call_replace p s a skip :
    p_source p = Some s -> p_comb p = CReplace ->
    let v := fold_left (fun x m => modr m a x) (p_muts p) (src s a) in
    call' p a skip = (ESrc s a :: rtrace a (p_muts p) (src s a) ++ post_events p skip v, post_value p skip v).
  Proof.
    intros Hs Hc. cbv zeta. unfold call, post_events, post_value. rewrite Hs, Hc, apply_replace. simpl.
    destruct (post_applies p skip); [reflexivity | now rewrite app_nil_r].
  Qed.

  Theorem call_list p s a skip l0 :
    p_source p = Some s -> p_comb p = CList -> src s a = Many l0 ->
    let v := Many (l0 ++ map (fun m => modl m a) (p_muts p)) in
    call' p a skip = (ESrc s a :: map (fun m => EMod m a None) (p_muts p) ++ post_events p skip v, post_value p skip v).
  Proof.
    intros Hs Hc Hl. cbv zeta. unfold call, post_events, post_value. rewrite Hs, Hc, Hl, apply_list. simpl.
    destruct (post_applies p skip); [reflexivity | now rewrite app_nil_r].
  Qed.

  Theorem call_list_on_scalar p s a skip x m t :
    p_source p = Some s -> p_comb p = CList -> src s a = One x -> p_muts p = m :: t ->
    call' p a skip = ([ESrc s a], Rejected EOther).
  Proof. intros Hs Hc Hl Hm. unfold call. now rewrite Hs, Hc, Hl, Hm, apply_list_scalar. Qed.

  Theorem call_no_source p a skip : has_source p = false -> call' p a skip = ([], Rejected EDynamicValue).
  Proof.
    unfold has_source, call. destruct (p_source p) as [s|]; [discriminate | reflexivity].
  Qed.

  (* exactly once, in order - independent of the combiner *)
  Lemma src_ids_app (t1 t2 : list (ev arg atom)) : src_ids (t1 ++ t2) = src_ids t1 ++ src_ids t2.
  Proof. apply flat_map_app. Qed.
  Lemma mod_ids_app (t1 t2 : list (ev arg atom)) : mod_ids (t1 ++ t2) = mod_ids t1 ++ mod_ids t2.
  Proof. apply flat_map_app. Qed.
  Lemma post_ids_app (t1 t2 : list (ev arg atom)) : post_ids (t1 ++ t2) = post_ids t1 ++ post_ids t2.
  Proof. apply flat_map_app. Qed.

  Lemma apply_ids c ms a : forall tr v tr' v', apply' c ms a tr v = (tr', Ok v') ->
    src_ids tr' = src_ids tr /\ mod_ids tr' = mod_ids tr ++ ms /\ post_ids tr' = post_ids tr.
  Proof.
    induction ms as [|m t IH]; intros tr v tr' v' H; simpl in H.
    - injection H as <- _. now rewrite app_nil_r.
    - destruct (combine arg atom modr modl c v m a) as [t0 [v1|e|]] eqn:E; try discriminate.
      apply IH in H. destruct H as [H1 [H2 H3]].
      assert (T : t0 = [EMod m a (match c with CReplace => Some v | CList => None end)]).
      { destruct c; simpl in E; [now injection E as <- _|]. destruct v; [discriminate | now injection E as <- _]. }
      subst t0. rewrite src_ids_app in H1. rewrite mod_ids_app in H2. rewrite post_ids_app in H3.
      simpl in *. rewrite !app_nil_r in *. rewrite <- app_assoc in H2. auto.
  Qed.

  Theorem call_exactly_once p a skip tr v : call' p a skip = (tr, Ok v) ->
    exists s, p_source p = Some s /\ src_ids tr = [s] /\ mod_ids tr = p_muts p /\
              post_ids tr = (if post_applies p skip then [p_post p] else []).
  Proof.
    unfold call. destruct (p_source p) as [s|]; [|discriminate].
    destruct (apply' (p_comb p) (p_muts p) a [ESrc s a] (src s a)) as [tr0 [v0|e|]] eqn:E; try discriminate.
    apply apply_ids in E. destruct E as [E1 [E2 E3]]. simpl in E1, E2, E3.
    destruct (post_applies p skip); intros H; injection H as <- Hv; exists s; split; try reflexivity.
    - rewrite src_ids_app, mod_ids_app, post_ids_app, E1, E2, E3. simpl. now rewrite !app_nil_r.
    - now rewrite E1, E2, E3.
  Qed.

  (* a failed or refused call never returns a value computed without the source *)
  Theorem call_trace_starts_with_source p a skip tr rv : call' p a skip = (tr, rv) -> tr <> [] ->
    exists s rest, p_source p = Some s /\ tr = ESrc s a :: rest.
  Proof.
    unfold call. destruct (p_source p) as [s|]; [|now intros [= <- _] H].
    assert (G : forall c ms tr0 v tr1 rv1, apply' c ms a (ESrc s a :: tr0) v = (tr1, rv1) -> exists rest, tr1 = ESrc s a :: rest).
    { intros c ms. induction ms as [|m t IH]; intros tr0 v tr1 rv1 H; simpl in H.
      - injection H as <- _. eauto.
      - destruct (combine arg atom modr modl c v m a) as [t0 [v1|e|]].
        + now apply IH in H.
        + injection H as <- _. eauto.
        + injection H as <- _. eauto. }
    destruct (apply' (p_comb p) (p_muts p) a [ESrc s a] (src s a)) as [tr0 rv0] eqn:E.
    apply G in E. destruct E as [rest ->]. intros H _.
    destruct rv0 as [v0|e|]; [destruct (post_applies p skip)|..]; injection H as <- _; eauto.
  Qed.

  (* ---------- a pipeline whose source is another pipeline ---------- *)
  Variable nested : Z -> option Z.
  Local Notation ncall' := (ncall arg atom src modr modl post nested).
  Local Notation chain_mods' := (chain_mods nested).
  Local Notation chain_posts' := (chain_posts nested).

  (* an ordinary source (or none): the nested evaluator IS Pipeline._call *)
  Theorem ncall_flat f r n a skip :
    match p_source (get_pipe r n) with Some s => nested s = None | None => True end ->
    ncall' (S f) r n a skip = call' (get_pipe r n) a skip.
  Proof.
    intros H. simpl. unfold call. destruct (p_source (get_pipe r n)) as [s|]; [|reflexivity]. rewrite H. simpl.
    destruct (apply' (p_comb (get_pipe r n)) (p_muts (get_pipe r n)) a [ESrc s a] (src s a)) as [tr [v|e|]]; reflexivity.
  Qed.

  (* a pipeline as source: its whole evaluation (source, modifiers, its OWN post-processor - never skipped) stands where
     the source call would stand, once; then the outer modifiers and the outer post-processor *)
  Theorem ncall_nested_replace f r n a skip s m tri vi :
    p_source (get_pipe r n) = Some s -> nested s = Some m -> p_comb (get_pipe r n) = CReplace ->
    ncall' f r m a false = (tri, Ok vi) ->
    let p := get_pipe r n in
    let v := fold_left (fun x q => modr q a x) (p_muts p) vi in
    ncall' (S f) r n a skip = (tri ++ rtrace a (p_muts p) vi ++ post_events p skip v, post_value p skip v).
  Proof.
    intros Hs Hn Hc Hi. cbv zeta. simpl. rewrite Hs, Hn, Hi, Hc. simpl. rewrite apply_replace.
    unfold post_events, post_value. destruct (post_applies (get_pipe r n) skip).
    - now rewrite <- app_assoc.
    - now rewrite app_nil_r.
  Qed.

  Theorem ncall_nested_list f r n a skip s m tri li :
    p_source (get_pipe r n) = Some s -> nested s = Some m -> p_comb (get_pipe r n) = CList ->
    ncall' f r m a false = (tri, Ok (Many li)) ->
    let p := get_pipe r n in
    let v := Many (li ++ map (fun q => modl q a) (p_muts p)) in
    ncall' (S f) r n a skip =
      (tri ++ map (fun q => EMod q a None) (p_muts p) ++ post_events p skip v, post_value p skip v).
  Proof.
    intros Hs Hn Hc Hi. cbv zeta. simpl. rewrite Hs, Hn, Hi, Hc. simpl. rewrite apply_list.
    unfold post_events, post_value. destruct (post_applies (get_pipe r n) skip).
    - now rewrite <- app_assoc.
    - now rewrite app_nil_r.
  Qed.

  (* the inner pipeline fails (no source somewhere down the chain, a callable raises): the outer call fails the same
     way and evaluates nothing more *)
  Theorem ncall_nested_failure f r n a skip s m tri e :
    p_source (get_pipe r n) = Some s -> nested s = Some m -> ncall' f r m a false = (tri, Rejected e) ->
    ncall' (S f) r n a skip = (tri, Rejected e).
  Proof. intros Hs Hn Hi. simpl. now rewrite Hs, Hn, Hi. Qed.

  (* exactly once, in order, along the whole chain: one source evaluation (the innermost pipeline's), the modifiers of
     the chain innermost first, every inner post-processor and the outer one unless skipped *)
  Theorem ncall_exactly_once : forall f r n a skip tr v, ncall' f r n a skip = (tr, Ok v) ->
    length (src_ids tr) = 1%nat /\ mod_ids tr = chain_mods' f r n /\ post_ids tr = chain_posts' f r n skip.
  Proof.
    induction f as [|f IH]; intros r n a skip tr v H; simpl in H; [discriminate|]. simpl.
    destruct (p_source (get_pipe r n)) as [s|]; [|discriminate].
    assert (Hin : forall tr0 v0, (match nested s with Some m => ncall' f r m a false | None => ([ESrc s a], Ok (src s a)) end) = (tr0, Ok v0) ->
              length (src_ids tr0) = 1%nat /\
              mod_ids tr0 = match nested s with Some m => chain_mods' f r m | None => [] end /\
              post_ids tr0 = match nested s with Some m => chain_posts' f r m false | None => [] end).
    { intros tr0 v0 E. destruct (nested s) as [m|]; [now apply (IH r m a false tr0 v0)|]. injection E as <- _. auto. }
    destruct (match nested s with Some m => ncall' f r m a false | None => ([ESrc s a], Ok (src s a)) end) as [tr0 [v0|e|]] eqn:E;
      simpl in H; try discriminate.
    destruct (Hin tr0 v0 eq_refl) as [H1 [H2 H3]].
    destruct (apply' (p_comb (get_pipe r n)) (p_muts (get_pipe r n)) a tr0 v0) as [tr1 [v1|e|]] eqn:Ea; try discriminate.
    apply apply_ids in Ea. destruct Ea as [A1 [A2 A3]].
    destruct (post_applies (get_pipe r n) skip); injection H as <- _.
    - rewrite src_ids_app, mod_ids_app, post_ids_app, A1, A2, A3, H2, H3. simpl. rewrite !app_nil_r. auto.
    - rewrite A1, A2, A3, H2, H3, app_nil_r. auto.
  Qed.

  (* ---------- history, then call ---------- *)
    Theorem history_call_replace ops n s k a skip :
      first_producer n ops = Some (s, CReplace, k) ->
      let ms := mods_of n ops in
      let v := fold_left (fun x m => modr m a x) ms (src s a) in
      let applies := match k with PNone => false | _ => negb skip end in
      step' (fst (run' [] ops)) (Call n a skip) =
        (fst (run' [] ops),
         OCalled (ESrc s a :: rtrace a ms (src s a) ++ (if applies then [EPost k v] else []))
                 (if applies then post k v else Ok v)).
    Proof.
      intros Hf. cbv zeta. destruct (registry_history ops n) as [Hm [Hs _]]. rewrite Hf in Hs.
      destruct Hs as [Hs [Hc Hk]]. simpl.
      rewrite (call_replace _ s a skip Hs Hc). unfold post_events, post_value, post_applies.
      now rewrite Hm, Hk.
    Qed.

    Theorem history_call_list ops n s k a skip l0 :
      first_producer n ops = Some (s, CList, k) -> src s a = Many l0 ->
      let ms := mods_of n ops in
      let v := Many (l0 ++ map (fun m => modl m a) ms) in
      let applies := match k with PNone => false | _ => negb skip end in
      step' (fst (run' [] ops)) (Call n a skip) =
        (fst (run' [] ops),
         OCalled (ESrc s a :: map (fun m => EMod m a None) ms ++ (if applies then [EPost k v] else []))
                 (if applies then post k v else Ok v)).
    Proof.
      intros Hf Hl. cbv zeta. destruct (registry_history ops n) as [Hm [Hs _]]. rewrite Hf in Hs.
      destruct Hs as [Hs [Hc Hk]]. simpl.
      rewrite (call_list _ s a skip l0 Hs Hc Hl). unfold post_events, post_value, post_applies.
      now rewrite Hm, Hk.
    Qed.

    Theorem history_call_unsourced ops n a skip :
      first_producer n ops = None ->
      step' (fst (run' [] ops)) (Call n a skip) = (fst (run' [] ops), OCalled [] (Rejected EDynamicValue)).
    Proof.
      intros Hf. destruct (registry_history ops n) as [_ [Hs _]]. rewrite Hf in Hs. simpl.
      rewrite call_no_source; [reflexivity|]. unfold has_source. now rewrite Hs.
    Qed.
End G.

(* what was wrong with the truthiness test (finding F-Y, fixed in e7ddbc13) - statements about [OldTruthiness], the
   model of the code before the fix: with a source callable whose truth value is False, a second registration was
   answered with an error (ResourceError) AND replaced source, combiner and post-processor; and a pipeline whose only
   source was falsy refused every call *)
Theorem old_second_source_not_inert :
  exists (tr : Z -> bool) (r : registry) n s c k e,
    p_source (get_pipe r n) <> None /\
    OldTruthiness.old_register_producer tr r n s c k =
      (set_pipe r n {| p_source := Some s; p_muts := p_muts (get_pipe r n); p_comb := c; p_post := k |}, Some e) /\
    get_pipe (fst (OldTruthiness.old_register_producer tr r n s c k)) n <> get_pipe r n.
Proof.
  exists (fun _ => false), [(1, {| p_source := Some 10; p_muts := [20]; p_comb := CReplace; p_post := PNone |})],
    1, 11, CList, PUnion, EResource.
  vm_compute. repeat split; discriminate.
Qed.

Theorem old_sourced_call_refused :
  exists (tr : Z -> bool) p, p_source p <> None /\ OldTruthiness.old_call_refused tr p = true.
Proof.
  exists (fun _ => false), {| p_source := Some 10; p_muts := []; p_comb := CReplace; p_post := PNone |}.
  vm_compute. split; [discriminate | reflexivity].
Qed.

(* with truthy callables only, the old code is the new code *)
Theorem old_register_producer_truthy (tr : Z -> bool) r n s c k : (forall x, tr x = true) ->
  OldTruthiness.old_register_producer tr r n s c k =
    (fst (register_producer unit unit r n s c k),
     match snd (register_producer unit unit r n s c k) with ORejected e => Some e | _ => None end).
Proof.
  intros H. unfold OldTruthiness.old_register_producer, register_producer.
  destruct (p_source (get_pipe r n)) as [s0|]; [now rewrite H | reflexivity].
Qed.

(* ================================================================================================================ *)
(* Part 2 - arithmetic                                                                                              *)
(* ================================================================================================================ *)
Lemma year_pos : 0 < year_ns.
Proof. reflexivity. Qed.

Lemma qeq_refl x : qeq x x.
Proof. reflexivity. Qed.
Lemma qeq_sym x y : qeq x y -> qeq y x.
Proof. unfold qeq. intros H. now rewrite H. Qed.
Lemma qeq_trans x y z : qpos y -> qeq x y -> qeq y z -> qeq x z.
Proof.
  unfold qpos, qeq. destruct x as [a b], y as [c d], z as [e f]; simpl. intros Hd H1 H2.
  apply (Z.mul_reg_r _ _ d); [lia|].
  transitivity (a * d * f); [ring|]. rewrite H1. transitivity (c * f * b); [ring|]. rewrite H2. ring.
Qed.
Lemma qeqb_qeq x y : qeqb x y = true <-> qeq x y.
Proof. apply Z.eqb_eq. Qed.

Lemma qadd_pos x y : qpos x -> qpos y -> qpos (qadd x y).
Proof. unfold qpos, qadd. simpl. lia. Qed.
Lemma qmul_pos x y : qpos x -> qpos y -> qpos (qmul x y).
Proof. unfold qpos, qmul. simpl. lia. Qed.
Lemma qcompl_pos x : qpos x -> qpos (qcompl x).
Proof. unfold qpos, qcompl. simpl. lia. Qed.
Lemma rescale_pos v s : qpos v -> qpos (rescale_q v s).
Proof. unfold qpos, rescale_q. simpl. pose proof year_pos. lia. Qed.

(* ---------- rescale ---------- *)
(* the value IS rate * step / year *)
Lemma rescale_exact v s : rescale_q v s = qmul v (s, year_ns).
Proof. reflexivity. Qed.

Lemma rescale_value v s : fst (rescale_q v s) * (snd v * year_ns) = fst v * s * snd (rescale_q v s).
Proof. unfold rescale_q. simpl. ring. Qed.

Lemma rescale_linear a b v w s :
  qeq (rescale_q (qadd (qmul a v) (qmul b w)) s) (qadd (qmul a (rescale_q v s)) (qmul b (rescale_q w s))).
Proof. unfold qeq, rescale_q, qadd, qmul. cbn [fst snd]. ring. Qed.

Lemma rescale_step_additive v s1 s2 : qeq (rescale_q v (s1 + s2)) (qadd (rescale_q v s1) (rescale_q v s2)).
Proof. unfold qeq, rescale_q, qadd. cbn [fst snd]. ring. Qed.

Lemma rescale_zero_step v : qeq (rescale_q v 0) qzero.
Proof. unfold qeq, rescale_q, qzero. cbn [fst snd]. ring. Qed.

Lemma rescale_zero_rate v s : fst v = 0 -> qeq (rescale_q v s) qzero.
Proof. unfold qeq, rescale_q, qzero. cbn [fst snd]. intros ->. ring. Qed.

Lemma rescale_year v : qeq (rescale_q v year_ns) v.
Proof. unfold qeq, rescale_q. cbn [fst snd]. ring. Qed.

Lemma rescale_monotone_step v s1 s2 : qpos v -> 0 <= fst v -> s1 <= s2 -> qle (rescale_q v s1) (rescale_q v s2).
Proof.
  unfold qpos, qle, rescale_q. cbn [fst snd]. intros Hd Hn Hs. pose proof year_pos as Hy.
  assert (H : fst v * s1 <= fst v * s2) by (apply Z.mul_le_mono_nonneg_l; lia).
  assert (Hp : 0 <= snd v * year_ns) by lia.
  apply (Z.mul_le_mono_nonneg_r _ _ _ Hp) in H. exact H.
Qed.

(* element i of the result is simulant i's own rate times simulant i's own step, nothing else *)
Lemma rescale_vec_nth vs : forall steps i,
  nth_error (rescale_vec vs steps) i =
    match nth_error vs i, nth_error steps i with
    | Some v, Some s => Some (rescale_q v s)
    | _, _ => None
    end.
Proof.
  induction vs as [|v vr IH]; intros steps i.
  - simpl. destruct i; reflexivity.
  - destruct steps as [|s sr].
    + simpl. destruct i; simpl; [reflexivity|]. now destruct (nth_error vr i).
    + destruct i; simpl; [reflexivity | apply IH].
Qed.

Lemma rescale_vec_local vs vs' steps steps' i :
  nth_error vs i = nth_error vs' i -> nth_error steps i = nth_error steps' i ->
  nth_error (rescale_vec vs steps) i = nth_error (rescale_vec vs' steps') i.
Proof. intros H1 H2. now rewrite !rescale_vec_nth, H1, H2. Qed.

Lemma rescale_vec_length vs : forall steps, length vs = length steps -> length (rescale_vec vs steps) = length vs.
Proof.
  induction vs as [|v vr IH]; intros [|s sr] H; simpl in *; try reflexivity; try discriminate.
  f_equal. apply IH. now injection H.
Qed.

(* ---------- union ---------- *)
Definition cp_num (l : list q) : Z := fold_right (fun v acc => (snd v - fst v) * acc) 1 l.
Definition cp_den (l : list q) : Z := fold_right (fun v acc => snd v * acc) 1 l.

Lemma compl_fold l : forall pn pd,
  fold_left (fun p v => qmul p (qcompl v)) l (pn, pd) = (pn * cp_num l, pd * cp_den l).
Proof.
  induction l as [|v t IH]; intros pn pd; simpl.
  - now rewrite !Z.mul_1_r.
  - change (qmul (pn, pd) (qcompl v)) with (pn * (snd v - fst v), pd * snd v). rewrite IH. f_equal; ring.
Qed.

Lemma compl_product_eq l : compl_product l = (cp_num l, cp_den l).
Proof. unfold compl_product, qone. rewrite compl_fold. now rewrite !Z.mul_1_l. Qed.

(* the value IS one minus the product of the complements - also in the single-value shortcut *)
Lemma union_value l : qeq (union_q l) (qcompl (cp_num l, cp_den l)).
Proof.
  destruct l as [|a [|b t]]; unfold union_q; try (rewrite compl_product_eq; apply qeq_refl).
  unfold qeq, qcompl, cp_num, cp_den. cbn [fst snd fold_right]. ring.
Qed.

Lemma union_single v : union_q [v] = v.
Proof. reflexivity. Qed.

Lemma union_nil : union_q [] = (0, 1).
Proof. reflexivity. Qed.

Lemma cp_num_perm l l' : Permutation l l' -> cp_num l = cp_num l'.
Proof. induction 1; simpl; try congruence. ring. Qed.
Lemma cp_den_perm l l' : Permutation l l' -> cp_den l = cp_den l'.
Proof. induction 1; simpl; try congruence. ring. Qed.

(* order-independent: not merely equal as rationals, the very same pair *)
Lemma union_perm l l' : Permutation l l' -> union_q l = union_q l'.
Proof.
  intros H. pose proof (Permutation_length H) as HL.
  destruct l as [|a [|b t]].
  - apply Permutation_nil in H. now subst.
  - apply Permutation_length_1_inv in H. now subst.
  - destruct l' as [|a' [|b' t']]; try discriminate.
    unfold union_q. rewrite !compl_product_eq. now rewrite (cp_num_perm _ _ H), (cp_den_perm _ _ H).
Qed.

Definition prob (v : q) : Prop := 0 < snd v /\ 0 <= fst v <= snd v.     (* a value in [0, 1] *)

Lemma cp_range l : Forall prob l -> 0 <= cp_num l <= cp_den l /\ 0 < cp_den l.
Proof.
  induction 1 as [|v t [Hd [H0 H1]] _ [[IH0 IH1] IHd]]; simpl; [lia|].
  repeat split.
  - apply Z.mul_nonneg_nonneg; lia.
  - apply Z.mul_le_mono_nonneg; lia.
  - apply Z.mul_pos_pos; lia.
Qed.

Lemma union_pos l : Forall prob l -> qpos (union_q l).
Proof.
  intros H. destruct l as [|a [|b t]]; unfold union_q.
  - unfold qpos; simpl; lia.
  - inversion H as [|? ? [Hd _] _]; subst. exact Hd.
  - rewrite compl_product_eq. unfold qpos, qcompl. cbn [fst snd]. now destruct (cp_range _ H).
Qed.

Lemma union_range l : Forall prob l -> qle qzero (union_q l) /\ qle (union_q l) qone.
Proof.
  intros H. destruct l as [|a [|b t]]; unfold union_q.
  - unfold qle; simpl; lia.
  - inversion H as [|? ? [Hd [H0 H1]] _]; subst. unfold qle, qzero, qone; cbn [fst snd]; lia.
  - rewrite compl_product_eq. destruct (cp_range _ H) as [[H0 H1] Hd].
    unfold qle, qzero, qone, qcompl. cbn [fst snd]. lia.
Qed.

(* N*d <= (d-n)*D : the complement product is at most each single complement *)
Lemma cp_le_each l : Forall prob l -> forall v, In v l -> cp_num l * snd v <= (snd v - fst v) * cp_den l.
Proof.
  induction 1 as [|x t [Hd [H0 H1]] Ht IH]; intros v Hin; [contradiction|].
  destruct (cp_range _ Ht) as [[N0 N1] D0]. simpl. destruct Hin as [->|Hin].
  - transitivity ((snd v - fst v) * cp_den t * snd v).
    + rewrite <- Z.mul_assoc, <- Z.mul_assoc. apply Z.mul_le_mono_nonneg_l; [lia|].
      apply Z.mul_le_mono_nonneg_r; lia.
    + apply Z.eq_le_incl. ring.
  - specialize (IH v Hin).
    assert (Hv : 0 <= (snd v - fst v) * cp_den t).
    { eapply Z.le_trans; [|exact IH]. apply Z.mul_nonneg_nonneg; [lia|].
      apply Z.lt_le_incl. destruct (proj1 (Forall_forall prob t) Ht v Hin) as [G _]. exact G. }
    transitivity ((snd x - fst x) * ((snd v - fst v) * cp_den t)).
    + rewrite <- Z.mul_assoc. apply Z.mul_le_mono_nonneg_l; [lia | exact IH].
    + transitivity (snd x * ((snd v - fst v) * cp_den t)).
      * apply Z.mul_le_mono_nonneg_r; [exact Hv | lia].
      * apply Z.eq_le_incl. ring.
Qed.

Lemma union_ge_each l : Forall prob l -> forall v, In v l -> qle v (union_q l).
Proof.
  intros H v Hin. destruct l as [|a [|b t]]; [contradiction| |].
  - destruct Hin as [->|[]]. unfold union_q, qle. lia.
  - pose proof (cp_le_each _ H v Hin) as G. unfold union_q. rewrite compl_product_eq.
    unfold qle, qcompl. cbn [fst snd].
    set (N := cp_num (a :: b :: t)) in *. set (D := cp_den (a :: b :: t)) in *.
    replace ((D - N) * snd v) with (D * snd v - N * snd v) by ring.
    replace (fst v * D) with (D * snd v - (snd v - fst v) * D) by ring. lia.
Qed.

(* adding one more independent cause never lowers the joint probability *)
Lemma union_monotone l p : Forall prob l -> prob p -> qle (union_q l) (union_q (p :: l)).
Proof.
  intros H Hp. assert (H' : Forall prob (p :: l)) by now constructor.
  destruct l as [|a t].
  - destruct Hp as [Hd [H0 H1]]. unfold union_q, compl_product, qcompl, qone, qle; cbn [fst snd fold_left]. lia.
  - assert (In a (p :: a :: t)) as Hin by (simpl; auto).
    destruct t as [|b t].
    + now apply union_ge_each.
    + unfold union_q. rewrite !compl_product_eq. unfold qle, qcompl. cbn [fst snd].
      destruct (cp_range _ H) as [[N0 N1] D0]. destruct Hp as [Hd [H0 H1]].
      set (N := cp_num (a :: b :: t)) in *. set (D := cp_den (a :: b :: t)) in *.
      change (cp_num (p :: a :: b :: t)) with ((snd p - fst p) * N).
      change (cp_den (p :: a :: b :: t)) with (snd p * D).
      assert (G : (snd p - fst p) * N * D <= snd p * N * D).
      { apply Z.mul_le_mono_nonneg_r; [lia|]. apply Z.mul_le_mono_nonneg_r; lia. }
      replace ((D - N) * (snd p * D)) with (snd p * D * D - snd p * N * D) by ring.
      replace ((snd p * D - (snd p - fst p) * N) * D) with (snd p * D * D - (snd p - fst p) * N * D) by ring.
      lia.
Qed.

(* ---------- Series: element i of the union is the union of the elements i ---------- *)
Lemma union_atoms_nth l n i :
  (2 <= length l)%nat -> Forall (fun x => exists vs, x = Vec vs /\ length vs = n) l -> (i < n)%nat ->
  exists xs, union_atoms l = Vec xs /\ length xs = n /\ nth_error xs i = Some (union_q (map (atom_at i) l)).
Proof.
  intros HL HF Hi. destruct l as [|a [|b t]]; simpl in HL; try lia.
  unfold union_atoms.
  assert (E : first_len (a :: b :: t) = Some n).
  { inversion HF as [|? ? [vs [-> Hn]] _]; subst. reflexivity. }
  rewrite E. eexists. split; [reflexivity|]. split.
  - now rewrite map_length, seq_length.
  - rewrite nth_error_map. rewrite nth_error_nth' with (d := 0%nat); [|now rewrite seq_length].
    rewrite seq_nth; [|exact Hi]. reflexivity.
Qed.
