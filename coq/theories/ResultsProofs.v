(* Lemmas about the model of vivarium/framework/results (Results.v) - DESIGN.md C16.
   Everything is proved for ALL registries, observations, snapshots and event histories (no bounds). *)
From Viv Require Import Common Results.
From Coq Require Import Permutation Sorted.
Local Open Scope Z_scope.

(* ================================================================================================================
   sums
   ================================================================================================================ *)
Lemma sumZ_app {A} (f : A -> Z) l1 l2 : sumZ f (l1 ++ l2) = sumZ f l1 + sumZ f l2.
Proof. induction l1 as [|x r IH]; simpl; lia. Qed.

Lemma sumZ_ext {A} (f g : A -> Z) l : (forall x, In x l -> f x = g x) -> sumZ f l = sumZ g l.
Proof.
  induction l as [|x r IH]; intros H; simpl; [reflexivity|].
  rewrite (H x (or_introl eq_refl)), IH; [reflexivity|]. intros y Hy. apply H. now right.
Qed.

Lemma sumZ_zero {A} (f : A -> Z) l : (forall x, In x l -> f x = 0) -> sumZ f l = 0.
Proof.
  induction l as [|x r IH]; intros H; simpl; [reflexivity|].
  rewrite (H x (or_introl eq_refl)), IH; [reflexivity|]. intros y Hy. apply H. now right.
Qed.

Lemma sumZ_plus {A} (f g : A -> Z) l : sumZ (fun x => f x + g x) l = sumZ f l + sumZ g l.
Proof. induction l as [|x r IH]; simpl; lia. Qed.

Lemma sumZ_filter {A} (f : A -> Z) (p : A -> bool) l :
  sumZ f (filter p l) = sumZ (fun x => if p x then f x else 0) l.
Proof. induction l as [|x r IH]; simpl; [reflexivity|]. destruct (p x); simpl; lia. Qed.

Lemma sumZ_swap {A B} (g : A -> B -> Z) (la : list A) (lb : list B) :
  sumZ (fun b => sumZ (fun a => g a b) la) lb = sumZ (fun a => sumZ (fun b => g a b) lb) la.
Proof.
  induction la as [|a r IH]; simpl.
  - apply sumZ_zero. reflexivity.
  - rewrite sumZ_plus, IH. reflexivity.
Qed.

Lemma sumZ_map {A B} (f : B -> Z) (h : A -> B) l : sumZ f (map h l) = sumZ (fun x => f (h x)) l.
Proof. induction l as [|x r IH]; simpl; [reflexivity|]. now rewrite IH. Qed.

(* ================================================================================================================
   duplicates, membership
   ================================================================================================================ *)
Lemma znodupb_NoDup l : znodupb l = true -> NoDup l.
Proof.
  induction l as [|x r IH]; simpl; intros H; [constructor|].
  apply andb_true_iff in H as [H1 H2]. constructor; [|now apply IH].
  intros Hin. apply zmem_In in Hin. rewrite Hin in H1. discriminate.
Qed.

Lemma NoDup_filter {A} (p : A -> bool) l : NoDup l -> NoDup (filter p l).
Proof.
  induction l as [|x r IH]; simpl; intros H; [constructor|]. inversion H; subst.
  destruct (p x); [constructor|]; auto. intros Hin. apply filter_In in Hin. tauto.
Qed.

Lemma zlist_eqb_refl k : zlist_eqb k k = true.
Proof. now apply zlist_eqb_eq. Qed.

Lemma ocid_eqb_eq a b : ocid_eqb a b = true <-> a = b.
Proof.
  destruct a as [x|], b as [y|]; simpl; split; intro H; try discriminate; try reflexivity.
  - apply Z.eqb_eq in H. now subst.
  - inversion H; subst. apply Z.eqb_refl.
Qed.

Lemma cats_match_eq cats k : cats_match cats k = true <-> cats = map Some k.
Proof. unfold cats_match. apply list_eqb_eq. exact ocid_eqb_eq. Qed.

Lemma map_Some_inj (k k' : list cid) : map Some k = map Some k' -> k = k'.
Proof.
  revert k'; induction k as [|x r IH]; intros [|y s] H; simpl in H; try discriminate; [reflexivity|].
  inversion H; subst. f_equal. now apply IH.
Qed.

Lemma all_some_exists (cats : list (option cid)) : forallb is_some cats = true -> exists k, cats = map Some k.
Proof.
  induction cats as [|c r IH]; simpl; intros H; [now exists []|].
  apply andb_true_iff in H as [H1 H2]. destruct c as [x|]; [|discriminate].
  destruct (IH H2) as [k Hk]. exists (x :: k). simpl. now rewrite Hk.
Qed.

Lemma all_some_map_Some (k : list cid) : forallb is_some (map Some k) = true.
Proof. induction k; simpl; auto. Qed.

(* ================================================================================================================
   itertools.product
   ================================================================================================================ *)
Lemma product_In ls : forall k, In k (product ls) <-> Forall2 (fun c l => In c l) k ls.
Proof.
  induction ls as [|l r IH]; intros k; simpl.
  - split; [intros [H|[]]; subst; constructor | intros H; inversion H; now left].
  - rewrite in_flat_map. split.
    + intros [c [Hc Hk]]. apply in_map_iff in Hk as [k' [E Hk']]. subst. constructor; [assumption|now apply IH].
    + intros H. inversion H as [|c l' k' r' Hc Hk']; subst. exists c. split; [assumption|].
      apply in_map. now apply IH.
Qed.

Lemma NoDup_map_cons {A} (c : A) l : NoDup l -> NoDup (map (cons c) l).
Proof.
  induction l as [|x r IH]; simpl; intros H; [constructor|]. inversion H; subst.
  constructor; [|now apply IH]. intros Hin. apply in_map_iff in Hin as [y [E Hy]]. inversion E; subst. contradiction.
Qed.

Lemma NoDup_app_disjoint {A} (l1 l2 : list A) :
  NoDup l1 -> NoDup l2 -> (forall x, In x l1 -> ~ In x l2) -> NoDup (l1 ++ l2).
Proof.
  induction l1 as [|x r IH]; simpl; intros Hn1 Hn2 Hdis; [assumption|]. inversion Hn1; subst.
  constructor.
  - rewrite in_app_iff. intros [H|H]; [contradiction|]. apply (Hdis x); [now left|assumption].
  - apply IH; [assumption|assumption|]. intros y Hy. apply Hdis. now right.
Qed.

Lemma NoDup_flat_map_cons (l : list cid) (p : list stratum) :
  NoDup l -> NoDup p -> NoDup (flat_map (fun c => map (cons c) p) l).
Proof.
  induction l as [|c r IH]; simpl; intros Hl Hp; [constructor|]. inversion Hl; subst.
  apply NoDup_app_disjoint; [now apply NoDup_map_cons|now apply IH|].
  intros x Hx Hx'. apply in_map_iff in Hx as [y [E Hy]]. subst.
  apply in_flat_map in Hx' as [c' [Hc' Hx']]. apply in_map_iff in Hx' as [y' [E' _]]. inversion E'; subst. contradiction.
Qed.

Lemma product_NoDup ls : Forall (@NoDup cid) ls -> NoDup (product ls).
Proof.
  induction ls as [|l r IH]; intros H; simpl.
  - constructor; [intros []|constructor].
  - inversion H; subst. apply NoDup_flat_map_cons; auto.
Qed.

Lemma product_nil : product [] = [[]].
Proof. reflexivity. Qed.

(* ================================================================================================================
   one event, one observation: the pipeline of gather_results is the declarative increment
   ================================================================================================================ *)
Lemma aggregate_pipeline v k : aggregate (group k (dropna (vfilter v))) = increment v k.
Proof.
  unfold aggregate, group, dropna, vfilter, increment, contrib, eligible.
  rewrite !sumZ_filter. apply sumZ_ext. intros r _.
  destruct (v_pass r); simpl; [|now destruct (cats_match (v_cats r) k)].
  destruct (forallb is_some (v_cats r)); simpl; [|now destruct (cats_match (v_cats r) k)].
  reflexivity.
Qed.

(* context.gather_results + observation.get_complete_stratified_results on one event = increments, stratum by stratum *)
Lemma grouped_spec cs v : grouped cs (dropna (vfilter v)) = map (fun k => (k, increment v k)) (product cs).
Proof. unfold grouped. apply map_ext. intros k. now rewrite aggregate_pipeline. Qed.

Lemma increment_filter v k :
  increment v k = sumZ v_w (filter (fun r => eligible r && cats_match (v_cats r) k) v).
Proof. unfold increment, contrib. now rewrite sumZ_filter. Qed.

Lemma contrib_ineligible r k : eligible r = false -> contrib r k = 0.
Proof. unfold contrib. now intros ->. Qed.

Lemma contrib_own r k : eligible r = true -> v_cats r = map Some k -> contrib r k = v_w r.
Proof. unfold contrib. intros -> H. simpl. now rewrite (proj2 (cats_match_eq _ _) H). Qed.

Lemma contrib_other r k k' : v_cats r = map Some k -> k' <> k -> contrib r k' = 0.
Proof.
  unfold contrib. intros H Hne. destruct (cats_match (v_cats r) k') eqn:E; [|now rewrite andb_false_r].
  apply cats_match_eq in E. rewrite H in E. apply map_Some_inj in E. congruence.
Qed.

Lemma one_stratum (ks : list stratum) (k0 : stratum) (x : Z) (f : stratum -> Z) :
  NoDup ks -> In k0 ks -> f k0 = x -> (forall k, k <> k0 -> f k = 0) -> sumZ f ks = x.
Proof.
  induction ks as [|k r IH]; intros Hn Hin Hx Hz; simpl; [contradiction|]. inversion Hn; subst.
  destruct Hin as [E|Hin].
  - subst k. rewrite (sumZ_zero f r); [lia|]. intros y Hy. apply Hz. intros ->. contradiction.
  - rewrite (Hz k); [now rewrite IH|]. intros ->. contradiction.
Qed.

(* conservation: if every eligible row falls in a stratum of the (duplicate-free) key list, the increments over all
   strata add up to the aggregate over the eligible rows - each eligible row counted in exactly one stratum,
   ineligible rows in none *)
Lemma partition_gen (ks : list stratum) (v : list vrow) :
  NoDup ks ->
  (forall r, In r v -> eligible r = true -> exists k, In k ks /\ v_cats r = map Some k) ->
  sumZ (increment v) ks = eligible_total v.
Proof.
  intros Hn Hcov. unfold increment, eligible_total.
  rewrite sumZ_swap. apply sumZ_ext. intros r Hr.
  destruct (eligible r) eqn:He.
  - destruct (Hcov r Hr He) as [k0 [Hin Hc]].
    apply (one_stratum ks k0); auto; [now apply contrib_own | intros k Hk; now apply (contrib_other r k0)].
  - apply sumZ_zero. intros k _. now apply contrib_ineligible.
Qed.

(* ================================================================================================================
   registries: what add_stratification records
   ================================================================================================================ *)
Definition strat_ok (s : strat) : Prop := NoDup (s_cats s).
Definition regs_ok (regs : list strat) : Prop := Forall strat_ok regs.

(* the record an accepted request leaves behind *)
Definition strat_of (cfg : config) (q : sreq) : strat :=
  {| s_name := q_name q;
     s_cats := filter (fun c => negb (zmem c (resolve_excl cfg q))) (q_cats q);
     s_excl := resolve_excl cfg q;
     s_kind := kind_of q |}.

Lemma add_stratification_ok cfg regs q regs' :
  add_stratification cfg regs q = Ok regs' ->
  regs' = regs ++ [strat_of cfg q] /\ NoDup (q_cats q) /\ registered regs (q_name q) = false /\
  (forall c, In c (resolve_excl cfg q) -> In c (q_cats q)) /\ s_cats (strat_of cfg q) <> [].
Proof.
  unfold add_stratification. intros H.
  destruct (negb (binned_shape_ok q)); [discriminate|].
  destruct (existsb (fun s => s_name s =? q_name q) regs) eqn:Eex; [discriminate|].
  destruct (znodupb (q_cats q)) eqn:End; [|discriminate]. simpl in H.
  destruct (forallb (fun c => zmem c (q_cats q)) (resolve_excl cfg q)) eqn:Efa; [|discriminate]. simpl in H.
  destruct (match q_kind q with QDefault => negb (Nat.eqb (q_sources q) 1) | _ => false end); [discriminate|].
  destruct (is_nil (filter (fun c => negb (zmem c (resolve_excl cfg q))) (q_cats q))) eqn:Enil; [discriminate|].
  destruct (Nat.eqb (q_sources q) 0); [discriminate|].
  inversion H; subst. split; [reflexivity|]. split; [now apply znodupb_NoDup|]. split; [|split].
  - unfold registered. clear -Eex. induction regs as [|s r IH]; simpl in *; [reflexivity|].
    apply orb_false_iff in Eex as [E1 E2]. rewrite E1. now apply IH.
  - intros c Hc. rewrite forallb_forall in Efa. apply zmem_In. now apply Efa.
  - simpl. intros E. rewrite E in Enil. discriminate.
Qed.

Lemma add_stratification_refused_inert cfg regs q e :
  add_stratification cfg regs q = Rejected e -> build_regs cfg [q] regs = regs.
Proof. simpl. now intros ->. Qed.

Lemma strat_of_ok cfg q : NoDup (q_cats q) -> strat_ok (strat_of cfg q).
Proof. intros H. unfold strat_ok. simpl. now apply NoDup_filter. Qed.

Lemma build_regs_ok cfg qs : forall regs, regs_ok regs -> regs_ok (build_regs cfg qs regs).
Proof.
  induction qs as [|q r IH]; intros regs H; simpl; [assumption|].
  destruct (add_stratification cfg regs q) as [regs'| |] eqn:E; try now apply IH.
  apply IH. apply add_stratification_ok in E as [-> [Hn _]].
  apply Forall_app. split; [assumption|]. constructor; [now apply strat_of_ok|constructor].
Qed.

(* every recorded stratification comes from an accepted request: its categories are the requested ones minus the
   excluded ones (argument, else configuration), in the requested order *)
Lemma build_regs_origin cfg qs : forall regs s, In s (build_regs cfg qs regs) ->
  In s regs \/ exists q, In q qs /\ s = strat_of cfg q.
Proof.
  induction qs as [|q r IH]; intros regs s H; simpl in H; [now left|].
  destruct (add_stratification cfg regs q) as [regs'| |] eqn:E.
  - apply add_stratification_ok in E as [-> _]. destruct (IH _ _ H) as [Hin|[q' [Hq' Hs]]].
    + apply in_app_iff in Hin as [Hin|[Hin|[]]]; [now left|]. right. exists q. split; [now left|now symmetry].
    + right. exists q'. split; [now right|assumption].
  - destruct (IH _ _ H) as [Hin|[q' [Hq' Hs]]]; [now left|]. right. exists q'. split; [now right|assumption].
  - destruct (IH _ _ H) as [Hin|[q' [Hq' Hs]]]; [now left|]. right. exists q'. split; [now right|assumption].
Qed.

Lemma find_strat_In n regs s : find_strat n regs = Some s -> In s regs /\ s_name s = n.
Proof.
  induction regs as [|s' r IH]; simpl; [discriminate|].
  destruct (s_name s' =? n) eqn:E.
  - intros H. inversion H; subst. split; [now left|now apply Z.eqb_eq].
  - intros H. destruct (IH H). split; [now right|assumption].
Qed.

Lemma cats_of_name_NoDup regs n : regs_ok regs -> NoDup (cats_of_name regs n).
Proof.
  intros H. unfold cats_of_name. destruct (find_strat n regs) as [s|] eqn:E; [|constructor].
  apply find_strat_In in E as [Hin _]. unfold regs_ok in H. rewrite Forall_forall in H. now apply H.
Qed.

Lemma strata_NoDup regs o : regs_ok regs -> NoDup (strata regs o).
Proof.
  intros H. unfold strata. apply product_NoDup. apply Forall_forall. intros l Hl.
  apply in_map_iff in Hl as [n [<- _]]. now apply cats_of_name_NoDup.
Qed.

(* a mapped cell that is not NaN is one of the stratification's (non-excluded) categories *)
Lemma cat_of_in regs n r c : cat_of regs n r = Some c -> In c (cats_of_name regs n).
Proof.
  unfold cat_of, cats_of_name. destruct (find_strat n regs) as [s|]; [|discriminate].
  unfold classify. destruct (mapped_value s (raw_of n r)) as [v|]; [|discriminate].
  destruct (zmem v (s_cats s)) eqn:E.
  - intros H. inversion H; subst. now apply zmem_In.
  - destruct (zmem v (s_excl s)); discriminate.
Qed.

Lemma view_covered regs o ev r :
  In r (ev_view regs o ev) -> eligible r = true -> exists k, In k (strata regs o) /\ v_cats r = map Some k.
Proof.
  unfold ev_view. intros Hin He. apply in_map_iff in Hin as [row [<- _]].
  unfold eligible in He. apply andb_true_iff in He as [_ He]. simpl in *.
  destruct (all_some_exists _ He) as [k Hk]. exists k. split; [|assumption].
  unfold strata. apply product_In. revert k Hk. clear He.
  induction (o_strats o) as [|n ns IH]; intros k Hk; destruct k as [|c k]; simpl in Hk; try discriminate; [constructor|].
  inversion Hk as [[Hc Hk']]. constructor; [now apply (cat_of_in regs n row)|now apply IH].
Qed.

(* C16_partition, for one observation and one event of any registry built by registration attempts *)
Lemma partition_view regs o ev : regs_ok regs ->
  sumZ (increment (ev_view regs o ev)) (strata regs o) = eligible_total (ev_view regs o ev).
Proof.
  intros H. apply partition_gen; [now apply strata_NoDup|]. intros r Hr He. now apply (view_covered regs o ev).
Qed.

Lemma exactly_one_stratum regs o ev r : regs_ok regs -> In r (ev_view regs o ev) ->
  (eligible r = true ->
     exists k, In k (strata regs o) /\ contrib r k = v_w r /\ forall k', k' <> k -> contrib r k' = 0) /\
  (eligible r = false -> forall k, contrib r k = 0).
Proof.
  intros Hok Hr. split.
  - intros He. destruct (view_covered regs o ev r Hr He) as [k [Hk Hc]]. exists k. split; [assumption|]. split.
    + now apply contrib_own.
    + intros k' Hne. now apply (contrib_other r k).
  - intros He k. now apply contrib_ineligible.
Qed.

Lemma count_total regs o ev : o_kind o = OCount ->
  eligible_total (ev_view regs o ev) = Z.of_nat (length (filter eligible (ev_view regs o ev))).
Proof.
  intros Hk. unfold eligible_total, ev_view. induction (e_rows ev) as [|r rs IH]; simpl; [reflexivity|].
  rewrite IH. unfold weight at 1. rewrite Hk. destruct (eligible (v_of regs o r)); simpl length; lia.
Qed.

(* ================================================================================================================
   tables
   ================================================================================================================ *)
Lemma tlookup_map_keys (f : stratum -> Z) ks k : In k ks -> tlookup k (map (fun k' => (k', f k')) ks) = Some (f k).
Proof.
  induction ks as [|k' r IH]; simpl; intros H; [contradiction|].
  destruct (zlist_eqb k' k) eqn:E; [apply zlist_eqb_eq in E; now subst|].
  destruct H as [->|H]; [now rewrite zlist_eqb_refl in E|now apply IH].
Qed.

Lemma tlookup_add_results existing new k :
  tlookup k (add_results existing new) =
  option_map (fun x => x + match tlookup k new with Some y => y | None => 0 end) (tlookup k existing).
Proof.
  unfold add_results. induction existing as [|[k' x] r IH]; simpl; [reflexivity|].
  destruct (zlist_eqb k' k) eqn:E; [|exact IH]. apply zlist_eqb_eq in E. now subst.
Qed.

Lemma add_results_keys existing new : map fst (add_results existing new) = map fst existing.
Proof. unfold add_results. rewrite map_map. reflexivity. Qed.

Lemma concatenate_app old new : concatenate old new = old ++ new.
Proof. unfold concatenate. now destruct old. Qed.

Lemma is_nil_true {A} (l : list A) : is_nil l = true -> l = [].
Proof. destruct l; [reflexivity|discriminate]. Qed.

(* ================================================================================================================
   histories: the invariant "every table holds the sum of the increments of the events seen so far"
   ================================================================================================================ *)
Definition acc_inc (regs : list strat) (o : obs) (evs : list event) (k : stratum) : Z :=
  sumZ (fun ev => ev_increment regs o ev k) evs.
Definition acc_rows (o : obs) (cols : list nat) (evs : list event) : list crow := flat_map (ev_rows o cols) evs.

Definition tracks_one (regs : list strat) (evs : list event) (orr : obs * oresult) : Prop :=
  match o_kind (fst orr), snd orr with
  | OConcat cols, RCat rows => rows = acc_rows (fst orr) cols evs
  | OConcat _, RAdd _ => False
  | _, RAdd t => map fst t = strata regs (fst orr) /\
                 forall k, In k (strata regs (fst orr)) -> tlookup k t = Some (acc_inc regs (fst orr) evs k)
  | _, RCat _ => False
  end.
Definition tracks (regs : list strat) (st : state) (evs : list event) : Prop := Forall (tracks_one regs evs) st.

Lemma init_tracks regs os st : init regs os = Ok st -> tracks regs st [] /\ map fst st = os.
Proof.
  unfold init. destruct (forallb _ os); [|discriminate]. intros H. inversion H; subst. clear H. split.
  - unfold tracks. apply Forall_forall. intros orr Hin. apply in_map_iff in Hin as [o [<- _]].
    unfold tracks_one, init_one. simpl.
    destruct (o_kind o); simpl; try reflexivity;
      (split; [rewrite map_map; simpl; now rewrite map_id | intros k Hk; now rewrite (tlookup_map_keys (fun _ => 0))]).
  - rewrite map_map. simpl. now rewrite map_id.
Qed.

Lemma acc_inc_snoc regs o evs ev k : acc_inc regs o (evs ++ [ev]) k = acc_inc regs o evs k + ev_increment regs o ev k.
Proof. unfold acc_inc. rewrite sumZ_app. simpl. lia. Qed.

Lemma acc_rows_snoc o cols evs ev : acc_rows o cols (evs ++ [ev]) = acc_rows o cols evs ++ ev_rows o cols ev.
Proof. unfold acc_rows. rewrite flat_map_app. simpl. now rewrite app_nil_r. Qed.

Lemma increment_nil_pipeline v k : dropna (vfilter v) = [] -> increment v k = 0.
Proof. intros H. rewrite <- aggregate_pipeline, H. reflexivity. Qed.

(* one observation, one event of the right shape *)
Lemma update_one_tracks regs evs ev orr : e_rows ev <> [] \/ True ->
  tracks_one regs evs orr -> tracks_one regs (evs ++ [ev]) (fst orr, update_one regs ev (fst orr) (snd orr)).
Proof.
  intros _. destruct orr as [o res]. unfold tracks_one, update_one. simpl.
  destruct (e_phase ev =? o_phase o) eqn:Eph; simpl.
  2:{ (* another phase: nothing observed *)
      destruct (o_kind o) eqn:Ek; destruct res as [t|rows]; try tauto.
      - intros [Hk Hv]. split; [assumption|]. intros k Hin. rewrite acc_inc_snoc, (Hv k Hin).
        unfold ev_increment, observed. rewrite Eph. simpl. f_equal. lia.
      - intros [Hk Hv]. split; [assumption|]. intros k Hin. rewrite acc_inc_snoc, (Hv k Hin).
        unfold ev_increment, observed. rewrite Eph. simpl. f_equal. lia.
      - intros ->. rewrite acc_rows_snoc. unfold ev_rows, observed. rewrite Eph. simpl. now rewrite app_nil_r. }
  assert (Hadd : forall t, map fst t = strata regs o /\
                           (forall k, In k (strata regs o) -> tlookup k t = Some (acc_inc regs o evs k)) ->
     let res' := (let f := dropna (vfilter (ev_view regs o ev)) in
                  if is_nil f then RAdd t else if negb (zmem (o_name o) (e_obs ev)) then RAdd t
                  else RAdd (add_results t (grouped (map (cats_of_name regs) (o_strats o)) f))) in
     match res' with
     | RAdd t' => map fst t' = strata regs o /\
                  (forall k, In k (strata regs o) -> tlookup k t' = Some (acc_inc regs o (evs ++ [ev]) k))
     | RCat _ => False end).
  { intros t [Hk Hv]. cbv zeta.
    destruct (is_nil (dropna (vfilter (ev_view regs o ev)))) eqn:Enil.
    - split; [assumption|]. intros k Hin. rewrite acc_inc_snoc, (Hv k Hin). f_equal.
      unfold ev_increment. rewrite (increment_nil_pipeline _ k (is_nil_true _ Enil)). destruct (observed o ev); lia.
    - destruct (zmem (o_name o) (e_obs ev)) eqn:Eobs; simpl.
      + split; [now rewrite add_results_keys|]. intros k Hin.
        rewrite tlookup_add_results, (Hv k Hin), grouped_spec. simpl.
        fold (strata regs o). rewrite (tlookup_map_keys (increment (ev_view regs o ev))); [|assumption].
        rewrite acc_inc_snoc. unfold ev_increment, observed. now rewrite Eph, Eobs.
      + split; [assumption|]. intros k Hin. rewrite acc_inc_snoc, (Hv k Hin).
        unfold ev_increment, observed. rewrite Eph, Eobs. simpl. f_equal. lia. }
  destruct (o_kind o) eqn:Ek; destruct res as [t|rows]; try tauto.
  - intros H. exact (Hadd t H).
  - intros H. exact (Hadd t H).
  - intros ->. rewrite acc_rows_snoc. unfold ev_rows, observed. rewrite Eph. simpl.
    destruct (is_nil (filter (passes o) (e_rows ev))) eqn:Enil.
    + rewrite (is_nil_true _ Enil). simpl. destruct (zmem (o_name o) (e_obs ev)); now rewrite app_nil_r.
    + destruct (zmem (o_name o) (e_obs ev)); simpl; [now rewrite concatenate_app|now rewrite app_nil_r].
Qed.

(* an event with an empty population contributes nothing *)
Lemma empty_event_tracks regs evs ev orr : e_rows ev = [] ->
  tracks_one regs evs orr -> tracks_one regs (evs ++ [ev]) orr.
Proof.
  intros He. destruct orr as [o res]. unfold tracks_one. simpl.
  assert (Hz : forall k, ev_increment regs o ev k = 0).
  { intros k. unfold ev_increment, ev_view. rewrite He. simpl. now destruct (observed o ev). }
  destruct (o_kind o) eqn:Ek; destruct res as [t|rows]; try tauto.
  - intros [Hk Hv]. split; [assumption|]. intros k Hin. rewrite acc_inc_snoc, (Hv k Hin), Hz. f_equal. lia.
  - intros [Hk Hv]. split; [assumption|]. intros k Hin. rewrite acc_inc_snoc, (Hv k Hin), Hz. f_equal. lia.
  - intros ->. rewrite acc_rows_snoc. unfold ev_rows. rewrite He. simpl. destruct (observed o ev); now rewrite app_nil_r.
Qed.

Lemma step_accepted regs st ev st' evs : step regs st ev = (st', Accepted) -> tracks regs st evs ->
  tracks regs st' (evs ++ [ev]) /\ map fst st' = map fst st.
Proof.
  unfold step. destruct (is_nil (e_rows ev)) eqn:Enil.
  - intros H Ht. inversion H; subst. split; [|reflexivity].
    unfold tracks in *. rewrite Forall_forall in *. intros orr Hin.
    apply empty_event_tracks; [now apply is_nil_true|now apply Ht].
  - destruct (valid_event regs (e_rows ev)); simpl; [|discriminate]. intros H Ht. inversion H; subst. split.
    + unfold tracks in *. rewrite Forall_forall in *. intros orr Hin. apply in_map_iff in Hin as [orr0 [<- Hin0]].
      apply update_one_tracks; [now right|now apply Ht].
    + rewrite map_map. reflexivity.
Qed.

Lemma step_refused_inert regs st ev st' e : step regs st ev = (st', Refused e) -> st' = st.
Proof.
  unfold step. destruct (is_nil (e_rows ev)); [discriminate|].
  destruct (valid_event regs (e_rows ev)); simpl; [discriminate|]. intros H. now inversion H.
Qed.

(* the history actually observed: the accepted prefix of the event list *)
Fixpoint accepted_prefix (regs : list strat) (st : state) (evs : list event) : list event :=
  match evs with
  | [] => []
  | ev :: r => match step regs st ev with
               | (st', Accepted) => ev :: accepted_prefix regs st' r
               | (_, Refused _) => []
               end
  end.

Lemma run_tracks regs evs : forall st st' out pre0, run regs st evs = (st', out) -> tracks regs st pre0 ->
  tracks regs st' (pre0 ++ accepted_prefix regs st evs) /\ map fst st' = map fst st /\
  (out = Accepted -> accepted_prefix regs st evs = evs) /\
  (forall e, out = Refused e -> exists bad rest st1,
      evs = accepted_prefix regs st evs ++ bad :: rest /\ step regs st1 bad = (st1, Refused e) /\ st' = st1).
Proof.
  induction evs as [|ev r IH]; intros st st' out pre0 H Ht; simpl in *.
  - inversion H; subst. rewrite app_nil_r. repeat split; auto. intros e He. discriminate.
  - destruct (step regs st ev) as [st1 o1] eqn:Es. destruct o1 as [|e1].
    + destruct (step_accepted _ _ _ _ _ Es Ht) as [Ht1 Hk1].
      destruct (IH _ _ _ _ H Ht1) as [A [B [C D]]]. rewrite <- app_assoc in A. simpl in A.
      split; [assumption|]. split; [congruence|]. split.
      * intros Ho. now rewrite (C Ho).
      * intros e He. destruct (D e He) as [bad [rest [st2 [E1 [E2 E3]]]]].
        exists bad, rest, st2. split; [simpl; now rewrite <- E1|]. now split.
    + inversion H; subst. pose proof (step_refused_inert _ _ _ _ _ Es) as ->. rewrite app_nil_r.
      split; [assumption|]. split; [reflexivity|]. split; [discriminate|].
      intros e He. inversion He; subst. exists ev, r, st. simpl. now repeat split.
Qed.

(* ================================================================================================================
   unknown categories
   ================================================================================================================ *)
Lemma has_unknown_invalid regs rows : has_unknown regs rows = true -> valid_event regs rows = false.
Proof.
  unfold has_unknown, valid_event. intros H. apply existsb_exists in H as [r [Hr H]].
  apply existsb_exists in H as [s [Hs H]]. apply andb_false_iff. right.
  destruct (forallb (fun r0 => forallb (fun s0 => class_ok s0 r0) regs) rows) eqn:E; [|reflexivity].
  rewrite forallb_forall in E. specialize (E r Hr). rewrite forallb_forall in E. specialize (E s Hs).
  rewrite E in H. discriminate.
Qed.

Lemma has_unknown_spec regs rows : has_unknown regs rows = true <->
  exists r s, In r rows /\ In s regs /\ exists e, classify s (raw_of (s_name s) r) = Rejected e.
Proof.
  unfold has_unknown. rewrite existsb_exists. split.
  - intros [r [Hr H]]. apply existsb_exists in H as [s [Hs H]]. exists r, s. repeat split; auto.
    unfold class_ok in H. destruct (classify s (raw_of (s_name s) r)) as [c|e|] eqn:E; try discriminate.
    + now exists e.
    + unfold classify in E. destruct (mapped_value s (raw_of (s_name s) r)) as [z|]; [|discriminate].
      destruct (zmem z (s_cats s)); [discriminate|]. destruct (zmem z (s_excl s)); discriminate.
  - intros [r [s [Hr [Hs [e He]]]]]. exists r. split; [assumption|]. apply existsb_exists. exists s. split; [assumption|].
    unfold class_ok. now rewrite He.
Qed.

Lemma classify_rejected s raw e : classify s raw = Rejected e ->
  e = EOther /\ (mapped_value s raw = None \/
                 exists v, mapped_value s raw = Some v /\ ~ In v (s_cats s) /\ ~ In v (s_excl s)).
Proof.
  unfold classify. destruct (mapped_value s raw) as [v|].
  - destruct (zmem v (s_cats s)) eqn:E1; [discriminate|]. destruct (zmem v (s_excl s)) eqn:E2; [discriminate|].
    intros H. inversion H. split; [reflexivity|]. right. exists v. split; [reflexivity|].
    split; intros Hin; apply zmem_In in Hin; congruence.
  - intros H. inversion H. split; [reflexivity|now left].
Qed.

Lemma unknown_step regs st ev : has_unknown regs (e_rows ev) = true -> step regs st ev = (st, Refused EOther).
Proof.
  intros H. unfold step. destruct (e_rows ev) as [|r rs] eqn:E; [discriminate|]. simpl is_nil. cbv iota.
  now rewrite (has_unknown_invalid _ _ H).
Qed.

Lemma unknown_run regs st ev rest : has_unknown regs (e_rows ev) = true ->
  run regs st (ev :: rest) = (st, Refused EOther).
Proof. intros H. simpl. now rewrite (unknown_step regs st ev H). Qed.

(* ================================================================================================================
   _get_stratifications: sorted(list(set(...) - set(...))) does not depend on the set's iteration order
   ================================================================================================================ *)
Lemma insert_perm x l : Permutation (x :: l) (insert x l).
Proof.
  induction l as [|y r IH]; simpl; [apply Permutation_refl|].
  destruct (x <=? y); [apply Permutation_refl|].
  eapply perm_trans; [apply perm_swap|]. now apply perm_skip.
Qed.

Lemma isort_perm l : Permutation l (isort l).
Proof.
  induction l as [|x r IH]; simpl; [constructor|].
  eapply perm_trans; [apply perm_skip, IH|apply insert_perm].
Qed.

Lemma insert_sorted x l : StronglySorted Z.le l -> StronglySorted Z.le (insert x l).
Proof.
  induction l as [|y r IH]; simpl; intros H; [repeat constructor|].
  inversion H as [|? ? Hs Hf]; subst. destruct (x <=? y) eqn:E.
  - apply Z.leb_le in E. constructor; [assumption|]. constructor; [assumption|].
    eapply Forall_impl; [|exact Hf]. intros a Ha. simpl in Ha. lia.
  - apply Z.leb_gt in E. constructor; [now apply IH|].
    apply (Permutation_Forall (insert_perm x r)). constructor; [lia|assumption].
Qed.

Lemma isort_sorted l : StronglySorted Z.le (isort l).
Proof. induction l as [|x r IH]; simpl; [constructor|now apply insert_sorted]. Qed.

Lemma sorted_perm_unique l1 : forall l2, StronglySorted Z.le l1 -> StronglySorted Z.le l2 -> Permutation l1 l2 -> l1 = l2.
Proof.
  induction l1 as [|x r IH]; intros l2 H1 H2 Hp.
  - apply Permutation_nil in Hp. now subst.
  - destruct l2 as [|y s]; [apply Permutation_sym, Permutation_nil in Hp; discriminate|].
    inversion H1 as [|? ? Hs1 Hf1]; subst. inversion H2 as [|? ? Hs2 Hf2]; subst.
    assert (Hxy : x = y).
    { assert (Hx : In x (y :: s)) by (apply (Permutation_in _ Hp); now left).
      assert (Hy : In y (x :: r)) by (apply (Permutation_in _ (Permutation_sym Hp)); now left).
      rewrite Forall_forall in Hf1, Hf2. destruct Hx as [->|Hx]; [reflexivity|]. destruct Hy as [->|Hy]; [reflexivity|].
      specialize (Hf1 _ Hy). specialize (Hf2 _ Hx). lia. }
    subst y. f_equal. apply IH; auto. now apply Permutation_cons_inv in Hp.
Qed.

Lemma resolve_perm_invariant iter1 iter2 : Permutation iter1 iter2 -> resolve iter1 = resolve iter2.
Proof.
  intros Hp. unfold resolve. apply sorted_perm_unique; try apply isort_sorted.
  eapply perm_trans; [apply Permutation_sym, isort_perm|]. eapply perm_trans; [exact Hp|apply isort_perm].
Qed.

Lemma zdedup_In x l : In x (zdedup l) <-> In x l.
Proof.
  induction l as [|y r IH]; simpl; [tauto|]. destruct (zmem y r) eqn:E.
  - rewrite IH. split; [now right|]. intros [->|H]; [now apply zmem_In|assumption].
  - simpl. rewrite IH. tauto.
Qed.

Lemma zdedup_NoDup l : NoDup (zdedup l).
Proof.
  induction l as [|y r IH]; simpl; [constructor|]. destruct (zmem y r) eqn:E; [assumption|].
  constructor; [|assumption]. rewrite zdedup_In. intros H. apply zmem_In in H. congruence.
Qed.

Lemma spec_set_In d r a e x : In x (spec_set d r a e) <-> (In x d \/ In x r \/ In x a) /\ ~ In x e.
Proof.
  unfold spec_set. rewrite filter_In, zdedup_In, !in_app_iff, negb_true_iff. split.
  - intros [H1 H2]. split; [assumption|]. intros H. apply zmem_In in H. congruence.
  - intros [H1 H2]. split; [assumption|]. destruct (zmem x e) eqn:E; [|reflexivity]. apply zmem_In in E. contradiction.
Qed.

Lemma spec_set_NoDup d r a e : NoDup (spec_set d r a e).
Proof. unfold spec_set. apply NoDup_filter, zdedup_NoDup. Qed.

Lemma sorted_strict l : StronglySorted Z.le l -> NoDup l -> StronglySorted Z.lt l.
Proof.
  induction l as [|x r IH]; intros Hs Hn; [constructor|]. inversion Hs as [|? ? Hs' Hf]; subst. inversion Hn; subst.
  constructor; [now apply IH|]. rewrite Forall_forall in *. intros y Hy. specialize (Hf y Hy).
  assert (x <> y) by (intros ->; contradiction). lia.
Qed.

(* ================================================================================================================
   packaged statements (exposed by props/C16.v)
   ================================================================================================================ *)
Lemma init_shape regs os st : init regs os = Ok st -> st = map (fun o => (o, init_one regs o)) os.
Proof. unfold init. destruct (forallb _ os); [|discriminate]. intros H. now inversion H. Qed.

Lemma partition_full cfg qs o ev :
  let regs := build_regs cfg qs [] in
  let v := ev_view regs o ev in
  sumZ (increment v) (strata regs o) = eligible_total v /\
  (forall k, increment v k = sumZ v_w (filter (fun r => eligible r && cats_match (v_cats r) k) v)) /\
  (forall r, In r v ->
     (eligible r = true ->
        exists k, In k (strata regs o) /\ contrib r k = v_w r /\ forall k', k' <> k -> contrib r k' = 0) /\
     (eligible r = false -> forall k, contrib r k = 0)) /\
  (o_kind o = OCount -> eligible_total v = Z.of_nat (length (filter eligible v))) /\
  grouped (map (cats_of_name regs) (o_strats o)) (dropna (vfilter v)) = map (fun k => (k, increment v k)) (strata regs o).
Proof.
  cbv zeta. assert (Hok : regs_ok (build_regs cfg qs [])) by (apply build_regs_ok; constructor).
  split; [now apply partition_view|]. split; [intros k; apply increment_filter|].
  split; [intros r Hr; now apply (exactly_one_stratum _ o ev)|]. split; [apply count_total|apply grouped_spec].
Qed.

Lemma total_is_sum_full regs os st0 evs st out :
  init regs os = Ok st0 -> run regs st0 evs = (st, out) ->
  let seen := accepted_prefix regs st0 evs in
  (out = Accepted -> seen = evs) /\
  (forall e, out = Refused e -> exists bad rest, evs = seen ++ bad :: rest /\ step regs st bad = (st, Refused e)) /\
  map fst st = os /\
  forall o res, In (o, res) st ->
    match o_kind o, res with
    | OConcat cols, RCat rows => rows = flat_map (ev_rows o cols) seen
    | OConcat _, RAdd _ => False
    | _, RAdd t => map fst t = strata regs o /\
                   forall k, In k (strata regs o) -> tlookup k t = Some (sumZ (fun ev => ev_increment regs o ev k) seen)
    | _, RCat _ => False
    end.
Proof.
  intros Hi Hr. cbv zeta. destruct (init_tracks _ _ _ Hi) as [Ht0 Hos].
  destruct (run_tracks regs evs _ _ _ [] Hr Ht0) as [A [B [C D]]]. simpl in A.
  split; [assumption|]. split.
  - intros e He. destruct (D e He) as [bad [rest [st1 [E1 [E2 E3]]]]]. subst st1. now exists bad, rest.
  - split; [congruence|]. intros o res Hin. unfold tracks in A. rewrite Forall_forall in A.
    specialize (A _ Hin). unfold tracks_one in A. simpl in A. exact A.
Qed.

Lemma full_index cfg qs os st0 evs st out :
  let regs := build_regs cfg qs [] in
  init regs os = Ok st0 -> run regs st0 evs = (st, out) ->
  forall o res, In (o, res) st -> uses_strats o = true ->
  exists t, res = RAdd t /\ map fst t = strata regs o /\ NoDup (map fst t) /\
            In (o, RAdd (map (fun k => (k, 0)) (strata regs o))) st0 /\
            (forall k, In k (strata regs o) <-> Forall2 (fun c n => In c (cats_of_name regs n)) k (o_strats o)) /\
            (o_strats o = [] -> strata regs o = [[]]).
Proof.
  cbv zeta. intros Hi Hr o res Hin Hu.
  destruct (total_is_sum_full _ _ _ _ _ _ Hi Hr) as [_ [_ [Hos Hall]]]. specialize (Hall _ _ Hin).
  assert (Hok : regs_ok (build_regs cfg qs [])) by (apply build_regs_ok; constructor).
  assert (Ho : In o os) by (rewrite <- Hos; apply (in_map fst _ _ Hin)).
  assert (H0 : In (o, RAdd (map (fun k => (k, 0)) (strata (build_regs cfg qs []) o))) st0).
  { rewrite (init_shape _ _ _ Hi). apply in_map_iff. exists o. split; [|assumption]. f_equal.
    unfold init_one. unfold uses_strats in Hu. destruct (o_kind o); try reflexivity. discriminate. }
  assert (Hkeys : forall k, In k (strata (build_regs cfg qs []) o) <->
                            Forall2 (fun c n => In c (cats_of_name (build_regs cfg qs []) n)) k (o_strats o)).
  { intros k. unfold strata. rewrite product_In. generalize (o_strats o). clear. intros ns. revert k.
    induction ns as [|n r IH]; intros k; simpl; split; intros H; inversion H; subst; constructor; auto; now apply IH. }
  assert (Hnil : o_strats o = [] -> strata (build_regs cfg qs []) o = [[]]) by (unfold strata; now intros ->).
  unfold uses_strats in Hu. destruct (o_kind o) eqn:Ek; try discriminate; destruct res as [t|rows]; try contradiction;
    destruct Hall as [Hk _]; exists t; (split; [reflexivity|]); (split; [assumption|]);
    (split; [rewrite Hk; now apply strata_NoDup|]); auto.
Qed.

Lemma categories_origin cfg qs s : In s (build_regs cfg qs []) ->
  exists q, In q qs /\ s_name s = q_name q /\ s_excl s = resolve_excl cfg q /\
            s_cats s = filter (fun c => negb (zmem c (resolve_excl cfg q))) (q_cats q) /\ NoDup (s_cats s).
Proof.
  intros H. assert (Hok : regs_ok (build_regs cfg qs [])) by (apply build_regs_ok; constructor).
  destruct (build_regs_origin _ _ _ _ H) as [[]|[q [Hq ->]]]. exists q. repeat split; auto.
  unfold regs_ok in Hok. rewrite Forall_forall in Hok. exact (Hok _ H).
Qed.

Lemma resolution_full d r a e iter : Permutation iter (spec_set d r a e) ->
  resolve iter = isort (spec_set d r a e) /\ StronglySorted Z.lt (resolve iter) /\
  forall x, In x (resolve iter) <-> (In x d \/ In x r \/ In x a) /\ ~ In x e.
Proof.
  intros Hp. split; [now apply resolve_perm_invariant|]. split.
  - apply sorted_strict; [apply isort_sorted|].
    apply (Permutation_NoDup (l := spec_set d r a e)); [|apply spec_set_NoDup].
    eapply perm_trans; [apply Permutation_sym, Hp|apply isort_perm].
  - intros x. rewrite <- spec_set_In. unfold resolve. split; intros H.
    + apply (Permutation_in _ Hp). apply (Permutation_in _ (Permutation_sym (isort_perm iter))). exact H.
    + apply (Permutation_in _ (isort_perm iter)). apply (Permutation_in _ (Permutation_sym Hp)). exact H.
Qed.
