(* Model of the context methods of engine.py / interactive.py as scripts of life-cycle requests and emissions
   (DESIGN.md C06).  A context method is, for the purposes of C06, the sequence of `set_state` declarations it
   makes and the events it emits in between; the scripts themselves are NOT written here: they are recorded from
   the live code on every run (generated/EngineTable_C06.v) and the theorems of EngineProofs.v are instantiated
   on them.                                                                                                     *)
From Viv Require Import Common Lifecycle.
Local Open Scope Z_scope.

Inductive action := SetState (s : sid) | Emit (e : sid).
Definition script := list action.

(* run a script; the first refused declaration aborts the method (the exception propagates) *)
Fixpoint run_script (m : manager) (sc : script) (em : list (sid * sid)) : manager * outcome * list (sid * sid) :=
  match sc with
  | [] => (m, Accepted, em)
  | SetState s :: r =>
      match set_state m s with
      | (m', Accepted) => run_script m' r em
      | (m', Refused e) => (m', Refused e, em)
      end
  | Emit e :: r => run_script m r (em ++ [(e, cur m)])       (* event e emitted while in state [cur m] *)
  end.

Definition do_call (m : manager) (sc : script) : manager := fst (fst (run_script m sc [])).
Definition do_calls (m : manager) (scs : list script) : manager := fold_left do_call scs m.

Definition at_state (L : lifecycle) (s : sid) : manager := {| lc := L; cur := s; entered := [] |}.

Definition is_accepted (o : outcome) : bool := match o with Accepted => true | _ => false end.

(* a call is atomic from state s: either its first action is a refused declaration, or everything is accepted *)
Definition first_refused (L : lifecycle) (s : sid) (sc : script) : bool :=
  match sc with
  | SetState x :: _ => negb (is_accepted (snd (set_state (at_state L s) x)))
  | _ => false
  end.
Definition all_accepted (L : lifecycle) (s : sid) (sc : script) : bool :=
  is_accepted (snd (fst (run_script (at_state L s) sc []))).
Definition atomicb (L : lifecycle) (s : sid) (sc : script) : bool := all_accepted L s sc || first_refused L s sc.

Definition atomic_table (L : lifecycle) (scs : list script) : bool :=
  forallb (fun s => forallb (atomicb L s) scs) (states_of L).

(* every event is emitted while the life cycle is in the state of the same name *)
Definition own_stateb (L : lifecycle) (s : sid) (sc : script) : bool :=
  forallb (fun p => fst p =? snd p) (snd (run_script (at_state L s) sc [])).
Definition own_state_table (L : lifecycle) (scs : list script) : bool :=
  forallb (fun s => forallb (own_stateb L s) scs) (states_of L).

(* a script that, whenever accepted, ends in a state from which it is accepted again and ends in the same state:
   what makes `run` = step^n atomic for every n *)
Definition repeatableb (L : lifecycle) (sc : script) : bool :=
  forallb (fun s =>
    match run_script (at_state L s) sc [] with
    | (m1, Accepted, _) =>
        match run_script (at_state L (cur m1)) sc [] with
        | (m2, Accepted, _) => cur m2 =? cur m1
        | _ => false
        end
    | _ => true
    end) (states_of L).

Fixpoint repeat_script (sc : script) (n : nat) : script :=
  match n with O => [] | S k => sc ++ repeat_script sc k end.

(* ---- correspondence: the exhaustive state x method table (one row per cell) ----
   row = (state before, script of the method as recorded, observed: 0 = returned normally / 1 = raised (any class: the
   property only says "raises an error"; e.g. step() before setup fails on the unset clock before it declares anything),
   state after, emitted events) *)
Definition cell := (sid * script * Z * sid * list sid)%type.
Definition check_cell (L : lifecycle) (c : cell) : bool :=
  let '(s, sc, code, s', evs) := c in
  let '(m', o, em) := run_script (at_state L s) sc [] in
  ((if is_accepted o then 0 else 1) =? code) && (cur m' =? s') && zlist_eqb (map fst em) evs.
