(* C09 - lemmas about the resource model (Resources.v): the order produced respects the declared requirements,
   refusals, unmet requirements only warn, the checker is sound. *)
From Coq Require Import Permutation Arith.
From Viv Require Import Common Kahn KahnProofs Resources.
Local Open Scope Z_scope.

(* ================================================================================================================ *)
(* A. boolean equalities                                                                                           *)
(* ================================================================================================================ *)
Lemma mname_eqb_eq a b : mname_eqb a b = true <-> a = b.
Proof.
  destruct a, b; simpl; split; intro H; try discriminate; try reflexivity;
    try (apply Z.eqb_eq in H; now subst); try (inversion H; subst; apply Z.eqb_refl).
Qed.

Lemma res_eqb_eq a b : res_eqb a b = true <-> a = b.
Proof.
  destruct a, b; simpl; split; intro H; try discriminate; try reflexivity;
    try (apply Z.eqb_eq in H; now subst); try (inversion H; subst; apply Z.eqb_refl).
  - apply andb_true_iff in H as [H H3]. apply andb_true_iff in H as [H1 H2].
    apply Z.eqb_eq in H1, H2. apply mname_eqb_eq in H3. now subst.
  - inversion H; subst. rewrite !Z.eqb_refl. simpl. now apply mname_eqb_eq.
Qed.

Lemma res_eqb_refl a : res_eqb a a = true.
Proof. now apply res_eqb_eq. Qed.

Lemma rmem_In r l : rmem r l = true <-> In r l.
Proof.
  unfold rmem. rewrite existsb_exists. split.
  - intros [y [Hy E]]. apply res_eqb_eq in E. now subst.
  - intros H. exists r. split; [assumption | apply res_eqb_refl].
Qed.

Lemma rmem_false r l : rmem r l = false <-> ~ In r l.
Proof. rewrite <- rmem_In. destruct (rmem r l); split; congruence. Qed.

Lemma zmem_false x l : zmem x l = false <-> ~ In x l.
Proof. rewrite <- zmem_In. destruct (zmem x l); split; congruence. Qed.

Lemma edge_eqb_eq a b : edge_eqb a b = true <-> a = b.
Proof.
  destruct a as [a1 a2], b as [b1 b2]. unfold edge_eqb. simpl. rewrite andb_true_iff, !res_eqb_eq.
  split; [intros [-> ->]; reflexivity | intros [= -> ->]; auto].
Qed.

Lemma emem_In e l : existsb (edge_eqb e) l = true <-> In e l.
Proof.
  rewrite existsb_exists. split.
  - intros [y [Hy E]]. apply edge_eqb_eq in E. now subst.
  - intros H. exists e. split; [assumption | now apply edge_eqb_eq].
Qed.

Lemma dedup_In e : forall l seen, In e (dedup seen l) <-> In e l /\ ~ In e seen.
Proof.
  induction l as [|x r IH]; intros seen; simpl; [tauto|].
  destruct (existsb (edge_eqb x) seen) eqn:E.
  - rewrite IH. apply emem_In in E. split; [tauto|]. intros [[->|H] Hn]; [contradiction|tauto].
  - simpl. rewrite IH. simpl.
    assert (Hx : ~ In x seen) by (rewrite <- emem_In; congruence).
    split.
    + intros [->|[H Hn]]; [tauto|]. split; [tauto|]. intro Hs. apply Hn. now right.
    + intros [[->|H] Hn]; [now left|].
      destruct (edge_eqb x e) eqn:Ee; [apply edge_eqb_eq in Ee; now left|].
      right. split; [exact H|]. intros [->|Hs]; [|contradiction].
      assert (edge_eqb e e = true) by now apply edge_eqb_eq. congruence.
Qed.

Lemma edges_of_In gs e : In e (edges_of gs) <-> In e (raw_edges gs).
Proof. unfold edges_of. rewrite dedup_In. simpl. tauto. Qed.

(* ================================================================================================================ *)
(* B. groups: every resource has one producer; the graph is well formed                                            *)
(* ================================================================================================================ *)
Definition all_names (gs : list group) : list res := flat_map g_names gs.
Definition uniq (gs : list group) : Prop := NoDup (all_names gs) /\ Forall (fun g => g_names g <> []) gs.

Lemma owned_In gs r : owned gs r = true <-> In r (all_names gs).
Proof.
  unfold owned, all_names. rewrite existsb_exists, in_flat_map. split.
  - intros [g [Hg Hr]]. exists g. split; [exact Hg|]. now apply rmem_In.
  - intros [g [Hg Hr]]. exists g. split; [exact Hg|]. now apply rmem_In.
Qed.

Lemma has_dup_false l : has_dup l = false -> NoDup l.
Proof.
  induction l as [|x r IH]; simpl; intros H; [constructor|].
  apply orb_false_iff in H as [H1 H2]. constructor; [now apply rmem_false | now apply IH].
Qed.

Lemma has_dup_true l : has_dup l = true -> ~ NoDup l.
Proof.
  induction l as [|x r IH]; simpl; intros H Hn; [discriminate|].
  inversion Hn; subst. apply orb_true_iff in H as [H|H]; [apply rmem_In in H; contradiction | now apply IH].
Qed.

Lemma nodup_app_intro (A : Type) (l1 l2 : list A) :
  NoDup l1 -> NoDup l2 -> (forall x, In x l1 -> ~ In x l2) -> NoDup (l1 ++ l2).
Proof.
  induction l1 as [|a l1 IH]; simpl; intros H1 H2 Hd; [exact H2|].
  inversion H1; subst. constructor.
  - intro Hi. apply in_app_or in Hi as [Hi|Hi]; [contradiction|]. apply (Hd a); auto.
  - apply IH; auto.
Qed.

Lemma all_names_app gs gs' : all_names (gs ++ gs') = all_names gs ++ all_names gs'.
Proof. unfold all_names. now rewrite flat_map_app. Qed.

Lemma add_group_ok gs names p d gs' :
  add_group gs names p d = Ok gs' ->
  gs' = gs ++ [mkgroup names p d] /\ NoDup names /\ (forall r, In r names -> ~ In r (all_names gs)).
Proof.
  unfold add_group, clash. destruct (existsb (owned gs) names) eqn:E1; simpl; [discriminate|].
  destruct (has_dup names) eqn:E2; [discriminate|]. intros [= <-]. split; [reflexivity|]. split.
  - now apply has_dup_false.
  - intros r Hr Hin. apply owned_In in Hin.
    assert (existsb (owned gs) names = true) by (apply existsb_exists; eauto). congruence.
Qed.

Lemma add_group_uniq gs names p d gs' :
  uniq gs -> names <> [] -> add_group gs names p d = Ok gs' -> uniq gs'.
Proof.
  intros [Hn Hf] Hne H. apply add_group_ok in H as [-> [Hnd Hfresh]]. split.
  - rewrite all_names_app. apply nodup_app_intro; auto.
    + unfold all_names. simpl. now rewrite app_nil_r.
    + intros x Hx Hin. unfold all_names in Hin. simpl in Hin. rewrite app_nil_r in Hin. now apply (Hfresh x).
  - apply Forall_app. split; [exact Hf|]. constructor; [exact Hne|constructor].
Qed.

Lemma add_group_error gs names p d e : add_group gs names p d = Rejected e -> e = EResource.
Proof. unfold add_group. destruct (clash gs names); [now intros [= <-]|discriminate]. Qed.

Lemma add_group_fuel gs names p d : add_group gs names p d <> OutOfFuel.
Proof. unfold add_group. destruct (clash gs names); discriminate. Qed.

Lemma key_in_names g : g_names g <> [] -> In (key g) (g_names g).
Proof. unfold key. destruct (g_names g); [congruence|simpl; auto]. Qed.

Lemma owner_some gs r k : owner gs r = Some k -> exists g, In g gs /\ In r (g_names g) /\ k = key g.
Proof.
  unfold owner. destruct (find (fun g => rmem r (g_names g)) gs) as [g|] eqn:E; [|discriminate].
  intros [= <-]. apply find_some in E as [Hg Hr]. exists g. split; [exact Hg|]. split; [now apply rmem_In|reflexivity].
Qed.

Lemma owner_of gs : NoDup (all_names gs) -> forall g r, In g gs -> In r (g_names g) -> owner gs r = Some (key g).
Proof.
  unfold owner. induction gs as [|g0 gs IH]; intros Hn g r Hg Hr; [contradiction|].
  simpl. unfold all_names in Hn. simpl in Hn.
  destruct (rmem r (g_names g0)) eqn:E.
  - destruct Hg as [->|Hg]; [reflexivity|]. exfalso. apply rmem_In in E.
    apply NoDup_remove_2 with (l := []) in Hn || idtac.
    assert (Hin : In r (flat_map g_names gs)) by (apply in_flat_map; eauto).
    clear IH. induction (g_names g0) as [|x l IHl]; [contradiction|].
    simpl in Hn. inversion Hn; subst. destruct E as [->|E].
    + apply H1. apply in_or_app. now right.
    + now apply IHl.
  - destruct Hg as [->|Hg]; [apply rmem_false in E; contradiction|].
    apply IH; auto. revert Hn. clear. induction (g_names g0); simpl; intros H; [exact H|]. inversion H; auto.
Qed.

Lemma owner_none gs r : owner gs r = None <-> ~ In r (all_names gs).
Proof.
  unfold owner. destruct (find (fun g => rmem r (g_names g)) gs) as [g|] eqn:E.
  - split; [discriminate|]. intros H. exfalso. apply H. apply find_some in E as [Hg Hr].
    apply in_flat_map. exists g. split; [exact Hg|now apply rmem_In].
  - split; [|reflexivity]. intros _ Hin. apply in_flat_map in Hin as [g [Hg Hr]].
    pose proof (find_none _ _ E g Hg) as Hf. simpl in Hf. apply rmem_false in Hf. contradiction.
Qed.

Lemma keys_nodup gs : uniq gs -> NoDup (nodes_of gs).
Proof.
  unfold uniq, nodes_of, all_names. induction gs as [|g gs IH]; simpl; intros [Hn Hf]; [constructor|].
  inversion Hf as [|? ? Hg Hf']; subst.
  assert (Hn' : NoDup (flat_map g_names gs)).
  { revert Hn. clear. induction (g_names g); simpl; intros H; [exact H|]. inversion H; auto. }
  constructor; [|apply IH; split; assumption].
  intro Hin. apply in_map_iff in Hin as [g' [Hk Hg']].
  assert (Hk' : In (key g') (g_names g')).
  { apply key_in_names. rewrite Forall_forall in Hf'. now apply Hf'. }
  pose proof (key_in_names g Hg) as Hkg. rewrite <- Hk in Hkg.
  assert (Hin : In (key g') (flat_map g_names gs)) by (apply in_flat_map; eauto).
  revert Hn Hkg Hin. clear. induction (g_names g) as [|x l IHl]; simpl; intros Hn Hk Hin; [contradiction|].
  inversion Hn; subst. destruct Hk as [->|Hk].
  - apply H1. apply in_or_app. now right.
  - now apply IHl.
Qed.

Lemma raw_edges_In gs u v :
  In (u, v) (raw_edges gs) <-> exists g d, In g gs /\ In d (g_deps g) /\ owner gs d = Some u /\ v = key g.
Proof.
  unfold raw_edges, group_edges. rewrite in_flat_map. split.
  - intros [g [Hg Hin]]. apply in_flat_map in Hin as [d [Hd Hin]].
    destruct (owner gs d) as [k|] eqn:E; simpl in Hin; [|contradiction].
    destruct Hin as [[= <- <-]|[]]. exists g, d. auto.
  - intros [g [d [Hg [Hd [Ho ->]]]]]. exists g. split; [exact Hg|]. apply in_flat_map. exists d.
    split; [exact Hd|]. rewrite Ho. simpl. auto.
Qed.

Lemma edges_closed gs u v : In (u, v) (edges_of gs) -> In u (nodes_of gs) /\ In v (nodes_of gs).
Proof.
  rewrite edges_of_In, raw_edges_In. intros [g [d [Hg [Hd [Ho ->]]]]].
  apply owner_some in Ho as [g' [Hg' [_ ->]]]. unfold nodes_of. split; apply in_map; assumption.
Qed.

(* a dependency on a resource somebody produces is an edge producer -> consumer *)
Lemma dep_edge gs g g' d :
  uniq gs -> In g gs -> In d (g_deps g) -> In g' gs -> In d (g_names g') -> In (key g', key g) (edges_of gs).
Proof.
  intros [Hn _] Hg Hd Hg' Hd'. apply edges_of_In, raw_edges_In. exists g, d.
  repeat split; auto. now apply owner_of.
Qed.

Lemma prod_of_key gs g : uniq gs -> In g gs -> prod_of gs (key g) = g_prod g.
Proof.
  intros Hu Hg. pose proof (keys_nodup gs Hu) as Hk. unfold prod_of.
  destruct (find (fun g0 => res_eqb (key g0) (key g)) gs) as [g0|] eqn:E.
  - apply find_some in E as [Hg0 He]. apply res_eqb_eq in He.
    (* equal keys in a NoDup key list: same group *)
    clear Hu. unfold nodes_of in Hk. revert Hk Hg Hg0 He. clear. induction gs as [|x gs IH]; simpl; [tauto|].
    intros Hk Hg Hg0 He. inversion Hk; subst.
    destruct Hg as [->|Hg], Hg0 as [->|Hg0]; auto.
    + exfalso. apply H1. rewrite <- He. now apply in_map.
    + exfalso. apply H1. rewrite He. now apply in_map.
  - exfalso. pose proof (find_none _ _ E g Hg) as Hf. simpl in Hf. rewrite res_eqb_refl in Hf. discriminate.
Qed.

(* ================================================================================================================ *)
(* C. the run of the declarations: what each accepted call leaves behind, and that it stays                          *)
(* ================================================================================================================ *)
Local Arguments add_resources : simpl never.
Local Arguments get_value : simpl never.

Record grows (st st' : state) : Prop := {
  gr_groups : exists ext, groups st' = groups st ++ ext;
  gr_comps : incl (comps st) (comps st');
  gr_cols : incl (cols st) (cols st');
  gr_pnames : incl (pnames st) (pnames st');
  gr_sourced : incl (sourced st) (sourced st');
  gr_muts : exists m, muts st' = muts st ++ m;
  gr_streams : incl (streams st) (streams st') }.

Lemma grows_refl st : grows st st.
Proof. constructor; try apply incl_refl; exists []; now rewrite app_nil_r. Qed.

Lemma grows_trans a b c : grows a b -> grows b c -> grows a c.
Proof.
  intros [[e1 G1] C1 L1 P1 S1 [m1 M1] T1] [[e2 G2] C2 L2 P2 S2 [m2 M2] T2].
  constructor; try (eapply incl_tran; eassumption).
  - exists (e1 ++ e2). now rewrite G2, G1, app_assoc.
  - exists (m1 ++ m2). now rewrite M2, M1, app_assoc.
Qed.

Lemma ensure_incl v l : incl l (ensure v l).
Proof. unfold ensure. destruct (zmem v l); [apply incl_refl|]. intros x Hx. apply in_or_app. now left. Qed.

Lemma ensure_In v l : In v (ensure v l).
Proof.
  unfold ensure. destruct (zmem v l) eqn:E; [now apply zmem_In|]. apply in_or_app. right. simpl. auto.
Qed.

Lemma get_value_grows st v : grows st (get_value st v).
Proof.
  constructor; simpl; try apply incl_refl; try (exists []; now rewrite app_nil_r). apply ensure_incl.
Qed.

(* what a successful add_resources does *)
Lemma add_resources_ok st names p d st' :
  add_resources st names p d = Ok st' ->
  exists nm, nm <> [] /\ (names <> [] -> nm = names) /\ (names = [] -> nm = [RNull (nulls st)]) /\
    add_group (groups st) nm p d = Ok (groups st') /\
    groups st' = groups st ++ [mkgroup nm p d] /\
    comps st' = comps st /\ cols st' = cols st /\ pnames st' = pnames st /\ sourced st' = sourced st /\
    muts st' = muts st /\ streams st' = streams st.
Proof.
  unfold add_resources. destruct names as [|n ns].
  - destruct (add_group (groups st) [RNull (nulls st)] p d) as [gs| |] eqn:E; try discriminate.
    intros [= <-]. exists [RNull (nulls st)]. simpl. repeat split; try congruence; try reflexivity.
    now apply add_group_ok in E as [-> _].
  - destruct (add_group (groups st) (n :: ns) p d) as [gs| |] eqn:E; try discriminate.
    intros [= <-]. exists (n :: ns). simpl. repeat split; try congruence; try reflexivity.
    now apply add_group_ok in E as [-> _].
Qed.

Lemma add_resources_error st names p d e : add_resources st names p d = Rejected e -> e = EResource.
Proof.
  unfold add_resources. destruct names as [|n ns].
  - destruct (add_group (groups st) [RNull (nulls st)] p d) as [gs| |] eqn:E; try discriminate.
    intros [= <-]. now apply add_group_error in E.
  - destruct (add_group (groups st) (n :: ns) p d) as [gs| |] eqn:E; try discriminate.
    intros [= <-]. now apply add_group_error in E.
Qed.

Lemma add_resources_fuel st names p d : add_resources st names p d <> OutOfFuel.
Proof.
  unfold add_resources. destruct names as [|n ns].
  - destruct (add_group (groups st) [RNull (nulls st)] p d) as [gs| |] eqn:E; try discriminate.
    now apply add_group_fuel in E.
  - destruct (add_group (groups st) (n :: ns) p d) as [gs| |] eqn:E; try discriminate.
    now apply add_group_fuel in E.
Qed.

Lemma add_resources_grows st names p d st' : add_resources st names p d = Ok st' -> grows st st'.
Proof.
  intros H. apply add_resources_ok in H as [nm [_ [_ [_ [_ [G [C [L [P [S [M T]]]]]]]]]]].
  constructor; try (rewrite ?C, ?L, ?P, ?S, ?T; apply incl_refl).
  - eauto.
  - exists []. now rewrite app_nil_r.
Qed.

Lemma add_resources_uniq st names p d st' :
  uniq (groups st) -> add_resources st names p d = Ok st' -> uniq (groups st').
Proof.
  intros Hu H. apply add_resources_ok in H as [nm [Hne [_ [_ [G _]]]]]. eapply add_group_uniq; eauto.
Qed.

(* intermediate states of `step` that only touch the non-group fields *)
Lemma with_inits_groups st a b : groups (with_inits st a b) = groups st.  Proof. reflexivity. Qed.
Lemma with_pipes_groups st a b c : groups (with_pipes st a b c) = groups st.  Proof. reflexivity. Qed.
Lemma with_streams_groups st a : groups (with_streams st a) = groups st.  Proof. reflexivity. Qed.

Lemma step_grows kc st d st' : step kc st d = Ok st' -> grows st st'.
Proof.
  destruct d as [comp creates rc rv rs|v src rc rv rs|v u rc rv rs|v|s crn|t names pid deps]; simpl.
  - destruct (zmem comp (comps st)); [discriminate|].
    destruct (existsb (fun c => zmem c (cols st)) creates || zhas_dup creates); [discriminate|].
    intros H. apply add_resources_grows in H. eapply grows_trans; [|exact H].
    constructor; simpl; try apply incl_refl; try (exists []; now rewrite app_nil_r).
    + apply incl_tl, incl_refl.
    + apply incl_appr, incl_refl.
  - set (st0 := match src with SPipe p => get_value st p | SFun => st end).
    assert (G0 : grows st st0) by (destruct src; [apply grows_refl|apply get_value_grows]).
    destruct (zmem v (sourced st0)); [discriminate|].
    intros H. apply add_resources_grows in H. eapply grows_trans; [exact G0|]. eapply grows_trans; [|exact H].
    constructor; simpl; try apply incl_refl; try (exists []; now rewrite app_nil_r).
    + apply ensure_incl.
    + apply incl_tl, incl_refl.
  - set (st0 := match u with UPipe p => get_value st p | UFun _ => st end).
    assert (G0 : grows st st0) by (destruct u; [apply grows_refl|apply get_value_grows]).
    intros H. apply add_resources_grows in H. eapply grows_trans; [exact G0|]. eapply grows_trans; [|exact H].
    constructor; simpl; try apply incl_refl; try (exists []; now rewrite app_nil_r).
    + apply ensure_incl.
    + eauto.
  - intros [= <-]. apply get_value_grows.
  - destruct (zmem s (streams st)); [discriminate|].
    assert (G1 : grows st (with_streams st (s :: streams st))).
    { constructor; simpl; try apply incl_refl; try (exists []; now rewrite app_nil_r). apply incl_tl, incl_refl. }
    destruct crn.
    + now intros [= <-].
    + intros H. apply add_resources_grows in H. eapply grows_trans; eauto.
  - destruct t; try discriminate; apply add_resources_grows.
Qed.

Lemma step_uniq kc st d st' : uniq (groups st) -> step kc st d = Ok st' -> uniq (groups st').
Proof.
  intros Hu.
  destruct d as [comp creates rc rv rs|v src rc rv rs|v u rc rv rs|v|s crn|t names pid deps]; simpl.
  - destruct (zmem comp (comps st)); [discriminate|].
    destruct (existsb (fun c => zmem c (cols st)) creates || zhas_dup creates); [discriminate|].
    apply add_resources_uniq. exact Hu.
  - destruct (zmem v _); [discriminate|]. apply add_resources_uniq. destruct src; exact Hu.
  - apply add_resources_uniq. destruct u; exact Hu.
  - now intros [= <-].
  - destruct (zmem s (streams st)); [discriminate|]. destruct crn.
    + now intros [= <-].
    + apply add_resources_uniq. exact Hu.
  - destruct t; try discriminate; apply add_resources_uniq; exact Hu.
Qed.

Lemma step_error kc st d e : step kc st d = Rejected e ->
  e = EPopulation \/ e = EDynamicValue \/ e = ERandomness \/ e = EResource.
Proof.
  destruct d as [comp creates rc rv rs|v src rc rv rs|v u rc rv rs|v|s crn|t names pid deps]; simpl.
  - destruct (zmem comp (comps st)); [intros [= <-]; auto|].
    destruct (existsb (fun c => zmem c (cols st)) creates || zhas_dup creates); [intros [= <-]; auto|].
    intros H. apply add_resources_error in H. auto.
  - destruct (zmem v _); [intros [= <-]; auto|]. intros H. apply add_resources_error in H. auto.
  - intros H. apply add_resources_error in H. auto.
  - discriminate.
  - destruct (zmem s (streams st)); [intros [= <-]; auto|]. destruct crn; [discriminate|].
    intros H. apply add_resources_error in H. auto.
  - destruct t; try (intros H; apply add_resources_error in H; auto). intros [= <-]. auto.
Qed.

Lemma step_fuel kc st d : step kc st d <> OutOfFuel.
Proof.
  destruct d as [comp creates rc rv rs|v src rc rv rs|v u rc rv rs|v|s crn|t names pid deps]; simpl.
  - destruct (zmem comp (comps st)); [discriminate|].
    destruct (existsb (fun c => zmem c (cols st)) creates || zhas_dup creates); [discriminate|].
    apply add_resources_fuel.
  - destruct (zmem v _); [discriminate|]. apply add_resources_fuel.
  - apply add_resources_fuel.
  - discriminate.
  - destruct (zmem s (streams st)); [discriminate|]. destruct crn; [discriminate|]. apply add_resources_fuel.
  - destruct t; try apply add_resources_fuel. discriminate.
Qed.

Lemma run_grows kc : forall ds st st', run_decls kc st ds = Ok st' -> grows st st'.
Proof.
  induction ds as [|d r IH]; simpl; intros st st' H.
  - injection H as <-. apply grows_refl.
  - destruct (step kc st d) as [st1| |] eqn:E; try discriminate.
    eapply grows_trans; [eapply step_grows; eauto|eauto].
Qed.

Lemma run_uniq kc : forall ds st st', uniq (groups st) -> run_decls kc st ds = Ok st' -> uniq (groups st').
Proof.
  induction ds as [|d r IH]; simpl; intros st st' Hu H.
  - now injection H as <-.
  - destruct (step kc st d) as [st1| |] eqn:E; try discriminate. eapply IH; [|exact H]. eapply step_uniq; eauto.
Qed.

Lemma run_error kc : forall ds st e, run_decls kc st ds = Rejected e ->
  e = EPopulation \/ e = EDynamicValue \/ e = ERandomness \/ e = EResource.
Proof.
  induction ds as [|d r IH]; simpl; intros st e H; [discriminate|].
  destruct (step kc st d) as [st1| |] eqn:E; try discriminate; [eauto|].
  injection H as <-. eapply step_error; eauto.
Qed.

Lemma run_fuel kc : forall ds st, run_decls kc st ds <> OutOfFuel.
Proof.
  induction ds as [|d r IH]; simpl; intros st; [discriminate|].
  destruct (step kc st d) as [st1| |] eqn:E; try discriminate; [apply IH|]. now apply step_fuel in E.
Qed.

(* every accepted declaration was accepted in some intermediate state, and what it left stays *)
Lemma run_member kc : forall ds st stf d, run_decls kc st ds = Ok stf -> In d ds ->
  exists st1 st2, grows st st1 /\ step kc st1 d = Ok st2 /\ grows st2 stf.
Proof.
  induction ds as [|d0 r IH]; simpl; intros st stf d H Hin; [contradiction|].
  destruct (step kc st d0) as [st1| |] eqn:E; try discriminate.
  destruct Hin as [->|Hin].
  - exists st, st1. split; [apply grows_refl|]. split; [exact E|]. eapply run_grows; eauto.
  - destruct (IH _ _ _ H Hin) as [sa [sb [G1 [S G2]]]]. exists sa, sb. split; [|auto].
    eapply grows_trans; [eapply step_grows; eauto|exact G1].
Qed.

Lemma run_app kc : forall a b st stf, run_decls kc st (a ++ b) = Ok stf ->
  exists sm, run_decls kc st a = Ok sm /\ run_decls kc sm b = Ok stf.
Proof.
  induction a as [|d r IH]; simpl; intros b st stf H; [eauto|].
  destruct (step kc st d) as [st1| |] eqn:E; try discriminate. eauto.
Qed.

(* ---- what each kind of accepted call leaves in the state ---- *)
Lemma muts_of_app v a b : muts_of v (a ++ b) = muts_of v a ++ muts_of v b.
Proof. unfold muts_of. now rewrite filter_app, map_app. Qed.

Lemma grows_group a b g : grows a b -> In g (groups a) -> In g (groups b).
Proof. intros [[e ->] _ _ _ _ _ _] H. apply in_or_app. now left. Qed.

Lemma grows_muts_of a b v : grows a b -> exists m, muts_of v (muts b) = muts_of v (muts a) ++ m.
Proof. intros [_ _ _ _ _ [m ->] _]. rewrite muts_of_app. eauto. Qed.

Lemma last_group st p d st' nm :
  groups st' = groups st ++ [mkgroup nm p d] -> In (mkgroup nm p d) (groups st').
Proof. intros ->. apply in_or_app. right. simpl. auto. Qed.

Lemma step_init kc st comp creates rc rv rs st' :
  step kc st (DInit comp creates rc rv rs) = Ok st' ->
  ~ In comp (comps st) /\ (forall c, In c creates -> ~ In c (cols st)) /\ In comp (comps st') /\
  incl creates (cols st') /\
  exists nm, In (mkgroup nm comp (init_deps creates rc rv rs)) (groups st') /\
             groups st' = groups st ++ [mkgroup nm comp (init_deps creates rc rv rs)] /\
             (creates <> [] -> nm = map RCol creates) /\ (creates = [] -> exists k, nm = [RNull k]).
Proof.
  simpl. destruct (zmem comp (comps st)) eqn:Ec; [discriminate|].
  destruct (existsb (fun c => zmem c (cols st)) creates) eqn:Ex; [discriminate|]. simpl.
  destruct (zhas_dup creates); [discriminate|]. intros H.
  apply add_resources_ok in H as [nm [_ [Hn1 [Hn2 [_ [G [C [L _]]]]]]]].
  split; [now apply zmem_false|]. split.
  { intros c Hc Hin. assert (existsb (fun c => zmem c (cols st)) creates = true); [|congruence].
    apply existsb_exists. exists c. split; [exact Hc|now apply zmem_In]. }
  split; [rewrite C; simpl; auto|]. split; [rewrite L; simpl; apply incl_appl, incl_refl|].
  exists nm. split; [eapply last_group; eauto|]. split; [exact G|]. split.
  - intros Hne. apply Hn1. destruct creates; [congruence|discriminate].
  - intros ->. exists (nulls st). now apply Hn2.
Qed.

Lemma step_producer kc st v src rc rv rs st' :
  step kc st (DProducer v src rc rv rs) = Ok st' ->
  ~ In v (sourced st) /\ In v (sourced st') /\ In v (pnames st') /\
  In (mkgroup [RSrc v] (-1) (src_deps src rc rv rs)) (groups st') /\
  groups st' = groups st ++ [mkgroup [RSrc v] (-1) (src_deps src rc rv rs)].
Proof.
  simpl. set (st0 := match src with SPipe p => get_value st p | SFun => st end).
  assert (Hs : sourced st0 = sourced st) by (destruct src; reflexivity).
  assert (Hg : groups st0 = groups st) by (destruct src; reflexivity).
  destruct (zmem v (sourced st0)) eqn:E; [discriminate|]. intros H.
  apply add_resources_ok in H as [nm [_ [Hn1 [_ [_ [G [_ [_ [P [S _]]]]]]]]]].
  assert (nm = [RSrc v]) as -> by (apply Hn1; discriminate).
  split; [rewrite <- Hs; now apply zmem_false|]. split; [rewrite S; simpl; auto|].
  split; [rewrite P; simpl; apply ensure_In|]. simpl in G. rewrite Hg in G.
  split; [eapply last_group; eauto|exact G].
Qed.

Lemma step_modifier kc st v u rc rv rs st' :
  step kc st (DModifier v u rc rv rs) = Ok st' ->
  In v (pnames st') /\
  exists l1, muts_of v (muts st') = l1 ++ [u] /\
    In (mkgroup [RMod v (Z.of_nat (length (l1 ++ [u]))) (mut_name u)] (-1) (mod_deps u rc rv rs)) (groups st') /\
    groups st' = groups st ++ [mkgroup [RMod v (Z.of_nat (length (l1 ++ [u]))) (mut_name u)] (-1) (mod_deps u rc rv rs)].
Proof.
  simpl. set (st0 := match u with UPipe p => get_value st p | UFun _ => st end).
  assert (Hm : muts st0 = muts st) by (destruct u; reflexivity).
  assert (Hg : groups st0 = groups st) by (destruct u; reflexivity).
  intros H. apply add_resources_ok in H as [nm [_ [Hn1 [_ [_ [G [_ [_ [P [_ [M _]]]]]]]]]]].
  match type of Hn1 with ?a <> [] -> _ => assert (nm = a) as -> by (apply Hn1; discriminate) end.
  split; [rewrite P; simpl; apply ensure_In|].
  exists (muts_of v (muts st0)). simpl in M, G.
  assert (E : muts_of v (muts st0 ++ [(v, u)]) = muts_of v (muts st0) ++ [u]).
  { rewrite muts_of_app. unfold muts_of at 2. simpl. now rewrite Z.eqb_refl. }
  rewrite E in G. rewrite M. split; [exact E|]. rewrite Hg in G. split; [eapply last_group; eauto|exact G].
Qed.

Lemma step_stream kc st s st' :
  step kc st (DStream s false) = Ok st' ->
  ~ In s (streams st) /\ In s (streams st') /\ In (mkgroup [RStream s] (-1) (map RCol kc)) (groups st') /\
  groups st' = groups st ++ [mkgroup [RStream s] (-1) (map RCol kc)].
Proof.
  simpl. destruct (zmem s (streams st)) eqn:E; [discriminate|]. intros H.
  apply add_resources_ok in H as [nm [_ [Hn1 [_ [_ [G [_ [_ [_ [_ [_ T]]]]]]]]]]].
  assert (nm = [RStream s]) as -> by (apply Hn1; discriminate).
  split; [now apply zmem_false|]. split; [rewrite T; simpl; auto|]. simpl in G.
  split; [eapply last_group; eauto|exact G].
Qed.

Lemma step_raw kc st t names pid deps st' :
  step kc st (DRaw t names pid deps) = Ok st' ->
  t <> RwUnknown /\
  exists nm, In (mkgroup nm pid deps) (groups st') /\ groups st' = groups st ++ [mkgroup nm pid deps] /\
             (names <> [] -> nm = map (raw_res t) names) /\ (names = [] -> exists k, nm = [RNull k]).
Proof.
  simpl. intros H.
  assert (Ht : t <> RwUnknown) by (intros ->; discriminate). split; [exact Ht|].
  assert (H' : add_resources st (map (raw_res t) names) pid deps = Ok st') by (destruct t; congruence).
  apply add_resources_ok in H' as [nm [_ [Hn1 [Hn2 [_ [G _]]]]]].
  exists nm. split; [eapply last_group; eauto|]. split; [exact G|]. split.
  - intros Hne. apply Hn1. destruct names; [congruence|discriminate].
  - intros ->. exists (nulls st). now apply Hn2.
Qed.

(* ---- on_post_setup ---- *)
Definition vgroup (st : state) (v : Z) : group := mkgroup [RVal v] (-1) (value_deps st v).

Lemma post_groups_ok st : forall vs gs gs', post_groups st vs gs = Ok gs' -> gs' = gs ++ map (vgroup st) vs.
Proof.
  induction vs as [|v r IH]; simpl; intros gs gs' H.
  - injection H as <-. now rewrite app_nil_r.
  - destruct (add_group gs [RVal v] (-1) (value_deps st v)) as [g1| |] eqn:E; try discriminate.
    apply add_group_ok in E as [-> _]. rewrite (IH _ _ H), <- app_assoc. reflexivity.
Qed.

Lemma post_groups_uniq st : forall vs gs gs', uniq gs -> post_groups st vs gs = Ok gs' -> uniq gs'.
Proof.
  induction vs as [|v r IH]; simpl; intros gs gs' Hu H.
  - now injection H as <-.
  - destruct (add_group gs [RVal v] (-1) (value_deps st v)) as [g1| |] eqn:E; try discriminate.
    eapply IH; [|exact H]. eapply add_group_uniq; eauto. discriminate.
Qed.

Lemma post_groups_error st : forall vs gs e, post_groups st vs gs = Rejected e -> e = EResource.
Proof.
  induction vs as [|v r IH]; simpl; intros gs e H; [discriminate|].
  destruct (add_group gs [RVal v] (-1) (value_deps st v)) as [g1| |] eqn:E; try discriminate; [eauto|].
  injection H as <-. now apply add_group_error in E.
Qed.

Lemma post_groups_fuel st : forall vs gs, post_groups st vs gs <> OutOfFuel.
Proof.
  induction vs as [|v r IH]; simpl; intros gs; [discriminate|].
  destruct (add_group gs [RVal v] (-1) (value_deps st v)) as [g1| |] eqn:E; try discriminate; [apply IH|].
  now apply add_group_fuel in E.
Qed.

Lemma number_from_In v u : forall l1 l2 i,
  In (RMod v (i + Z.of_nat (length l1)) (mut_name u)) (number_from i v (l1 ++ u :: l2)).
Proof.
  induction l1 as [|x l1 IH]; intros l2 i; simpl.
  - left. f_equal. lia.
  - right. replace (i + Z.pos (Pos.of_succ_nat (length l1))) with ((i + 1) + Z.of_nat (length l1)) by lia. apply IH.
Qed.

(* ---- the initializer groups are exactly the initializer registrations, in order ---- *)
Definition inits_of (gs : list group) : list Z := map g_prod (filter (fun g => is_init (key g)) gs).

Lemma inits_of_app a b : inits_of (a ++ b) = inits_of a ++ inits_of b.
Proof. unfold inits_of. now rewrite filter_app, map_app. Qed.

Lemma step_inits kc st d st' :
  step kc st d = Ok st' -> inits_of (groups st') = inits_of (groups st) ++ registered_inits [d].
Proof.
  destruct d as [comp creates rc rv rs|v src rc rv rs|v u rc rv rs|v|s crn|t names pid deps]; intros H.
  - apply step_init in H as [_ [_ [_ [_ [nm [_ [-> [H1 H2]]]]]]]]. rewrite inits_of_app. f_equal.
    destruct creates as [|c cr].
    + destruct (H2 eq_refl) as [k ->]. reflexivity.
    + rewrite (H1 ltac:(discriminate)). reflexivity.
  - apply step_producer in H as [_ [_ [_ [_ ->]]]]. rewrite inits_of_app. reflexivity.
  - apply step_modifier in H as [_ [l1 [_ [_ ->]]]]. rewrite inits_of_app. reflexivity.
  - simpl in H. injection H as <-. simpl. now rewrite app_nil_r.
  - destruct crn.
    + simpl in H. destruct (zmem s (streams st)); [discriminate|]. injection H as <-. simpl. now rewrite app_nil_r.
    + apply step_stream in H as [_ [_ [_ ->]]]. rewrite inits_of_app. reflexivity.
  - apply step_raw in H as [Ht [nm [_ [-> [H1 H2]]]]]. rewrite inits_of_app. f_equal.
    destruct names as [|n ns].
    + destruct (H2 eq_refl) as [k ->]. destruct t; try congruence; reflexivity.
    + rewrite (H1 ltac:(discriminate)). destruct t; try congruence; reflexivity.
Qed.

Lemma registered_inits_app a b : registered_inits (a ++ b) = registered_inits a ++ registered_inits b.
Proof. unfold registered_inits. now rewrite flat_map_app. Qed.

Lemma run_inits kc : forall ds st st', run_decls kc st ds = Ok st' ->
  inits_of (groups st') = inits_of (groups st) ++ registered_inits ds.
Proof.
  induction ds as [|d r IH]; intros st st' H; simpl in H.
  - injection H as <-. simpl. now rewrite app_nil_r.
  - destruct (step kc st d) as [st1| |] eqn:E; try discriminate.
    rewrite (IH _ _ H), (step_inits _ _ _ _ E). change (d :: r) with ([d] ++ r).
    now rewrite registered_inits_app, app_assoc.
Qed.

Lemma inits_of_vgroups st vs : inits_of (map (vgroup st) vs) = [].
Proof. induction vs as [|v r IH]; [reflexivity|]. exact IH. Qed.

(* ================================================================================================================ *)
(* D. the registrations of an accepted set of declarations                                                         *)
(* ================================================================================================================ *)
Record facts (kc : list Z) (ds : list decl) (gs : list group) : Prop := {
  f_uniq : uniq gs;
  (* every initializer registration is a column / null group produced by it, with the implicit dependencies *)
  f_init : forall comp creates rc rv rs, In (DInit comp creates rc rv rs) ds ->
     exists g, In g gs /\ g_prod g = comp /\ g_deps g = init_deps creates rc rv rs /\ is_init (key g) = true /\
               (forall c, In c creates -> In (RCol c) (g_names g));
  f_rawcol : forall names pid deps, In (DRaw RwColumn names pid deps) ds ->
     exists g, In g gs /\ g_prod g = pid /\ is_init (key g) = true /\ (forall c, In c names -> In (RCol c) (g_names g));
  (* every source / modifier is a group of its own, and the pipeline's value.<v> group depends on it *)
  f_feed : forall d v op rc rv rs, In d ds -> feeds d = Some (v, op, rc, rv, rs) ->
     exists r g1 g2, In g1 gs /\ g_names g1 = [r] /\
        g_deps g1 = (match op with None => req_deps rc rv rs | Some p => [RVal p] end) /\
        In g2 gs /\ g_names g2 = [RVal v] /\ In r (g_deps g2);
  f_stream : forall s, In (DStream s false) ds ->
     exists g, In g gs /\ g_names g = [RStream s] /\ g_deps g = map RCol kc;
  f_inits : inits_of gs = registered_inits ds }.

Lemma uniq_nil : uniq [].
Proof. split; constructor. Qed.

Theorem build_facts kc ds gs : build kc ds = Ok gs -> facts kc ds gs.
Proof.
  unfold build. destruct (run_decls kc init_state ds) as [stf| |] eqn:R; try discriminate. intros P.
  pose proof (post_groups_ok _ _ _ _ P) as ->.
  assert (Hin : forall g, In g (groups stf) -> In g (groups stf ++ map (vgroup stf) (pnames stf)))
    by (intros; apply in_or_app; now left).
  assert (Hv : forall v, In v (pnames stf) -> In (vgroup stf v) (groups stf ++ map (vgroup stf) (pnames stf)))
    by (intros; apply in_or_app; right; now apply in_map).
  constructor.
  - eapply post_groups_uniq; [|exact P]. eapply run_uniq; [|exact R]. apply uniq_nil.
  - intros comp creates rc rv rs Hd.
    destruct (run_member _ _ _ _ _ R Hd) as [s1 [s2 [_ [S G]]]].
    apply step_init in S as [_ [_ [_ [_ [nm [Hg [_ [H1 H2]]]]]]]].
    exists (mkgroup nm comp (init_deps creates rc rv rs)). split; [apply Hin; eapply grows_group; eauto|].
    simpl. repeat split.
    + destruct creates as [|c cr]; [destruct (H2 eq_refl) as [k ->]; reflexivity|].
      rewrite (H1 ltac:(discriminate)). reflexivity.
    + intros c Hc. rewrite H1 by (intros ->; contradiction). now apply in_map.
  - intros names pid deps Hd.
    destruct (run_member _ _ _ _ _ R Hd) as [s1 [s2 [_ [S G]]]].
    apply step_raw in S as [_ [nm [Hg [_ [H1 H2]]]]].
    exists (mkgroup nm pid deps). split; [apply Hin; eapply grows_group; eauto|]. simpl. repeat split.
    + destruct names as [|c cr]; [destruct (H2 eq_refl) as [k ->]; reflexivity|].
      rewrite (H1 ltac:(discriminate)). reflexivity.
    + intros c Hc. rewrite H1 by (intros ->; contradiction). now apply (in_map (raw_res RwColumn)).
  - intros d v op rc rv rs Hd Hf.
    destruct (run_member _ _ _ _ _ R Hd) as [s1 [s2 [_ [S G]]]].
    destruct d as [? ? ? ? ?|v0 src rc0 rv0 rs0|v0 u rc0 rv0 rs0|?|? ?|? ? ? ?]; try discriminate.
    + (* a source *)
      apply step_producer in S as [_ [Hs [Hp [Hg _]]]].
      assert (v0 = v /\ src_deps src rc0 rv0 rs0 = match op with None => req_deps rc rv rs | Some p => [RVal p] end)
        as [-> Hdeps] by (destruct src; simpl in Hf; inversion Hf; subst; auto).
      exists (RSrc v), (mkgroup [RSrc v] (-1) (src_deps src rc0 rv0 rs0)), (vgroup stf v).
      split; [apply Hin; eapply grows_group; eauto|]. split; [reflexivity|]. split; [exact Hdeps|].
      split; [apply Hv; eapply gr_pnames; eauto|]. split; [reflexivity|].
      simpl. left. assert (E : zmem v (sourced stf) = true) by (apply zmem_In; eapply gr_sourced; eauto).
      now rewrite E.
    + (* a modifier *)
      apply step_modifier in S as [Hp [l1 [Hm [Hg _]]]].
      assert (v0 = v /\ mod_deps u rc0 rv0 rs0 = match op with None => req_deps rc rv rs | Some p => [RVal p] end)
        as [-> Hdeps] by (destruct u; simpl in Hf; inversion Hf; subst; auto).
      exists (RMod v (Z.of_nat (length (l1 ++ [u]))) (mut_name u)),
             (mkgroup [RMod v (Z.of_nat (length (l1 ++ [u]))) (mut_name u)] (-1) (mod_deps u rc0 rv0 rs0)),
             (vgroup stf v).
      split; [apply Hin; eapply grows_group; eauto|]. split; [reflexivity|]. split; [exact Hdeps|].
      split; [apply Hv; eapply gr_pnames; eauto|]. split; [reflexivity|].
      assert (E2 : Z.of_nat (length (l1 ++ [u])) = 1 + Z.of_nat (length l1)) by (rewrite app_length, Nat2Z.inj_add; change (Z.of_nat (length [u])) with 1; lia).
      rewrite E2. unfold vgroup, value_deps. cbn [g_deps]. right.
      destruct (grows_muts_of _ _ v G) as [m ->]. rewrite Hm, <- app_assoc. apply number_from_In.
  - intros s Hd.
    destruct (run_member _ _ _ _ _ R Hd) as [s1 [s2 [_ [S G]]]].
    apply step_stream in S as [_ [_ [Hg _]]].
    exists (mkgroup [RStream s] (-1) (map RCol kc)). split; [apply Hin; eapply grows_group; eauto|]. auto.
  - rewrite inits_of_app, inits_of_vgroups, app_nil_r. apply (run_inits _ _ _ _ R).
Qed.

(* who creates a column *)
Lemma creators_In ds c j : In j (creators ds c) <->
  (exists creates rc rv rs, In (DInit j creates rc rv rs) ds /\ In c creates) \/
  (exists names deps, In (DRaw RwColumn names j deps) ds /\ In c names).
Proof.
  unfold creators. rewrite in_flat_map. split.
  - intros [d [Hd Hj]]. destruct d as [comp creates rc rv rs|? ? ? ? ?|? ? ? ? ?|?|? ?|t names pid deps]; try contradiction.
    + destruct (zmem c creates) eqn:E; [|contradiction]. destruct Hj as [<-|[]]. left. apply zmem_In in E. eauto 8.
    + destruct t; try contradiction. destruct (zmem c names) eqn:E; [|contradiction]. destruct Hj as [<-|[]].
      right. apply zmem_In in E. eauto.
  - intros [[creates [rc [rv [rs [Hd Hc]]]]]|[names [deps [Hd Hc]]]].
    + eexists. split; [exact Hd|]. simpl. apply zmem_In in Hc. rewrite Hc. simpl. auto.
    + eexists. split; [exact Hd|]. simpl. apply zmem_In in Hc. rewrite Hc. simpl. auto.
Qed.

Lemma facts_creator kc ds gs c j : facts kc ds gs -> In j (creators ds c) ->
  exists g, In g gs /\ In (RCol c) (g_names g) /\ g_prod g = j /\ is_init (key g) = true.
Proof.
  intros F Hj. apply creators_In in Hj as [[creates [rc [rv [rs [Hd Hc]]]]]|[names [deps [Hd Hc]]]].
  - destruct (f_init _ _ _ F _ _ _ _ _ Hd) as [g [Hg [Hp [_ [Hi Hn]]]]]. exists g. auto.
  - destruct (f_rawcol _ _ _ F _ _ _ Hd) as [g [Hg [Hp [Hi Hn]]]]. exists g. auto.
Qed.

(* ================================================================================================================ *)
(* E. the specification: what an initializer requires, transitively                                                *)
(* ================================================================================================================ *)
Section Spec.
Variable kc : list Z.
Variable ds : list decl.

(* a stream resource exists only for streams requested without initializes_crn_attributes *)
Definition stream_declared (s : Z) : Prop := In (DStream s false) ds.

(* pipeline v needs column c: through the declared requirements of its source or of any of its modifiers;
   a required value stands for everything that value needs, a required stream for the CRN key columns, a pipeline
   used as source / modifier for everything it needs *)
Inductive needs : Z -> Z -> Prop :=
  | N_col d v rc rv rs c : In d ds -> feeds d = Some (v, None, rc, rv, rs) -> In c rc -> needs v c
  | N_val d v rc rv rs w c : In d ds -> feeds d = Some (v, None, rc, rv, rs) -> In w rv -> needs w c -> needs v c
  | N_str d v rc rv rs s c : In d ds -> feeds d = Some (v, None, rc, rv, rs) -> In s rs -> stream_declared s ->
                             In c kc -> needs v c
  | N_pipe d v p rc rv rs c : In d ds -> feeds d = Some (v, Some p, rc, rv, rs) -> needs p c -> needs v c.

(* the columns the initializer registration (creates, rc, rv, rs) requires *)
Inductive init_req (creates rc rv rs : list Z) : Z -> Prop :=
  | IR_col c : In c rc -> init_req creates rc rv rs c
  | IR_tracked : ~ In tracked creates -> init_req creates rc rv rs tracked
  | IR_val v c : In v rv -> needs v c -> init_req creates rc rv rs c
  | IR_str s c : In s rs -> stream_declared s -> In c kc -> init_req creates rc rv rs c.

(* j is called strictly before i *)
Definition before (j i : Z) (o : list Z) : Prop := exists l1 l2, o = l1 ++ i :: l2 /\ In j l1.

(* every registered initializer exactly once, each after the creator of every column it requires *)
Definition order_ok (o : list Z) : Prop :=
  Permutation o (registered_inits ds) /\
  forall comp creates rc rv rs c j,
    In (DInit comp creates rc rv rs) ds -> init_req creates rc rv rs c -> In j (creators ds c) -> before j comp o.

(* ---- the graph contains a path for every requirement ---- *)
Variable gs : list group.
Hypothesis F : facts kc ds gs.

Notation gpath := (path (edges_of gs)).

Lemma key_single g r : g_names g = [r] -> key g = r.
Proof. unfold key. now intros ->. Qed.

Lemma edge_of_dep g g' d : In g gs -> In d (g_deps g) -> In g' gs -> In d (g_names g') -> gpath (key g') (key g).
Proof. intros. apply path_edge. eapply dep_edge; eauto. apply (f_uniq _ _ _ F). Qed.

Lemma in_req_col c rc rv rs : In c rc -> In (RCol c) (req_deps rc rv rs).
Proof. intros H. unfold req_deps. apply in_or_app. left. now apply in_map. Qed.
Lemma in_req_val v rc rv rs : In v rv -> In (RVal v) (req_deps rc rv rs).
Proof. intros H. unfold req_deps. apply in_or_app. right. apply in_or_app. left. now apply in_map. Qed.
Lemma in_req_str s rc rv rs : In s rs -> In (RStream s) (req_deps rc rv rs).
Proof. intros H. unfold req_deps. apply in_or_app. right. apply in_or_app. right. now apply in_map. Qed.

(* a pipeline that needs anything has a value.<v> group *)
Lemma needs_vgroup v c : needs v c -> exists g, In g gs /\ g_names g = [RVal v].
Proof.
  intros H. destruct H as [d v rc rv rs c Hd Hf _|d v rc rv rs w c Hd Hf _ _|d v rc rv rs s c Hd Hf _ _ _|d v p rc rv rs c Hd Hf _];
    destruct (f_feed _ _ _ F _ _ _ _ _ _ Hd Hf) as [r [g1 [g2 [_ [_ [_ [H2 [N2 _]]]]]]]]; eauto.
Qed.

Lemma needs_path v c : needs v c ->
  forall gj, In gj gs -> In (RCol c) (g_names gj) -> gpath (key gj) (RVal v).
Proof.
  induction 1 as [d v rc rv rs c Hd Hf Hc|d v rc rv rs w c Hd Hf Hw Hn IH|d v rc rv rs s c Hd Hf Hs Hsd Hc
                  |d v p rc rv rs c Hd Hf Hn IH]; intros gj Hgj Hcj;
    destruct (f_feed _ _ _ F _ _ _ _ _ _ Hd Hf) as [r [g1 [g2 [H1 [N1 [D1 [H2 [N2 D2]]]]]]]];
    pose proof (key_single _ _ N1) as K1; pose proof (key_single _ _ N2) as K2;
    assert (E12 : gpath r (RVal v))
      by (rewrite <- K1, <- K2; apply (edge_of_dep g2 g1 r); auto; rewrite N1; simpl; auto).
  - (* a column required directly *)
    eapply path_trans; [|exact E12]. rewrite <- K1. apply (edge_of_dep g1 gj (RCol c)); auto.
    rewrite D1. now apply in_req_col.
  - (* through a required value *)
    destruct (needs_vgroup _ _ Hn) as [gw [Hgw Nw]].
    eapply path_trans; [apply (IH gj Hgj Hcj)|]. eapply path_trans; [|exact E12].
    rewrite <- K1, <- (key_single _ _ Nw). apply (edge_of_dep g1 gw (RVal w)); auto.
    + rewrite D1. now apply in_req_val.
    + rewrite Nw. simpl; auto.
  - (* through a required stream: the CRN key columns *)
    destruct (f_stream _ _ _ F _ Hsd) as [gsr [Hgs [Ns Ds]]].
    apply path_trans with (w := key gsr); [|apply path_trans with (w := r); [|exact E12]].
    + apply (edge_of_dep gsr gj (RCol c)); auto. rewrite Ds. now apply in_map.
    + rewrite <- K1. apply (edge_of_dep g1 gsr (RStream s)); auto.
      * rewrite D1. now apply in_req_str.
      * rewrite Ns. simpl; auto.
  - (* the source / modifier is itself a pipeline *)
    destruct (needs_vgroup _ _ Hn) as [gp [Hgp Np]].
    eapply path_trans; [apply (IH gj Hgj Hcj)|]. eapply path_trans; [|exact E12].
    rewrite <- K1, <- (key_single _ _ Np). apply (edge_of_dep g1 gp (RVal p)); auto.
    + rewrite D1. simpl; auto.
    + rewrite Np. simpl; auto.
Qed.

(* gi is a registration of the initializer (creates, rc, rv, rs) *)
Lemma init_req_path creates rc rv rs c : init_req creates rc rv rs c ->
  forall gi gj, In gi gs -> g_deps gi = init_deps creates rc rv rs ->
                In gj gs -> In (RCol c) (g_names gj) -> gpath (key gj) (key gi).
Proof.
  intros H gi gj Hgi Di Hgj Hcj. destruct H as [c Hc|Ht|v c Hv Hn|s c Hs Hsd Hc].
  - apply (edge_of_dep gi gj (RCol c)); auto. rewrite Di. unfold init_deps. apply in_or_app. left. now apply in_req_col.
  - apply (edge_of_dep gi gj (RCol tracked)); auto. rewrite Di. unfold init_deps. apply in_or_app. right.
    apply zmem_false in Ht. rewrite Ht. simpl; auto.
  - destruct (needs_vgroup _ _ Hn) as [gv [Hgv Nv]].
    eapply path_trans; [apply (needs_path _ _ Hn gj Hgj Hcj)|].
    rewrite <- (key_single _ _ Nv). apply (edge_of_dep gi gv (RVal v)); auto.
    + rewrite Di. unfold init_deps. apply in_or_app. left. now apply in_req_val.
    + rewrite Nv. simpl; auto.
  - destruct (f_stream _ _ _ F _ Hsd) as [gsr [Hgs [Ns Ds]]].
    apply path_trans with (w := key gsr).
    + apply (edge_of_dep gsr gj (RCol c)); auto. rewrite Ds. now apply in_map.
    + apply (edge_of_dep gi gsr (RStream s)); auto.
      * rewrite Di. unfold init_deps. apply in_or_app. left. now apply in_req_str.
      * rewrite Ns. simpl; auto.
Qed.
End Spec.

(* ================================================================================================================ *)
(* F. the order produced respects the requirements                                                                 *)
(* ================================================================================================================ *)
Lemma Permutation_filter' (A : Type) (f : A -> bool) (l l' : list A) :
  Permutation l l' -> Permutation (filter f l) (filter f l').
Proof.
  induction 1 as [|x l l' _ IH|x y l|l l' l'' _ IH1 _ IH2]; simpl.
  - constructor.
  - destruct (f x); [now constructor|exact IH].
  - destruct (f x), (f y); try apply Permutation_refl. apply perm_swap.
  - eapply Permutation_trans; eauto.
Qed.

Lemma sort_groups_kahn gs o : sort_groups gs = Ok o ->
  exists ko, kahn res_eqb (nodes_of gs) (edges_of gs) = Ok ko /\ o = map (prod_of gs) (filter is_init ko).
Proof.
  unfold sort_groups. destruct (kahn res_eqb (nodes_of gs) (edges_of gs)) as [ko| |]; try discriminate.
  intros [= <-]. eauto.
Qed.

Lemma prods_of_keys gs : uniq gs -> forall l, incl l gs ->
  map (prod_of gs) (filter is_init (map key l)) = inits_of l.
Proof.
  intros Hu. induction l as [|g l IH]; intros Hl; [reflexivity|]. unfold inits_of in *. simpl.
  assert (Hg : In g gs) by (apply Hl; simpl; auto).
  assert (Hl' : incl l gs) by (intros x Hx; apply Hl; simpl; auto).
  destruct (is_init (key g)); simpl; rewrite (IH Hl'); [|reflexivity]. now rewrite prod_of_key.
Qed.

Lemma key_in_nodes gs g : In g gs -> In (key g) (nodes_of gs).
Proof. intros H. unfold nodes_of. now apply in_map. Qed.

(* a path between two initializer groups orders their producers in the list the population manager iterates *)
Lemma path_orders gs ko gi gj :
  uniq gs -> kahn res_eqb (nodes_of gs) (edges_of gs) = Ok ko ->
  In gi gs -> In gj gs -> is_init (key gi) = true -> is_init (key gj) = true ->
  path (edges_of gs) (key gj) (key gi) ->
  before (g_prod gj) (g_prod gi) (map (prod_of gs) (filter is_init ko)).
Proof.
  intros Hu Hk Hgi Hgj Ii Ij Hp.
  pose proof (kahn_sound res_eqb res_eqb_eq _ _ (edges_closed gs) (keys_nodup gs Hu) ko Hk) as [Hperm _].
  assert (Hin : In (key gi) ko).
  { eapply Permutation_in; [apply Permutation_sym; exact Hperm|]. now apply key_in_nodes. }
  apply in_split in Hin as [l1 [l2 Hko]].
  pose proof (kahn_order_respects_closure res_eqb res_eqb_eq _ _ (edges_closed gs) (keys_nodup gs Hu)
                ko _ _ Hk Hp l1 l2 Hko) as Hj.
  exists (map (prod_of gs) (filter is_init l1)), (map (prod_of gs) (filter is_init l2)). split.
  - rewrite Hko, filter_app, map_app. simpl. rewrite Ii. simpl. now rewrite prod_of_key.
  - rewrite <- (prod_of_key gs gj Hu Hgj). apply in_map. apply filter_In. auto.
Qed.

Theorem order_respects kc ds o : init_order kc ds = Ok o -> order_ok kc ds o.
Proof.
  unfold init_order. destruct (build kc ds) as [gs| |] eqn:B; try discriminate. intros S.
  pose proof (build_facts _ _ _ B) as F. pose proof (f_uniq _ _ _ F) as Hu.
  destruct (sort_groups_kahn _ _ S) as [ko [Hk ->]].
  pose proof (kahn_sound res_eqb res_eqb_eq _ _ (edges_closed gs) (keys_nodup gs Hu) ko Hk) as [Hperm _].
  split.
  - rewrite <- (f_inits _ _ _ F), <- (prods_of_keys gs Hu gs (incl_refl _)).
    apply Permutation_map, Permutation_filter'. exact Hperm.
  - intros comp creates rc rv rs c j Hd Hr Hj.
    destruct (f_init _ _ _ F _ _ _ _ _ Hd) as [gi [Hgi [Pi [Di [Ii _]]]]].
    destruct (facts_creator _ _ _ _ _ F Hj) as [gj [Hgj [Hcj [Pj Ij]]]].
    rewrite <- Pi, <- Pj. apply path_orders; auto.
    eapply init_req_path; eauto.
Qed.

(* never out of fuel; the refusals carry one of the four error classes the code raises *)
Theorem init_order_fuel kc ds : init_order kc ds <> OutOfFuel.
Proof.
  unfold init_order, build. destruct (run_decls kc init_state ds) as [st| |] eqn:R.
  - destruct (post_groups st (pnames st) (groups st)) as [gs| |] eqn:P.
    + unfold sort_groups.
      assert (Hu : uniq gs) by (eapply post_groups_uniq; [|exact P]; eapply run_uniq; [|exact R]; apply uniq_nil).
      pose proof (kahn_never_out_of_fuel res_eqb res_eqb_eq _ _ (edges_closed gs) (keys_nodup gs Hu)) as HF.
      destruct (kahn res_eqb (nodes_of gs) (edges_of gs)); congruence.
    + discriminate.
    + now apply post_groups_fuel in P.
  - discriminate.
  - now apply run_fuel in R.
Qed.

Theorem init_order_error kc ds e : init_order kc ds = Rejected e ->
  e = EPopulation \/ e = EDynamicValue \/ e = ERandomness \/ e = EResource.
Proof.
  unfold init_order, build. destruct (run_decls kc init_state ds) as [st| |] eqn:R.
  - destruct (post_groups st (pnames st) (groups st)) as [gs| |] eqn:P.
    + unfold sort_groups.
      assert (Hu : uniq gs) by (eapply post_groups_uniq; [|exact P]; eapply run_uniq; [|exact R]; apply uniq_nil).
      destruct (kahn res_eqb (nodes_of gs) (edges_of gs)) eqn:K; try discriminate.
      intros [= <-]. apply (kahn_error_class res_eqb _ _) in K. auto.
    + intros [= <-]. apply post_groups_error in P. auto.
    + discriminate.
  - intros [= <-]. eapply run_error; eauto.
  - discriminate.
Qed.

(* ================================================================================================================ *)
(* G. refusals                                                                                                     *)
(* ================================================================================================================ *)
Lemma not_ok_rejected kc ds : (forall o, init_order kc ds <> Ok o) -> exists e, init_order kc ds = Rejected e.
Proof.
  intros H. destruct (init_order kc ds) as [o|e|] eqn:E.
  - exfalso. now apply (H o).
  - eauto.
  - exfalso. now apply (init_order_fuel kc ds).
Qed.

Lemma init_order_ok_build kc ds o : init_order kc ds = Ok o -> exists gs, build kc ds = Ok gs /\ sort_groups gs = Ok o.
Proof. unfold init_order. destruct (build kc ds) as [gs| |]; try discriminate. eauto. Qed.

Lemma build_ok_run kc ds gs : build kc ds = Ok gs -> exists st, run_decls kc init_state ds = Ok st.
Proof. unfold build. destruct (run_decls kc init_state ds) as [st| |]; try discriminate. eauto. Qed.

(* ---- a cycle anywhere in the graph (self-dependency included) ---- *)
Theorem cycle_refused kc ds gs u :
  build kc ds = Ok gs -> path (edges_of gs) u u -> init_order kc ds = Rejected EResource.
Proof.
  intros B Hp. unfold init_order. rewrite B. unfold sort_groups.
  pose proof (f_uniq _ _ _ (build_facts _ _ _ B)) as Hu.
  now rewrite (kahn_refuses_any_cycle res_eqb res_eqb_eq _ _ (edges_closed gs) (keys_nodup gs Hu) u Hp).
Qed.

(* ---- no false refusal: accepted registrations without a cycle are always given an order ---- *)
Theorem acyclic_accepted kc ds gs :
  build kc ds = Ok gs -> (forall u, ~ path (edges_of gs) u u) -> exists o, init_order kc ds = Ok o.
Proof.
  intros B Hac. unfold init_order. rewrite B. unfold sort_groups.
  pose proof (f_uniq _ _ _ (build_facts _ _ _ B)) as Hu.
  destruct (kahn_complete res_eqb res_eqb_eq _ _ (edges_closed gs) (keys_nodup gs Hu) Hac) as [ko ->]. eauto.
Qed.

Theorem refused_iff_cycle kc ds gs :
  build kc ds = Ok gs -> ((exists e, init_order kc ds = Rejected e) <-> exists u, path (edges_of gs) u u).
Proof.
  intros B. pose proof (f_uniq _ _ _ (build_facts _ _ _ B)) as Hu.
  pose proof (kahn_refuses_iff_cycle res_eqb res_eqb_eq _ _ (edges_closed gs) (keys_nodup gs Hu)) as K.
  unfold init_order. rewrite B. unfold sort_groups. rewrite <- K.
  destruct (kahn res_eqb (nodes_of gs) (edges_of gs)) as [ko|e|]; split; intros [e' H]; try discriminate; eauto.
Qed.

(* ---- a cycle among the declarations of initializers, through any mixture of columns, values, modifiers, streams ---- *)
Inductive dep_on (kc : list Z) (ds : list decl) : decl -> decl -> Prop :=
  | dep_on_intro j cr1 rc1 rv1 rs1 comp cr2 rc rv rs c :
      In (DInit j cr1 rc1 rv1 rs1) ds -> In (DInit comp cr2 rc rv rs) ds ->
      In c cr1 -> init_req kc ds cr2 rc rv rs c ->
      dep_on kc ds (DInit j cr1 rc1 rv1 rs1) (DInit comp cr2 rc rv rs).

Definition matches (gs : list group) (d : decl) (g : group) : Prop :=
  match d with
  | DInit comp cr rc rv rs =>
      In g gs /\ g_deps g = init_deps cr rc rv rs /\ forall c, In c cr -> In (RCol c) (g_names g)
  | _ => False
  end.

Lemma dep_on_path kc ds gs d1 d2 : facts kc ds gs -> dep_on kc ds d1 d2 ->
  forall g1 g2, matches gs d1 g1 -> matches gs d2 g2 -> path (edges_of gs) (key g1) (key g2).
Proof.
  intros F H g1 g2 M1 M2. destruct H as [j cr1 rc1 rv1 rs1 comp cr2 rc rv rs c H1 H2 Hc Hr].
  destruct M1 as [G1 [_ N1]], M2 as [G2 [D2 _]]. eapply init_req_path; eauto.
Qed.

Lemma dep_on_right kc ds gs d1 d2 : facts kc ds gs -> dep_on kc ds d1 d2 -> exists g, matches gs d2 g.
Proof.
  intros F H. destruct H as [j cr1 rc1 rv1 rs1 comp cr2 rc rv rs c H1 H2 Hc Hr].
  destruct (f_init _ _ _ F _ _ _ _ _ H2) as [g [Hg [_ [Hd [_ Hn]]]]]. exists g. simpl. auto.
Qed.

Lemma dep_on_left kc ds gs d1 d2 : facts kc ds gs -> dep_on kc ds d1 d2 -> exists g, matches gs d1 g.
Proof.
  intros F H. destruct H as [j cr1 rc1 rv1 rs1 comp cr2 rc rv rs c H1 H2 Hc Hr].
  destruct (f_init _ _ _ F _ _ _ _ _ H1) as [g [Hg [_ [Hd [_ Hn]]]]]. exists g. simpl. auto.
Qed.

Lemma dep_chain_path kc ds gs : facts kc ds gs -> forall d1 d2, Relation_Operators.clos_trans_n1 decl (dep_on kc ds) d1 d2 ->
  forall g1 g2, matches gs d1 g1 -> matches gs d2 g2 -> path (edges_of gs) (key g1) (key g2).
Proof.
  intros F d1 d2 H. induction H as [y H|y z Hyz Hxy IH]; intros g1 g2 M1 M2.
  - eapply dep_on_path; eauto.
  - destruct (dep_on_left _ _ _ _ _ F Hyz) as [gy My].
    eapply path_trans; [apply (IH g1 gy M1 My)|]. eapply dep_on_path; eauto.
Qed.

Theorem init_cycle_refused kc ds d :
  Relation_Operators.clos_trans decl (dep_on kc ds) d d -> exists e, init_order kc ds = Rejected e.
Proof.
  intros H. apply not_ok_rejected. intros o Ho.
  destruct (init_order_ok_build _ _ _ Ho) as [gs [B S]]. pose proof (build_facts _ _ _ B) as F.
  apply Operators_Properties.clos_trans_tn1 in H.
  assert (Hg : exists g, matches gs d g).
  { inversion H; subst; eapply dep_on_right; eauto. }
  destruct Hg as [g Mg].
  pose proof (dep_chain_path _ _ _ F _ _ H g g Mg Mg) as Hp.
  rewrite (cycle_refused _ _ _ _ B Hp) in Ho. discriminate.
Qed.

(* ---- two producers ---- *)
Definition conflict (d1 d2 : decl) : Prop :=
  match d1, d2 with
  | DInit c1 cr1 _ _ _, DInit c2 cr2 _ _ _ => c1 = c2 \/ exists c, In c cr1 /\ In c cr2
  | DProducer v1 _ _ _ _, DProducer v2 _ _ _ _ => v1 = v2
  | DStream s1 _, DStream s2 _ => s1 = s2
  | DRaw t1 n1 _ _, DRaw t2 n2 _ _ => t1 = t2 /\ exists n, In n n1 /\ In n n2
  | _, _ => False
  end.

Lemma step_stream_any kc st s crn st' :
  step kc st (DStream s crn) = Ok st' -> ~ In s (streams st) /\ In s (streams st').
Proof.
  destruct crn; [|intros H; apply step_stream in H; tauto].
  simpl. destruct (zmem s (streams st)) eqn:E; [discriminate|]. intros [= <-].
  split; [now apply zmem_false|simpl; auto].
Qed.

Lemma step_conflict kc sa d1 sb sc d2 sd :
  conflict d1 d2 -> step kc sa d1 = Ok sb -> grows sb sc -> step kc sc d2 = Ok sd -> False.
Proof.
  intros C S1 G S2.
  destruct d1 as [c1 cr1 ? ? ?|v1 ? ? ? ?|? ? ? ? ?|?|s1 ?|t1 n1 p1 e1];
    destruct d2 as [c2 cr2 ? ? ?|v2 ? ? ? ?|? ? ? ? ?|?|s2 ?|t2 n2 p2 e2]; simpl in C; try contradiction.
  - apply step_init in S1 as [_ [_ [Hc [Hl _]]]]. apply step_init in S2 as [Hnc [Hnl _]].
    destruct C as [->|[c [H1 H2]]].
    + apply Hnc. eapply gr_comps; eauto.
    + apply (Hnl c H2). eapply gr_cols; eauto.
  - subst v2. apply step_producer in S1 as [_ [Hs _]]. apply step_producer in S2 as [Hn _].
    apply Hn. eapply gr_sourced; eauto.
  - subst s2. apply step_stream_any in S1 as [_ Hs]. apply step_stream_any in S2 as [Hn _].
    apply Hn. eapply gr_streams; eauto.
  - destruct C as [<- [n [H1 H2]]].
    apply step_raw in S1 as [_ [nm1 [Hg1 [_ [N1 _]]]]].
    assert (Hnm1 : In (raw_res t1 n) nm1) by (rewrite N1 by (intros ->; contradiction); now apply in_map).
    simpl in S2. assert (S2' : add_resources sc (map (raw_res t1) n2) p2 e2 = Ok sd) by (destruct t1; congruence).
    apply add_resources_ok in S2' as [nm2 [_ [N2 [_ [A _]]]]].
    apply add_group_ok in A as [_ [_ Hfresh]].
    apply (Hfresh (raw_res t1 n)).
    + rewrite N2; [now apply in_map|]. destruct n2; [contradiction|discriminate].
    + unfold all_names. apply in_flat_map. eexists. split; [eapply grows_group; eauto|]. exact Hnm1.
Qed.

Theorem duplicates_refused kc l1 d1 l2 d2 l3 :
  conflict d1 d2 -> exists e, init_order kc (l1 ++ d1 :: l2 ++ d2 :: l3) = Rejected e.
Proof.
  intros C. apply not_ok_rejected. intros o Ho.
  destruct (init_order_ok_build _ _ _ Ho) as [gs [B _]]. destruct (build_ok_run _ _ _ B) as [stf R].
  apply run_app in R as [sa [_ R]]. simpl in R.
  destruct (step kc sa d1) as [sb| |] eqn:S1; try discriminate.
  apply run_app in R as [sc [R2 R]]. simpl in R.
  destruct (step kc sc d2) as [sd| |] eqn:S2; try discriminate.
  eapply step_conflict; eauto. eapply run_grows; eauto.
Qed.

(* in every accepted set of registrations each resource has exactly one producer *)
Theorem accepted_one_producer kc ds gs : build kc ds = Ok gs -> NoDup (all_names gs).
Proof. intros B. apply (f_uniq _ _ _ (build_facts _ _ _ B)). Qed.

(* ================================================================================================================ *)
(* H. an unmet requirement only warns: it adds no edge, removes no edge and causes no refusal                       *)
(* ================================================================================================================ *)
Definition same_names (gs gs' : list group) : Prop :=
  Forall2 (fun g g' => g_names g = g_names g' /\ g_prod g = g_prod g') gs gs'.

Lemma same_names_refl gs : same_names gs gs.
Proof. induction gs; constructor; auto. Qed.

Lemma same_names_app a a' b b' : same_names a a' -> same_names b b' -> same_names (a ++ b) (a' ++ b').
Proof. intros H1 H2. apply Forall2_app; assumption. Qed.

Lemma same_key g g' : g_names g = g_names g' -> key g = key g'.
Proof. unfold key. now intros ->. Qed.

Lemma same_names_owner gs gs' r : same_names gs gs' -> owner gs r = owner gs' r.
Proof.
  unfold owner. induction 1 as [|g g' l l' [Hn _] _ IH]; [reflexivity|]. simpl. rewrite <- Hn.
  destruct (rmem r (g_names g)); [now rewrite (same_key _ _ Hn)|exact IH].
Qed.

Lemma same_names_prod gs gs' k : same_names gs gs' -> prod_of gs k = prod_of gs' k.
Proof.
  unfold prod_of. induction 1 as [|g g' l l' [Hn Hp] _ IH]; [reflexivity|]. simpl.
  rewrite <- (same_key _ _ Hn). destruct (res_eqb (key g) k); [exact Hp|exact IH].
Qed.

Lemma same_names_nodes gs gs' : same_names gs gs' -> nodes_of gs = nodes_of gs'.
Proof.
  unfold nodes_of. induction 1 as [|g g' l l' [Hn _] _ IH]; [reflexivity|]. simpl.
  now rewrite IH, (same_key _ _ Hn).
Qed.

Lemma group_edges_ext gs gs' g : same_names gs gs' -> group_edges gs g = group_edges gs' g.
Proof.
  intros H. unfold group_edges. apply flat_map_ext. intros d. now rewrite (same_names_owner _ _ d H).
Qed.

Lemma group_edges_drop gs n p deps1 d deps2 : owner gs d = None ->
  group_edges gs (mkgroup n p (deps1 ++ d :: deps2)) = group_edges gs (mkgroup n p (deps1 ++ deps2)).
Proof.
  intros H. unfold group_edges. cbn [g_deps]. rewrite !flat_map_app. cbn [flat_map]. now rewrite H.
Qed.

Theorem unmet_only_warn gs1 n p deps1 d deps2 gs2 :
  let gs  := gs1 ++ mkgroup n p (deps1 ++ d :: deps2) :: gs2 in
  let gs' := gs1 ++ mkgroup n p (deps1 ++ deps2) :: gs2 in
  owner gs d = None ->
  nodes_of gs = nodes_of gs' /\ edges_of gs = edges_of gs' /\ sort_groups gs = sort_groups gs'.
Proof.
  intros gs gs' Hd.
  assert (HS : same_names gs gs').
  { apply same_names_app; [apply same_names_refl|]. constructor; [simpl; auto|apply same_names_refl]. }
  assert (HN : nodes_of gs = nodes_of gs') by now apply same_names_nodes.
  assert (HE : raw_edges gs = raw_edges gs').
  { unfold raw_edges. unfold gs at 2. unfold gs' at 2. rewrite !flat_map_app. cbn [flat_map].
    f_equal; [|f_equal].
    - apply flat_map_ext. intros g. now apply group_edges_ext.
    - rewrite (group_edges_drop gs _ _ _ _ _ Hd). now apply group_edges_ext.
    - apply flat_map_ext. intros g. now apply group_edges_ext. }
  assert (HE' : edges_of gs = edges_of gs') by (unfold edges_of; now rewrite HE).
  split; [exact HN|]. split; [exact HE'|].
  unfold sort_groups. rewrite <- HN, <- HE'.
  destruct (kahn res_eqb (nodes_of gs) (edges_of gs)); try reflexivity.
  f_equal. apply map_ext. intros k. now apply same_names_prod.
Qed.

(* what the edges are: exactly one per KNOWN dependency (unknown ones contribute nothing) *)
Theorem edges_characterised gs u v :
  In (u, v) (edges_of gs) <-> exists g d, In g gs /\ In d (g_deps g) /\ owner gs d = Some u /\ v = key g.
Proof. rewrite edges_of_In. apply raw_edges_In. Qed.

(* ================================================================================================================ *)
(* I. whatever order the components were supplied in                                                               *)
(* ================================================================================================================ *)
Lemma needs_ext kc ds ds' v c : (forall d, In d ds -> In d ds') -> needs kc ds v c -> needs kc ds' v c.
Proof.
  intros Hi. induction 1 as [d v rc rv rs c Hd Hf Hc|d v rc rv rs w c Hd Hf Hw Hn IH|d v rc rv rs s c Hd Hf Hs Hsd Hc
                            |d v p rc rv rs c Hd Hf Hn IH].
  - apply (N_col kc ds' d v rc rv rs c); auto.
  - apply (N_val kc ds' d v rc rv rs w c); auto.
  - apply (N_str kc ds' d v rc rv rs s c); auto. apply Hi. exact Hsd.
  - apply (N_pipe kc ds' d v p rc rv rs c); auto.
Qed.

Lemma init_req_ext kc ds ds' cr rc rv rs c :
  (forall d, In d ds -> In d ds') -> init_req kc ds cr rc rv rs c -> init_req kc ds' cr rc rv rs c.
Proof.
  intros Hi [c0 Hc|Ht|v c0 Hv Hn|s c0 Hs Hsd Hc].
  - now apply IR_col.
  - now apply IR_tracked.
  - apply (IR_val kc ds' cr rc rv rs v c0); auto. eapply needs_ext; eauto.
  - apply (IR_str kc ds' cr rc rv rs s c0); auto. apply Hi. exact Hsd.
Qed.

Lemma order_ok_perm kc ds ds' o : Permutation ds ds' -> order_ok kc ds' o -> order_ok kc ds o.
Proof.
  intros Hp [H1 H2]. split.
  - eapply Permutation_trans; [exact H1|]. unfold registered_inits. apply Permutation_flat_map.
    now apply Permutation_sym.
  - intros comp creates rc rv rs c j Hd Hr Hj. eapply H2.
    + eapply Permutation_in; eauto.
    + eapply init_req_ext; [|exact Hr]. intros d. now apply Permutation_in.
    + eapply Permutation_in; [|exact Hj]. unfold creators. now apply Permutation_flat_map.
Qed.

Theorem order_invariant_under_supply_order kc ds ds' o' :
  Permutation ds ds' -> init_order kc ds' = Ok o' -> order_ok kc ds o'.
Proof. intros Hp Ho. eapply order_ok_perm; [exact Hp|]. now apply order_respects. Qed.

(* ================================================================================================================ *)
(* J. the checker run on the observed call orders is sound                                                         *)
(* ================================================================================================================ *)
Lemma zsubset_In a b x : zsubset a b = true -> In x a -> In x b.
Proof. unfold zsubset. rewrite forallb_forall. intros H Hx. apply zmem_In. now apply H. Qed.

Lemma feeds_target d v op rc rv rs : feeds d = Some (v, op, rc, rv, rs) -> target d = Some v.
Proof. unfold target. now intros ->. Qed.

Lemma stream_cols_declared kc ds s : stream_declared ds s -> stream_cols kc ds s = kc.
Proof.
  intros H. unfold stream_cols.
  assert (E : existsb (is_stream_decl s) ds = true).
  { apply existsb_exists. exists (DStream s false). split; [exact H|]. simpl. apply Z.eqb_refl. }
  now rewrite E.
Qed.

Lemma closed_needs kc ds T : closed kc ds T = true -> forall v c, needs kc ds v c -> In c (lookup T v).
Proof.
  unfold closed. rewrite forallb_forall. intros HC v c H.
  induction H as [d v rc rv rs c Hd Hf Hc|d v rc rv rs w c Hd Hf Hw Hn IH|d v rc rv rs s c Hd Hf Hs Hsd Hc
                  |d v p rc rv rs c Hd Hf Hn IH];
    pose proof (HC d Hd) as Hsub; rewrite (feeds_target _ _ _ _ _ _ Hf) in Hsub;
    apply (zsubset_In _ _ c Hsub); unfold contrib; rewrite Hf.
  - apply in_or_app. now left.
  - apply in_or_app. right. apply in_or_app. left. apply in_flat_map. eauto.
  - apply in_or_app. right. apply in_or_app. right. apply in_flat_map. exists s. split; [exact Hs|].
    now rewrite stream_cols_declared.
  - exact IH.
Qed.

Lemma zcount_count x l : zcount x l = count_occ Z.eq_dec l x.
Proof.
  induction l as [|y r IH]; [reflexivity|]. simpl. destruct (Z.eq_dec y x) as [->|Hn].
  - now rewrite Z.eqb_refl, IH.
  - apply Z.eqb_neq in Hn. now rewrite Hn.
Qed.

Lemma zperm_Permutation a b : zperm a b = true -> Permutation a b.
Proof.
  unfold zperm. rewrite forallb_forall. intros H. apply (Permutation_count_occ Z.eq_dec). intros x.
  rewrite <- !zcount_count.
  destruct (in_dec Z.eq_dec x (a ++ b)) as [Hi|Hn].
  - apply Nat.eqb_eq. now apply H.
  - rewrite !zcount_count.
    rewrite (proj1 (count_occ_not_In Z.eq_dec a x)) by (intro; apply Hn; apply in_or_app; now left).
    rewrite (proj1 (count_occ_not_In Z.eq_dec b x)) by (intro; apply Hn; apply in_or_app; now right).
    reflexivity.
Qed.

Lemma beforeb_before a b o : beforeb a b o = true -> before a b o.
Proof.
  induction o as [|x r IH]; simpl; [discriminate|].
  destruct (x =? a) eqn:E.
  - apply Z.eqb_eq in E. subst x. intros H. apply zmem_In, in_split in H as [r1 [r2 ->]].
    exists (a :: r1), r2. split; [reflexivity|simpl; auto].
  - intros H. destruct (IH H) as [l1 [l2 [-> Hin]]]. exists (x :: l1), l2. split; [reflexivity|simpl; auto].
Qed.

Theorem respects_with_sound kc ds T o : respects_with kc ds T o = true -> order_ok kc ds o.
Proof.
  unfold respects_with. rewrite !andb_true_iff. intros [[HC HP] HB]. split; [now apply zperm_Permutation|].
  intros comp creates rc rv rs c j Hd Hr Hj. rewrite forallb_forall in HB. specialize (HB _ Hd). simpl in HB.
  rewrite forallb_forall in HB.
  assert (Hc : In c (init_needs kc ds T creates rc rv rs)).
  { unfold init_needs. destruct Hr as [c Hc|Ht|v c Hv Hn|s c Hs Hsd Hc].
    - apply in_or_app. now left.
    - apply in_or_app. right. apply in_or_app. left. apply zmem_false in Ht. rewrite Ht. simpl; auto.
    - apply in_or_app. right. apply in_or_app. right. apply in_or_app. left. apply in_flat_map.
      exists v. split; [exact Hv|]. eapply closed_needs; eauto.
    - apply in_or_app. right. apply in_or_app. right. apply in_or_app. right. apply in_flat_map.
      exists s. split; [exact Hs|]. now rewrite stream_cols_declared. }
  specialize (HB _ Hc). rewrite forallb_forall in HB. apply beforeb_before. now apply HB.
Qed.

Theorem respects_sound kc ds o : respects kc ds o = true -> order_ok kc ds o.
Proof. apply respects_with_sound. Qed.

(* what the correspondence check establishes about an observed call order *)
Theorem check_case_observed kc ds ogs oes calls o :
  check_case (kc, ds, ObsOk ogs oes calls) = true -> In o calls -> order_ok kc ds o.
Proof.
  unfold check_case. destruct (build kc ds) as [gs| |]; try discriminate.
  destruct (sort_groups gs) as [mo| |]; try discriminate.
  rewrite !andb_true_iff. intros [_ HC] Ho. rewrite forallb_forall in HC.
  eapply respects_with_sound. now apply HC.
Qed.

Theorem check_case_observed_order kc ds calls o :
  check_case (kc, ds, ObsOrder calls) = true -> In o calls -> order_ok kc ds o.
Proof.
  unfold check_case. destruct (build kc ds) as [gs| |]; try discriminate.
  destruct (sort_groups gs) as [mo| |]; try discriminate.
  rewrite !andb_true_iff. intros [_ HC] Ho. rewrite forallb_forall in HC.
  eapply respects_with_sound. now apply HC.
Qed.

(* ================================================================================================================ *)
(* K. the reachability function of the correspondence check computes exactly the paths                             *)
(* ================================================================================================================ *)
Local Open Scope nat_scope.

Lemma rnodup_In x l : In x (rnodup l) <-> In x l.
Proof.
  induction l as [|y r IH]; simpl; [tauto|]. destruct (rmem y r) eqn:E.
  - rewrite IH. split; [auto|]. intros [<-|H]; [now apply rmem_In|exact H].
  - simpl. rewrite IH. tauto.
Qed.

Lemma rnodup_NoDup l : NoDup (rnodup l).
Proof.
  induction l as [|y r IH]; simpl; [constructor|]. destruct (rmem y r) eqn:E; [exact IH|].
  constructor; [|exact IH]. rewrite rnodup_In. now apply rmem_false.
Qed.

Lemma succs_of_In es x y : In y (succs_of es x) <-> In (x, y) es.
Proof.
  unfold succs_of. rewrite in_map_iff. split.
  - intros [[a b] [E H]]. simpl in E. subst b. apply filter_In in H as [H Hx]. simpl in Hx.
    apply res_eqb_eq in Hx. now subst.
  - intros H. exists (x, y). split; [reflexivity|]. apply filter_In. split; [exact H|]. simpl. apply res_eqb_refl.
Qed.

Section Reach.
Variable es : list (res * res).
Variable u : res.

Definition targets_of : list res := rnodup (map snd es).

Record rinv (todo seen : list res) : Prop := {
  ri_sound : forall x, In x seen -> path es u x;
  ri_todo : incl todo seen;
  ri_closed : forall x, In x seen -> ~ In x todo -> forall y, In (x, y) es -> In y seen;
  ri_nodup : NoDup seen;
  ri_targets : incl seen targets_of }.

Definition good (seen0 r : list res) : Prop :=
  incl seen0 r /\ (forall x, In x r -> path es u x) /\ (forall x, In x r -> forall y, In (x, y) es -> In y r).

Lemma reach_good : forall fuel todo seen,
  rinv todo seen -> (length targets_of - length seen) + length todo < fuel -> good seen (reach fuel es todo seen).
Proof.
  induction fuel as [|f IH]; intros todo seen HI Hf; [lia|]. simpl.
  destruct todo as [|x r].
  - destruct HI as [S _ C _ _]. split; [apply incl_refl|]. split; [exact S|]. intros y Hy. now apply C.
  - set (new := rnodup (filter (fun v => negb (rmem v seen)) (succs_of es x))).
    assert (Hnew : forall y, In y new <-> In (x, y) es /\ ~ In y seen).
    { intros y. unfold new. rewrite rnodup_In, filter_In, succs_of_In, negb_true_iff, rmem_false. tauto. }
    destruct HI as [S T C N G].
    assert (Hx : In x seen) by (apply T; simpl; auto).
    assert (HI' : rinv (r ++ new) (seen ++ new)).
    { constructor.
      - intros y Hy. apply in_app_or in Hy as [Hy|Hy]; [now apply S|].
        apply Hnew in Hy as [He _]. eapply path_trans; [apply S; exact Hx|now apply path_edge].
      - intros y Hy. apply in_app_or in Hy as [Hy|Hy]; apply in_or_app; [left; apply T; simpl; auto|now right].
      - intros y Hy Hnt z Hz.
        assert (Hnr : ~ In y r) by (intro; apply Hnt; apply in_or_app; now left).
        assert (Hnn : ~ In y new) by (intro; apply Hnt; apply in_or_app; now right).
        apply in_app_or in Hy as [Hy|Hy]; [|contradiction].
        destruct (res_eqb y x) eqn:E.
        + apply res_eqb_eq in E. subst y. destruct (rmem z seen) eqn:Ez.
          * apply in_or_app. left. now apply rmem_In.
          * apply in_or_app. right. apply Hnew. split; [exact Hz|now apply rmem_false].
        + apply in_or_app. left. apply (C y Hy); [|exact Hz].
          intros [->|Hr]; [|contradiction]. rewrite res_eqb_refl in E. discriminate.
      - apply nodup_app_intro; [exact N|apply rnodup_NoDup|]. intros y Hy Hn. apply Hnew in Hn. tauto.
      - intros y Hy. apply in_app_or in Hy as [Hy|Hy]; [now apply G|].
        apply Hnew in Hy as [He _]. unfold targets_of. apply rnodup_In. apply in_map_iff. exists (x, y). auto. }
    assert (Hlen : length (seen ++ new) <= length targets_of).
    { apply NoDup_incl_length; [apply (ri_nodup _ _ HI')|apply (ri_targets _ _ HI')]. }
    destruct (IH (r ++ new) (seen ++ new) HI') as [G1 [G2 G3]].
    { rewrite !app_length in *. simpl in Hf. lia. }
    split; [|split; assumption]. intros y Hy. apply G1. apply in_or_app. now left.
Qed.

(* descendants = the nodes reachable by a non-empty path *)
Theorem descendants_spec v : In v (descendants es u) <-> path es u v.
Proof.
  unfold descendants. set (s := rnodup (succs_of es u)).
  assert (Hs : forall y, In y s <-> In (u, y) es) by (intros y; unfold s; now rewrite rnodup_In, succs_of_In).
  assert (HI : rinv s s).
  { constructor.
    - intros x Hx. apply path_edge. now apply Hs.
    - apply incl_refl.
    - intros x Hx Hn. contradiction.
    - apply rnodup_NoDup.
    - intros x Hx. apply Hs in Hx. unfold targets_of. apply rnodup_In. apply in_map_iff. exists (u, x). auto. }
  destruct (reach_good (2 * length es + 2) s s HI) as [G1 [G2 G3]].
  { assert (length targets_of <= length es).
    { unfold targets_of. rewrite <- (map_length snd es).
      apply NoDup_incl_length; [apply rnodup_NoDup|]. intros x Hx. exact (proj1 (rnodup_In _ _) Hx). }
    pose proof (NoDup_incl_length (ri_nodup _ _ HI) (ri_targets _ _ HI)). lia. }
  split; [apply G2|].
  intros Hp.
  assert (Hgen : forall x y, path es x y -> (x = u \/ In x (reach (2 * length es + 2) es s s)) ->
                             In y (reach (2 * length es + 2) es s s)).
  { induction 1 as [x y He|x w y _ IH1 _ IH2]; intros Hx.
    - destruct Hx as [->|Hx]; [apply G1; now apply Hs|now apply (G3 x)].
    - apply IH2. right. now apply IH1. }
  apply (Hgen u v Hp). now left.
Qed.
End Reach.

(* the relation the correspondence requires to be equal: which initializer groups must precede which *)
Theorem same_constraints_spec inits es es' :
  same_constraints inits es es' = true <->
  forall a b, In a inits -> In b inits -> (path es a b <-> path es' a b).
Proof.
  unfold same_constraints. rewrite forallb_forall. split.
  - intros H a b Ha Hb. specialize (H a Ha). rewrite forallb_forall in H. specialize (H b Hb).
    apply Bool.eqb_prop in H. rewrite <- !descendants_spec, <- !rmem_In, H. tauto.
  - intros H a Ha. apply forallb_forall. intros b Hb. specialize (H a b Ha Hb).
    rewrite <- !descendants_spec, <- !rmem_In in H.
    destruct (rmem b (descendants es a)), (rmem b (descendants es' a)); simpl; try reflexivity;
      destruct H as [H1 H2]; try (specialize (H1 eq_refl); discriminate); specialize (H2 eq_refl); discriminate.
Qed.

(* what the correspondence check establishes about the observed graph: the implementation's graph constrains the
   initializer groups exactly as the model's graph does *)
Theorem check_case_constraints kc ds ogs oes calls :
  check_case (kc, ds, ObsOk ogs oes calls) = true ->
  exists gs, build kc ds = Ok gs /\
    forall a b, In a (filter is_init (nodes_of gs)) -> In b (filter is_init (nodes_of gs)) ->
                (path (edges_of gs) a b <-> path oes a b).
Proof.
  unfold check_case. destruct (build kc ds) as [gs| |]; try discriminate.
  destruct (sort_groups gs) as [mo| |]; try discriminate.
  rewrite !andb_true_iff. intros [[[_ HS] _] _]. exists gs. split; [reflexivity|].
  now apply same_constraints_spec.
Qed.

(* ================================================================================================================ *)
(* L. repeated requests for the order: refusal is persistent and changes nothing, an accepted order is kept         *)
(* ================================================================================================================ *)
Definition coherent (m : manager) : Prop :=
  m_cache m = None \/
  exists o, m_cache m = Some o /\ kahn res_eqb (nodes_of (m_groups m)) (edges_of (m_groups m)) = Ok o.

Lemma request_coherent m : coherent m ->
  snd (request m) = sort_groups (m_groups m) /\ coherent (fst (request m)) /\ m_groups (fst (request m)) = m_groups m.
Proof.
  intros [Hc|[o [Hc Hk]]]; unfold request, sort_groups, producers_in; rewrite Hc.
  - destruct (kahn res_eqb (nodes_of (m_groups m)) (edges_of (m_groups m))) as [o|e|] eqn:K; simpl.
    + split; [reflexivity|]. split; [|reflexivity]. right. exists o. simpl. auto.
    + split; [reflexivity|]. split; [now left|reflexivity].
    + split; [reflexivity|]. split; [now left|reflexivity].
  - rewrite Hk. simpl. split; [reflexivity|]. split; [|reflexivity]. right. eauto.
Qed.

(* every request, however many are made, gets the answer of the first one: the function sort_groups of the registrations *)
Theorem requests_all_equal n : forall m, coherent m -> forall r, In r (requests n m) -> r = sort_groups (m_groups m).
Proof.
  induction n as [|n IH]; intros m Hm r Hr; [contradiction|]. simpl in Hr.
  destruct (request_coherent m Hm) as [H1 [H2 H3]]. destruct (request m) as [m' r0]. simpl in *.
  destruct Hr as [<-|Hr]; [exact H1|]. rewrite <- H3. now apply IH.
Qed.

(* a refused request leaves the manager exactly as it was: nothing is cached, nothing is registered or forgotten *)
Theorem refused_request_inert m e : snd (request m) = Rejected e -> fst (request m) = m.
Proof.
  unfold request. destruct (m_cache m) as [o|]; [discriminate|].
  destruct (kahn res_eqb (nodes_of (m_groups m)) (edges_of (m_groups m))); simpl; try discriminate; reflexivity.
Qed.
