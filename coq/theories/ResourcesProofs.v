(* C09 - lemmas about the resource model (Resources.v): the order produced respects the declared requirements,
   refusals, unmet requirements only warn, the checker is sound. *)
From Coq Require Import Permutation Arith.
From Viv Require Import Common Kahn KahnProofs Resources.
Local Open Scope Z_scope.

(* ================================================================================================================ *)
(* A. boolean equalities                                                                                           *)
(* ================================================================================================================ *)
Lemma mname_eqb_eq a b : mname_eqb a b = true <-> a = b.
Proof.
  destruct a, b; simpl; split; intro H; try discriminate; try reflexivity;
    try (apply Z.eqb_eq in H; now subst); try (inversion H; subst; apply Z.eqb_refl).
Qed.

Lemma res_eqb_eq a b : res_eqb a b = true <-> a = b.
Proof.
  destruct a, b; simpl; split; intro H; try discriminate; try reflexivity;
    try (apply Z.eqb_eq in H; now subst); try (inversion H; subst; apply Z.eqb_refl).
  - apply andb_true_iff in H as [H H3]. apply andb_true_iff in H as [H1 H2].
    apply Z.eqb_eq in H1, H2. apply mname_eqb_eq in H3. now subst.
  - inversion H; subst. rewrite !Z.eqb_refl. simpl. now apply mname_eqb_eq.
Qed.

Lemma res_eqb_refl a : res_eqb a a = true.
Proof. now apply res_eqb_eq. Qed.

Lemma rmem_In r l : rmem r l = true <-> In r l.
Proof.
  unfold rmem. rewrite existsb_exists. split.
  - intros [y [Hy E]]. apply res_eqb_eq in E. now subst.
  - intros H. exists r. split; [assumption | apply res_eqb_refl].
Qed.

Lemma rmem_false r l : rmem r l = false <-> ~ In r l.
Proof. rewrite <- rmem_In. destruct (rmem r l); split; congruence. Qed.

Lemma zmem_false x l : zmem x l = false <-> ~ In x l.
Proof. rewrite <- zmem_In. destruct (zmem x l); split; congruence. Qed.

Lemma edge_eqb_eq a b : edge_eqb a b = true <-> a = b.
Proof.
  destruct a as [a1 a2], b as [b1 b2]. unfold edge_eqb. simpl. rewrite andb_true_iff, !res_eqb_eq.
  split; [intros [-> ->]; reflexivity | intros [= -> ->]; auto].
Qed.

Lemma emem_In e l : existsb (edge_eqb e) l = true <-> In e l.
Proof.
  rewrite existsb_exists. split.
  - intros [y [Hy E]]. apply edge_eqb_eq in E. now subst.
  - intros H. exists e. split; [assumption | now apply edge_eqb_eq].
Qed.

Lemma dedup_In e : forall l seen, In e (dedup seen l) <-> In e l /\ ~ In e seen.
Proof.
  induction l as [|x r IH]; intros seen; simpl; [tauto|].
  destruct (existsb (edge_eqb x) seen) eqn:E.
  - rewrite IH. apply emem_In in E. split; [tauto|]. intros [[->|H] Hn]; [contradiction|tauto].
  - simpl. rewrite IH. simpl.
    assert (Hx : ~ In x seen) by (rewrite <- emem_In; congruence).
    split.
    + intros [->|[H Hn]]; [tauto|]. split; [tauto|]. intro Hs. apply Hn. now right.
    + intros [[->|H] Hn]; [now left|].
      destruct (edge_eqb x e) eqn:Ee; [apply edge_eqb_eq in Ee; now left|].
      right. split; [exact H|]. intros [->|Hs]; [|contradiction].
      assert (edge_eqb e e = true) by now apply edge_eqb_eq. congruence.
Qed.

Lemma edges_of_In gs e : In e (edges_of gs) <-> In e (raw_edges gs).
Proof. unfold edges_of. rewrite dedup_In. simpl. tauto. Qed.

(* ================================================================================================================ *)
(* B. groups: every resource has one producer; the graph is well formed                                            *)
(* ================================================================================================================ *)
Definition all_names (gs : list group) : list res := flat_map g_names gs.
Definition uniq (gs : list group) : Prop := NoDup (all_names gs) /\ Forall (fun g => g_names g <> []) gs.

Lemma owned_In gs r : owned gs r = true <-> In r (all_names gs).
Proof.
  unfold owned, all_names. rewrite existsb_exists, in_flat_map. split.
  - intros [g [Hg Hr]]. exists g. split; [exact Hg|]. now apply rmem_In.
  - intros [g [Hg Hr]]. exists g. split; [exact Hg|]. now apply rmem_In.
Qed.

Lemma has_dup_false l : has_dup l = false -> NoDup l.
Proof.
  induction l as [|x r IH]; simpl; intros H; [constructor|].
  apply orb_false_iff in H as [H1 H2]. constructor; [now apply rmem_false | now apply IH].
Qed.

Lemma has_dup_true l : has_dup l = true -> ~ NoDup l.
Proof.
  induction l as [|x r IH]; simpl; intros H Hn; [discriminate|].
  inversion Hn; subst. apply orb_true_iff in H as [H|H]; [apply rmem_In in H; contradiction | now apply IH].
Qed.

Lemma nodup_app_intro (A : Type) (l1 l2 : list A) :
  NoDup l1 -> NoDup l2 -> (forall x, In x l1 -> ~ In x l2) -> NoDup (l1 ++ l2).
Proof.
  induction l1 as [|a l1 IH]; simpl; intros H1 H2 Hd; [exact H2|].
  inversion H1; subst. constructor.
  - intro Hi. apply in_app_or in Hi as [Hi|Hi]; [contradiction|]. apply (Hd a); auto.
  - apply IH; auto.
Qed.

Lemma all_names_app gs gs' : all_names (gs ++ gs') = all_names gs ++ all_names gs'.
Proof. unfold all_names. now rewrite flat_map_app. Qed.

Lemma add_group_ok gs names p d gs' :
  add_group gs names p d = Ok gs' ->
  gs' = gs ++ [mkgroup names p d] /\ NoDup names /\ (forall r, In r names -> ~ In r (all_names gs)).
Proof.
  unfold add_group, clash. destruct (existsb (owned gs) names) eqn:E1; simpl; [discriminate|].
  destruct (has_dup names) eqn:E2; [discriminate|]. intros [= <-]. split; [reflexivity|]. split.
  - now apply has_dup_false.
  - intros r Hr Hin. apply owned_In in Hin.
    assert (existsb (owned gs) names = true) by (apply existsb_exists; eauto). congruence.
Qed.

Lemma add_group_uniq gs names p d gs' :
  uniq gs -> names <> [] -> add_group gs names p d = Ok gs' -> uniq gs'.
Proof.
  intros [Hn Hf] Hne H. apply add_group_ok in H as [-> [Hnd Hfresh]]. split.
  - rewrite all_names_app. apply nodup_app_intro; auto.
    + unfold all_names. simpl. now rewrite app_nil_r.
    + intros x Hx Hin. unfold all_names in Hin. simpl in Hin. rewrite app_nil_r in Hin. now apply (Hfresh x).
  - apply Forall_app. split; [exact Hf|]. constructor; [exact Hne|constructor].
Qed.

Lemma add_group_error gs names p d e : add_group gs names p d = Rejected e -> e = EResource.
Proof. unfold add_group. destruct (clash gs names); [now intros [= <-]|discriminate]. Qed.

Lemma add_group_fuel gs names p d : add_group gs names p d <> OutOfFuel.
Proof. unfold add_group. destruct (clash gs names); discriminate. Qed.

Lemma key_in_names g : g_names g <> [] -> In (key g) (g_names g).
Proof. unfold key. destruct (g_names g); [congruence|simpl; auto]. Qed.

Lemma owner_some gs r k : owner gs r = Some k -> exists g, In g gs /\ In r (g_names g) /\ k = key g.
Proof.
  unfold owner. destruct (find (fun g => rmem r (g_names g)) gs) as [g|] eqn:E; [|discriminate].
  intros [= <-]. apply find_some in E as [Hg Hr]. exists g. split; [exact Hg|]. split; [now apply rmem_In|reflexivity].
Qed.

Lemma owner_of gs : NoDup (all_names gs) -> forall g r, In g gs -> In r (g_names g) -> owner gs r = Some (key g).
Proof.
  unfold owner. induction gs as [|g0 gs IH]; intros Hn g r Hg Hr; [contradiction|].
  simpl. unfold all_names in Hn. simpl in Hn.
  destruct (rmem r (g_names g0)) eqn:E.
  - destruct Hg as [->|Hg]; [reflexivity|]. exfalso. apply rmem_In in E.
    apply NoDup_remove_2 with (l := []) in Hn || idtac.
    assert (Hin : In r (flat_map g_names gs)) by (apply in_flat_map; eauto).
    clear IH. induction (g_names g0) as [|x l IHl]; [contradiction|].
    simpl in Hn. inversion Hn; subst. destruct E as [->|E].
    + apply H1. apply in_or_app. now right.
    + now apply IHl.
  - destruct Hg as [->|Hg]; [apply rmem_false in E; contradiction|].
    apply IH; auto. revert Hn. clear. induction (g_names g0); simpl; intros H; [exact H|]. inversion H; auto.
Qed.

Lemma owner_none gs r : owner gs r = None <-> ~ In r (all_names gs).
Proof.
  unfold owner. destruct (find (fun g => rmem r (g_names g)) gs) as [g|] eqn:E.
  - split; [discriminate|]. intros H. exfalso. apply H. apply find_some in E as [Hg Hr].
    apply in_flat_map. exists g. split; [exact Hg|now apply rmem_In].
  - split; [|reflexivity]. intros _ Hin. apply in_flat_map in Hin as [g [Hg Hr]].
    pose proof (find_none _ _ E g Hg) as Hf. simpl in Hf. apply rmem_false in Hf. contradiction.
Qed.

Lemma keys_nodup gs : uniq gs -> NoDup (nodes_of gs).
Proof.
  unfold uniq, nodes_of, all_names. induction gs as [|g gs IH]; simpl; intros [Hn Hf]; [constructor|].
  inversion Hf as [|? ? Hg Hf']; subst.
  assert (Hn' : NoDup (flat_map g_names gs)).
  { revert Hn. clear. induction (g_names g); simpl; intros H; [exact H|]. inversion H; auto. }
  constructor; [|apply IH; split; assumption].
  intro Hin. apply in_map_iff in Hin as [g' [Hk Hg']].
  assert (Hk' : In (key g') (g_names g')).
  { apply key_in_names. rewrite Forall_forall in Hf'. now apply Hf'. }
  pose proof (key_in_names g Hg) as Hkg. rewrite <- Hk in Hkg.
  assert (Hin : In (key g') (flat_map g_names gs)) by (apply in_flat_map; eauto).
  revert Hn Hkg Hin. clear. induction (g_names g) as [|x l IHl]; simpl; intros Hn Hk Hin; [contradiction|].
  inversion Hn; subst. destruct Hk as [->|Hk].
  - apply H1. apply in_or_app. now right.
  - now apply IHl.
Qed.

Lemma raw_edges_In gs u v :
  In (u, v) (raw_edges gs) <-> exists g d, In g gs /\ In d (g_deps g) /\ owner gs d = Some u /\ v = key g.
Proof.
  unfold raw_edges, group_edges. rewrite in_flat_map. split.
  - intros [g [Hg Hin]]. apply in_flat_map in Hin as [d [Hd Hin]].
    destruct (owner gs d) as [k|] eqn:E; simpl in Hin; [|contradiction].
    destruct Hin as [[= <- <-]|[]]. exists g, d. auto.
  - intros [g [d [Hg [Hd [Ho ->]]]]]. exists g. split; [exact Hg|]. apply in_flat_map. exists d.
    split; [exact Hd|]. rewrite Ho. simpl. auto.
Qed.

Lemma edges_closed gs u v : In (u, v) (edges_of gs) -> In u (nodes_of gs) /\ In v (nodes_of gs).
Proof.
  rewrite edges_of_In, raw_edges_In. intros [g [d [Hg [Hd [Ho ->]]]]].
  apply owner_some in Ho as [g' [Hg' [_ ->]]]. unfold nodes_of. split; apply in_map; assumption.
Qed.

(* a dependency on a resource somebody produces is an edge producer -> consumer *)
Lemma dep_edge gs g g' d :
  uniq gs -> In g gs -> In d (g_deps g) -> In g' gs -> In d (g_names g') -> In (key g', key g) (edges_of gs).
Proof.
  intros [Hn _] Hg Hd Hg' Hd'. apply edges_of_In, raw_edges_In. exists g, d.
  repeat split; auto. now apply owner_of.
Qed.

Lemma prod_of_key gs g : uniq gs -> In g gs -> prod_of gs (key g) = g_prod g.
Proof.
  intros Hu Hg. pose proof (keys_nodup gs Hu) as Hk. unfold prod_of.
  destruct (find (fun g0 => res_eqb (key g0) (key g)) gs) as [g0|] eqn:E.
  - apply find_some in E as [Hg0 He]. apply res_eqb_eq in He.
    (* equal keys in a NoDup key list: same group *)
    clear Hu. unfold nodes_of in Hk. revert Hk Hg Hg0 He. clear. induction gs as [|x gs IH]; simpl; [tauto|].
    intros Hk Hg Hg0 He. inversion Hk; subst.
    destruct Hg as [->|Hg], Hg0 as [->|Hg0]; auto.
    + exfalso. apply H1. rewrite <- He. now apply in_map.
    + exfalso. apply H1. rewrite He. now apply in_map.
  - exfalso. pose proof (find_none _ _ E g Hg) as Hf. simpl in Hf. rewrite res_eqb_refl in Hf. discriminate.
Qed.
