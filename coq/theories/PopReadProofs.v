(* Lemmas about the read model PopRead.v (property C12).  Statements exposed in coq/props/C12.v. *)
From Viv Require Import Common PopRead.
Local Open Scope Z_scope.

(* ---------------------------------------------------------------------------------------------------------------- *)
(* small facts                                                                                                      *)
(* ---------------------------------------------------------------------------------------------------------------- *)
Lemma is_nil_true {A} (l : list A) : is_nil l = true <-> l = [].
Proof. destruct l; simpl; split; intro H; try reflexivity; discriminate. Qed.

Lemma is_nil_false {A} (l : list A) : is_nil l = false <-> l <> [].
Proof. destruct l; simpl; split; intro H; try discriminate; try congruence; try reflexivity. Qed.

Lemma subset_incl a b : subset a b = true <-> incl a b.
Proof.
  unfold subset. rewrite forallb_forall. unfold incl. split; intros H x Hx.
  - apply zmem_In. now apply H.
  - apply zmem_In. now apply H.
Qed.

Lemma subset_false a b : subset a b = false <-> exists c, In c a /\ ~ In c b.
Proof.
  split.
  - intros H. induction a as [|x a IH]; simpl in H; [discriminate|].
    destruct (zmem x b) eqn:E; simpl in H.
    + destruct (IH H) as [c [Hc Hn]]. exists c. split; [now right|assumption].
    + exists x. split; [now left|]. intro Hin. apply zmem_In in Hin. congruence.
  - intros [c [Hc Hn]]. destruct (subset a b) eqn:E; [|reflexivity].
    exfalso. apply Hn. apply subset_incl in E. now apply E.
Qed.

Lemma zmem_false x l : zmem x l = false <-> ~ In x l.
Proof.
  split.
  - intros H Hin. apply zmem_In in Hin. congruence.
  - intros H. destruct (zmem x l) eqn:E; [|reflexivity]. exfalso. apply H. now apply zmem_In.
Qed.

Lemma zmem_app x a b : zmem x (a ++ b) = zmem x a || zmem x b.
Proof. unfold zmem. apply existsb_app. Qed.

Lemma filter_filter {A} (f g : A -> bool) l : filter f (filter g l) = filter (fun x => g x && f x) l.
Proof.
  induction l as [|x l IH]; simpl; [reflexivity|].
  destruct (g x); simpl; [destruct (f x); now rewrite IH | exact IH].
Qed.

Lemma zassoc_none {A} l (rows : list (Z * A)) : zassoc l rows = None <-> ~ In l (map fst rows).
Proof.
  induction rows as [|[a v] rows IH]; simpl; [tauto|].
  destruct (a =? l) eqn:E.
  - apply Z.eqb_eq in E. split; [discriminate|]. intros H. exfalso. apply H. now left.
  - apply Z.eqb_neq in E. rewrite IH. split; [intros H [H1|H1]; [congruence|now apply H] | intros H H1; apply H; now right].
Qed.

Lemma zassoc_In_fst {A} k (m : list (Z * A)) v : zassoc k m = Some v -> In k (map fst m).
Proof.
  intros H. destruct (zassoc_none k m) as [_ B].
  destruct (in_dec Z.eq_dec k (map fst m)) as [Hin|Hn]; [assumption|].
  rewrite (B Hn) in H. discriminate.
Qed.

(* ---------------------------------------------------------------------------------------------------------------- *)
(* loc: rows by label, request order, repeats kept; None exactly when a label is missing                             *)
(* ---------------------------------------------------------------------------------------------------------------- *)
Definition looked_up (rows : list (Z * row)) (l : list (Z * row)) : Prop :=
  Forall (fun lr => zassoc (fst lr) rows = Some (snd lr)) l.

Lemma loc_spec rows idx l : loc rows idx = Some l -> map fst l = idx /\ looked_up rows l.
Proof.
  revert l; induction idx as [|i rest IH]; simpl; intros l H.
  - inversion H; subst. split; [reflexivity|constructor].
  - destruct (zassoc i rows) eqn:E; [|discriminate]. destruct (loc rows rest) eqn:E2; [|discriminate].
    inversion H; subst. destruct (IH _ eq_refl) as [A B]. split; simpl; [now rewrite A | constructor; assumption].
Qed.

Lemma loc_none rows idx : loc rows idx = None <-> exists i, In i idx /\ zassoc i rows = None.
Proof.
  induction idx as [|i rest IH]; simpl.
  - split; [discriminate | intros [i [[] _]]].
  - destruct (zassoc i rows) eqn:E.
    + destruct (loc rows rest) as [l|].
      * split; [discriminate|]. intros [j [[Hj|Hj] Hn]]; [subst; congruence|].
        destruct IH as [_ IH2]. assert (X : Some l = None) by (apply IH2; exists j; auto). discriminate.
      * split; [|reflexivity]. intros _. destruct IH as [IH1 _]. destruct (IH1 eq_refl) as [j [Hj Hn]].
        exists j. split; [now right|assumption].
    + split; [|reflexivity]. intros _. exists i. split; [now left|assumption].
Qed.

Lemma looked_up_filter rows (p : Z * row -> bool) l : looked_up rows l -> looked_up rows (filter p l).
Proof.
  unfold looked_up. rewrite !Forall_forall. intros H x Hx. apply filter_In in Hx. now apply H.
Qed.

Lemma filter_rows rows (g : row -> bool) l : looked_up rows l ->
  map fst (filter (fun lr => g (snd lr)) l)
  = filter (fun i => match zassoc i rows with Some r => g r | None => false end) (map fst l).
Proof.
  induction l as [|[i r] l IH]; simpl; intros H; [reflexivity|].
  inversion H as [|x y Hx Hl]; subst. simpl in Hx. rewrite Hx.
  destruct (g r); simpl; now rewrite (IH Hl).
Qed.

(* ---------------------------------------------------------------------------------------------------------------- *)
(* get                                                                                                              *)
(* ---------------------------------------------------------------------------------------------------------------- *)
Definition keep (t : table) (v : view) (q : qexpr) (l : Z) : bool := sat t (vquery v) l && sat t q l.

Theorem get_spec t v idx q cols rows : get t v idx q = Ok (cols, rows) ->
  cols = view_columns t v /\
  map fst rows = filter (keep t v q) idx /\
  Forall (fun lr => exists r, zassoc (fst lr) (trows t) = Some r /\
                              snd lr = map (cell_of (colnames t) r) cols) rows.
Proof.
  unfold get. destruct (loc (trows t) idx) as [l0|] eqn:EL; [|discriminate].
  destruct (negb (is_nil idx) && negb (subset (qcols (vquery v) ++ qcols q) (colnames t))); [discriminate|].
  destruct (negb (subset (view_columns t v) (colnames t))); [discriminate|].
  intros H. inversion H; subst; clear H.
  destruct (loc_spec _ _ _ EL) as [Hidx Hl0].
  split; [reflexivity|]. split.
  - unfold project. rewrite map_map. simpl.
    change (map (fun x : Z * row => fst x)) with (@map (Z * row) Z fst).
    rewrite (filter_rows (trows t) (fun r => eval (colnames t) r q)) by (now apply looked_up_filter).
    rewrite (filter_rows (trows t) (fun r => eval (colnames t) r (vquery v))) by assumption.
    rewrite Hidx, filter_filter. apply filter_ext. intros a. unfold keep, sat. reflexivity.
  - unfold project. apply Forall_forall. intros x Hx. apply in_map_iff in Hx as [lr [Hx Hin]]. subst x. simpl.
    exists (snd lr). split; [|reflexivity].
    assert (Hk : looked_up (trows t) (filter (fun lr => eval (colnames t) (snd lr) q)
                   (filter (fun lr => eval (colnames t) (snd lr) (vquery v)) l0)))
      by (now apply looked_up_filter, looked_up_filter).
    unfold looked_up in Hk. rewrite Forall_forall in Hk. now apply Hk.
Qed.

(* when does a read succeed?  exactly when every label exists, every name in the queries exists (not checked for
   an empty request) and every view column exists *)
Theorem get_ok_iff t v idx q : (exists f, get t v idx q = Ok f) <->
  (forall i, In i idx -> zassoc i (trows t) <> None) /\
  (idx = [] \/ incl (qcols (vquery v) ++ qcols q) (colnames t)) /\
  incl (view_columns t v) (colnames t).
Proof.
  unfold get. split.
  - intros [f H]. destruct (loc (trows t) idx) as [l0|] eqn:EL; [|discriminate].
    destruct (is_nil idx) eqn:EN; simpl in H.
    + destruct (subset (view_columns t v) (colnames t)) eqn:ES; simpl in H; [|discriminate].
      apply is_nil_true in EN. subst idx. split; [intros i []|]. split; [now left | now apply subset_incl].
    + destruct (subset (qcols (vquery v) ++ qcols q) (colnames t)) eqn:EQ; simpl in H; [|discriminate].
      destruct (subset (view_columns t v) (colnames t)) eqn:ES; simpl in H; [|discriminate].
      split.
      * intros i Hi Hn. assert (X : loc (trows t) idx = None) by (apply loc_none; exists i; auto). congruence.
      * split; [right; now apply subset_incl | now apply subset_incl].
  - intros [Hl [Hq Hc]]. destruct (loc (trows t) idx) as [l0|] eqn:EL.
    + apply subset_incl in Hc. rewrite Hc. simpl.
      destruct Hq as [Hq|Hq].
      * subst idx. simpl. eexists; reflexivity.
      * apply subset_incl in Hq. rewrite Hq. simpl. rewrite andb_false_r. eexists; reflexivity.
    + apply loc_none in EL as [i [Hi Hn]]. exfalso. now apply (Hl i).
Qed.

(* a label that is not in the table: KeyError, before anything else is looked at *)
Theorem get_unknown_label t v idx q i : In i idx -> zassoc i (trows t) = None -> get t v idx q = Rejected EOther.
Proof.
  intros Hi Hn. unfold get. assert (X : loc (trows t) idx = None) by (apply loc_none; exists i; auto).
  now rewrite X.
Qed.

(* a view column that the table does not have: never a frame; PopulationError as soon as the request itself is fine *)
Theorem get_missing_column t v idx q c : In c (view_columns t v) -> ~ In c (colnames t) ->
  (exists e, get t v idx q = Rejected e) /\
  ((forall i, In i idx -> zassoc i (trows t) <> None) ->
   (idx = [] \/ incl (qcols (vquery v) ++ qcols q) (colnames t)) ->
   get t v idx q = Rejected EPopulation).
Proof.
  intros Hc Hn.
  assert (ES : subset (view_columns t v) (colnames t) = false) by (apply subset_false; exists c; auto).
  unfold get. rewrite ES. simpl. split.
  - destruct (loc (trows t) idx); [|eexists; reflexivity].
    destruct (negb (is_nil idx) && negb (subset (qcols (vquery v) ++ qcols q) (colnames t))); eexists; reflexivity.
  - intros Hl Hq. destruct (loc (trows t) idx) as [l0|] eqn:EL.
    + destruct Hq as [Hq|Hq]; [subst idx; reflexivity|]. apply subset_incl in Hq. rewrite Hq. simpl.
      now rewrite andb_false_r.
    + apply loc_none in EL as [i [Hi Hx]]. exfalso. now apply (Hl i).
Qed.

(* ---------------------------------------------------------------------------------------------------------------- *)
(* the default tracked filter                                                                                       *)
(* ---------------------------------------------------------------------------------------------------------------- *)
Lemma eval_with_default cs r q : eval cs r (with_default q) = eval cs r q && eval cs r tracked_true.
Proof. destruct q; reflexivity. Qed.

Lemma sat_with_default t q l : sat t (with_default q) l = sat t q l && is_tracked t l.
Proof.
  unfold is_tracked, sat. destruct (zassoc l (trows t)); [apply eval_with_default | reflexivity].
Qed.

Lemma mentions_with_default q : mentions_tracked (with_default q) = true.
Proof.
  unfold mentions_tracked. destruct q; try reflexivity; simpl; rewrite ?zmem_app; simpl;
    rewrite ?orb_true_r; reflexivity.
Qed.

Lemma needs_default_true cols q : needs_default cols q = true <-> cols <> [] /\ ~ In TRACKED cols /\ mentions_tracked q = false.
Proof.
  unfold needs_default. rewrite !andb_true_iff, !negb_true_iff, is_nil_false, zmem_false. tauto.
Qed.

Lemma mk_view_default cols q : cols <> [] -> ~ In TRACKED cols -> mentions_tracked q = false ->
  mk_view cols q = mkV cols (with_default q).
Proof.
  intros A B C. unfold mk_view. assert (X : needs_default cols q = true) by (apply needs_default_true; auto).
  now rewrite X.
Qed.

Lemma mk_view_keep cols q : cols = [] \/ In TRACKED cols \/ mentions_tracked q = true -> mk_view cols q = mkV cols q.
Proof.
  intros H. unfold mk_view. destruct (needs_default cols q) eqn:E; [|reflexivity].
  apply needs_default_true in E as [A [B C]]. destruct H as [H|[H|H]]; [contradiction|contradiction|congruence].
Qed.

Lemma vcols_mk_view cols q : vcols (mk_view cols q) = cols.
Proof. reflexivity. Qed.

Theorem tracked_default_applies t cols q idx q' c rows :
  cols <> [] -> ~ In TRACKED cols -> mentions_tracked q = false ->
  get t (mk_view cols q) idx q' = Ok (c, rows) ->
  c = cols /\
  map fst rows = filter (fun l => sat t q l && is_tracked t l && sat t q' l) idx /\
  (forall l, In l (map fst rows) -> is_tracked t l = true).
Proof.
  intros A B C H. rewrite (mk_view_default _ _ A B C) in H. apply get_spec in H as [Hc [Hr _]].
  assert (E : map fst rows = filter (fun l => sat t q l && is_tracked t l && sat t q' l) idx).
  { rewrite Hr. apply filter_ext. intros l. unfold keep. simpl. now rewrite sat_with_default. }
  split.
  - rewrite Hc. unfold view_columns. simpl. destruct cols; [contradiction|reflexivity].
  - split; [exact E|]. intros l Hl. rewrite E in Hl. apply filter_In in Hl as [_ Hl].
    apply andb_true_iff in Hl as [Hl _]. apply andb_true_iff in Hl as [_ Hl]. exact Hl.
Qed.

Theorem tracked_default_absent t cols q idx q' c rows :
  cols = [] \/ In TRACKED cols \/ mentions_tracked q = true ->
  get t (mk_view cols q) idx q' = Ok (c, rows) ->
  map fst rows = filter (fun l => sat t q l && sat t q' l) idx.
Proof.
  intros A H. rewrite (mk_view_keep _ _ A) in H. apply get_spec in H as [_ [Hr _]]. exact Hr.
Qed.

Lemma is_tracked_bool t l b : cell_at t l TRACKED = Some (Bv b) -> is_tracked t l = b.
Proof.
  unfold cell_at, is_tracked, sat. destruct (zassoc l (trows t)); [|discriminate].
  intros H. inversion H as [H1]. simpl. rewrite H1. destruct b; reflexivity.
Qed.

(* membership is the disjunction of the equalities (so `in` adds no way around the default filter either) *)
Fixpoint in_as_or (c : cid) (ks : list cell) : qexpr :=
  match ks with
  | [] => QNot QTrue
  | k :: rest => QOr (QCmp c CEq k) (in_as_or c rest)
  end.

Lemma eval_in_as_or cs r c ks : eval cs r (QIn c ks) = eval cs r (in_as_or c ks).
Proof. induction ks as [|k ks IH]; simpl; [reflexivity|]. simpl in IH. now rewrite IH. Qed.

Lemma mentions_in c ks : mentions_tracked (QIn c ks) = (TRACKED =? c).
Proof. unfold mentions_tracked. simpl. now rewrite orb_false_r. Qed.

(* ---------------------------------------------------------------------------------------------------------------- *)
(* sub-views                                                                                                        *)
(* ---------------------------------------------------------------------------------------------------------------- *)
Theorem subview_ok t v cols v' : subview t v cols = Ok v' ->
  cols <> [] /\ incl cols (view_columns t v) /\ v' = mk_view cols (vquery v).
Proof.
  unfold subview. destruct (is_nil cols) eqn:E1; simpl; [discriminate|].
  destruct (subset cols (view_columns t v)) eqn:E2; simpl; [|discriminate].
  intros H. inversion H. split; [now apply is_nil_false|]. split; [now apply subset_incl | reflexivity].
Qed.

Theorem subview_accepts t v cols : cols <> [] -> incl cols (view_columns t v) ->
  subview t v cols = Ok (mk_view cols (vquery v)).
Proof.
  intros A B. unfold subview. apply is_nil_false in A. apply subset_incl in B. now rewrite A, B.
Qed.

Theorem subview_rejects t v cols : cols = [] \/ ~ incl cols (view_columns t v) ->
  subview t v cols = Rejected EPopulation.
Proof.
  intros [H|H]; unfold subview.
  - subst. reflexivity.
  - destruct (subset cols (view_columns t v)) eqn:E; [apply subset_incl in E; contradiction|].
    now rewrite orb_true_r.
Qed.

(* every view reachable from get_view(cols0, q0) by sub-viewing, at any depth, while the table changes arbitrarily *)
Inductive derived (q0 : qexpr) : view -> Prop :=
  | d_root cols : derived q0 (mk_view cols q0)
  | d_sub t v cols v' : derived q0 v -> subview t v cols = Ok v' -> derived q0 v'.

Theorem derived_query q0 v : derived q0 v ->
  (mentions_tracked q0 = true -> vquery v = q0) /\
  (mentions_tracked q0 = false ->
     (vquery v = q0 \/ vquery v = with_default q0) /\
     (vcols v <> [] -> ~ In TRACKED (vcols v) -> vquery v = with_default q0)).
Proof.
  induction 1 as [cols | t v cols v' Hd [IH1 IH2] Hs].
  - split.
    + intros M. rewrite mk_view_keep by auto. reflexivity.
    + intros M. split.
      * unfold mk_view. simpl. destruct (needs_default cols q0); auto.
      * intros A B. rewrite vcols_mk_view in A, B. now rewrite mk_view_default.
  - apply subview_ok in Hs as [A [_ E]]. subst v'. split.
    + intros M. rewrite (IH1 M). rewrite mk_view_keep by auto. reflexivity.
    + intros M. destruct (IH2 M) as [[Q|Q] _]; rewrite Q.
      * split.
        -- unfold mk_view. simpl. destruct (needs_default cols q0); auto.
        -- intros A' B. rewrite vcols_mk_view in A', B. now rewrite mk_view_default.
      * rewrite mk_view_keep by (right; right; apply mentions_with_default). simpl. split; auto.
Qed.

(* a sub-view never shows more than its ancestors' query allows, and shows tracked simulants only as soon as it has
   columns but not `tracked` (unless the root query speaks about tracked itself) *)
Theorem derived_read t q0 v idx q' c rows : derived q0 v -> get t v idx q' = Ok (c, rows) ->
  (forall l, In l (map fst rows) -> sat t q0 l = true /\ sat t q' l = true) /\
  (mentions_tracked q0 = true -> map fst rows = filter (fun l => sat t q0 l && sat t q' l) idx) /\
  (mentions_tracked q0 = false -> vcols v <> [] -> ~ In TRACKED (vcols v) ->
     map fst rows = filter (fun l => sat t q0 l && is_tracked t l && sat t q' l) idx).
Proof.
  intros Hd H. apply get_spec in H as [_ [Hr _]]. destruct (derived_query _ _ Hd) as [D1 D2]. split; [|split].
  - intros l Hl. rewrite Hr in Hl. apply filter_In in Hl as [_ Hl]. unfold keep in Hl.
    apply andb_true_iff in Hl as [Hv Hq]. split; [|exact Hq].
    destruct (mentions_tracked q0) eqn:M.
    + now rewrite (D1 eq_refl) in Hv.
    + destruct (D2 eq_refl) as [[Q|Q] _]; rewrite Q in Hv; [exact Hv|].
      rewrite sat_with_default in Hv. now apply andb_true_iff in Hv as [Hv _].
  - intros M. rewrite Hr. apply filter_ext. intros l. unfold keep. now rewrite (D1 M).
  - intros M A B. rewrite Hr. apply filter_ext. intros l. unfold keep.
    destruct (D2 M) as [_ Q]. rewrite (Q A B). now rewrite sat_with_default.
Qed.

(* ---------------------------------------------------------------------------------------------------------------- *)
(* writes: what a later read sees                                                                                   *)
(* ---------------------------------------------------------------------------------------------------------------- *)
Lemma cell_of_nil cs c : cell_of cs [] c = Null.
Proof. destruct cs; reflexivity. Qed.

Lemma cell_of_set_same cs : forall r c v, In c cs -> cell_of cs (set_cell cs r c v) c = v.
Proof.
  induction cs as [|k cs IH]; intros r c v Hin; [contradiction|].
  simpl. destruct r as [|x r]; destruct (k =? c) eqn:E; simpl; rewrite ?E; try reflexivity;
    apply IH; (destruct Hin as [Hin|Hin]; [apply Z.eqb_neq in E; congruence|assumption]).
Qed.

Lemma cell_of_set_other cs : forall r c c' v, c' <> c -> cell_of cs (set_cell cs r c v) c' = cell_of cs r c'.
Proof.
  induction cs as [|k cs IH]; intros r c c' v Hne; [reflexivity|].
  simpl. destruct r as [|x r]; destruct (k =? c) eqn:E; simpl.
  - apply Z.eqb_eq in E. subst k. assert (X : c =? c' = false) by (apply Z.eqb_neq; congruence). rewrite X.
    apply cell_of_nil.
  - destruct (k =? c'); [reflexivity|]. rewrite IH by assumption. apply cell_of_nil.
  - apply Z.eqb_eq in E. subst k. assert (X : c =? c' = false) by (apply Z.eqb_neq; congruence). now rewrite X.
  - destruct (k =? c'); [reflexivity|]. now apply IH.
Qed.

Lemma zassoc_write rows cs c l v l' :
  zassoc l' (map (fun lr : Z * row => if fst lr =? l then (fst lr, set_cell cs (snd lr) c v) else lr) rows)
  = match zassoc l' rows with None => None | Some r => Some (if l' =? l then set_cell cs r c v else r) end.
Proof.
  induction rows as [|[a r] rows IH]; simpl; [reflexivity|].
  destruct (a =? l) eqn:E1; simpl; destruct (a =? l') eqn:E2; try exact IH.
  - apply Z.eqb_eq in E1, E2. subst. now rewrite Z.eqb_refl.
  - apply Z.eqb_eq in E2. subst a. now rewrite E1.
Qed.

Lemma cell_at_write1 t c l v l' c' : In c (colnames t) ->
  cell_at (write1 t c l v) l' c'
  = match cell_at t l' c' with
    | None => None
    | Some old => Some (if (l' =? l) && (c' =? c) then v else old)
    end.
Proof.
  intros Hin. unfold cell_at, write1. simpl. unfold colnames at 1. simpl. fold (colnames t).
  rewrite zassoc_write. destruct (zassoc l' (trows t)) as [r|]; [|reflexivity].
  destruct (l' =? l); simpl; [|reflexivity].
  destruct (c' =? c) eqn:E.
  - apply Z.eqb_eq in E. subst c'. now rewrite cell_of_set_same.
  - apply Z.eqb_neq in E. now rewrite cell_of_set_other.
Qed.

Lemma colnames_write1 t c l v : colnames (write1 t c l v) = colnames t.
Proof. reflexivity. Qed.

Lemma labels_write1 t c l v : map fst (trows (write1 t c l v)) = map fst (trows t).
Proof.
  unfold write1. simpl. rewrite map_map. apply map_ext. intros [a r]. simpl. destruct (a =? l); reflexivity.
Qed.

Lemma apply_wr_cons t c l v us : apply_wr t (c, (l, v) :: us) = apply_wr (write1 t c l v) (c, us).
Proof. reflexivity. Qed.

Lemma cell_at_apply_wr c us : forall t l' c', In c (colnames t) ->
  cell_at (apply_wr t (c, us)) l' c'
  = match cell_at t l' c' with
    | None => None
    | Some old => Some (if c' =? c then match last_hit us l' with Some v => v | None => old end else old)
    end.
Proof.
  induction us as [|[l v] us IH]; intros t l' c' Hin.
  - unfold apply_wr. simpl. destruct (cell_at t l' c'); [|reflexivity]. now destruct (c' =? c).
  - rewrite apply_wr_cons, IH by (now rewrite colnames_write1). rewrite cell_at_write1 by assumption.
    destruct (cell_at t l' c') as [old|]; [|reflexivity]. simpl.
    destruct (c' =? c); [|now rewrite andb_false_r].
    rewrite andb_true_r. destruct (last_hit us l'); [reflexivity|].
    rewrite (Z.eqb_sym l l'). now destruct (l' =? l).
Qed.

Definition same_shape (t t' : table) : Prop := tcols t' = tcols t /\ map fst (trows t') = map fst (trows t).

Lemma same_shape_refl t : same_shape t t.
Proof. split; reflexivity. Qed.

Lemma same_shape_trans a b c : same_shape a b -> same_shape b c -> same_shape a c.
Proof. intros [A1 A2] [B1 B2]. split; congruence. Qed.

Lemma apply_wr_shape w : forall t, same_shape t (apply_wr t w).
Proof.
  destruct w as [c us]. induction us as [|[l v] us IH]; intros t; [apply same_shape_refl|].
  rewrite apply_wr_cons. eapply same_shape_trans; [|apply IH]. split; [reflexivity|apply labels_write1].
Qed.

Lemma wr_ok_shape t t' w : same_shape t t' -> wr_ok t' w = wr_ok t w.
Proof. intros [A B]. unfold wr_ok. now rewrite A, B. Qed.

Lemma do_wr_shape t w : same_shape t (do_wr t w).
Proof. unfold do_wr. destruct (wr_ok t w); [apply apply_wr_shape | apply same_shape_refl]. Qed.

Lemma do_wrs_shape ws : forall t, same_shape t (do_wrs t ws).
Proof.
  induction ws as [|w ws IH]; intros t; [apply same_shape_refl|].
  unfold do_wrs. simpl. eapply same_shape_trans; [apply (do_wr_shape t w) | apply IH].
Qed.

Lemma wr_ok_column t w : wr_ok t w = true -> In (fst w) (colnames t).
Proof.
  unfold wr_ok. destruct (zassoc (fst w) (tcols t)) eqn:E; [|discriminate]. intros _.
  unfold colnames. eapply zassoc_In_fst. exact E.
Qed.

Lemma cell_at_do_wr t t0 w l c : same_shape t0 t ->
  cell_at (do_wr t w) l c
  = match cell_at t l c with
    | None => None
    | Some old => Some (if wr_ok t0 w && (fst w =? c)
                        then match last_hit (snd w) l with Some v => v | None => old end else old)
    end.
Proof.
  intros Hs. unfold do_wr. rewrite (wr_ok_shape _ _ w Hs).
  destruct (wr_ok t0 w) eqn:E; simpl.
  - destruct w as [c0 us]. rewrite cell_at_apply_wr.
    + simpl. now rewrite (Z.eqb_sym c c0).
    + apply (wr_ok_column t (c0, us)). now rewrite (wr_ok_shape _ _ _ Hs).
  - now destruct (cell_at t l c).
Qed.

(* the table after ANY history of updates: each cell holds the value of the last accepted update that addressed it *)
Theorem cell_at_do_wrs ws : forall t t0 l c, same_shape t0 t ->
  cell_at (do_wrs t ws) l c
  = match cell_at t l c with None => None | Some old => Some (current t0 ws l c old) end.
Proof.
  induction ws as [|w ws IH]; intros t t0 l c Hs.
  - simpl. now destruct (cell_at t l c).
  - change (do_wrs t (w :: ws)) with (do_wrs (do_wr t w) ws).
    rewrite (IH (do_wr t w) t0) by (eapply same_shape_trans; [exact Hs | apply do_wr_shape]).
    rewrite (cell_at_do_wr t t0) by assumption.
    destruct (cell_at t l c); reflexivity.
Qed.

Lemma current_app t ws1 : forall ws2 l c o, current t (ws1 ++ ws2) l c o = current t ws2 l c (current t ws1 l c o).
Proof. induction ws1 as [|w ws1 IH]; intros; simpl; [reflexivity | apply IH]. Qed.

(* the last accepted update addressing the cell wins *)
Lemma current_last t ws w l c o v : wr_ok t w = true -> fst w = c -> last_hit (snd w) l = Some v ->
  current t (ws ++ [w]) l c o = v.
Proof.
  intros A B C. rewrite current_app. simpl. subst c. now rewrite A, Z.eqb_refl, C.
Qed.

(* a cell no accepted update addressed still holds its original value *)
Lemma current_untouched t ws l c o :
  (forall w, In w ws -> wr_ok t w = true -> fst w = c -> last_hit (snd w) l = None) -> current t ws l c o = o.
Proof.
  revert o. induction ws as [|w ws IH]; intros o H; [reflexivity|]. simpl.
  rewrite IH by (intros w' Hin; apply H; now right).
  destruct (wr_ok t w) eqn:A; simpl; [|reflexivity].
  destruct (fst w =? c) eqn:B; [|reflexivity]. apply Z.eqb_eq in B.
  now rewrite (H w (or_introl eq_refl) A B).
Qed.

(* a rejected update can be deleted from the history *)
Lemma current_rejected t w ws l c o : wr_ok t w = false -> current t (w :: ws) l c o = current t ws l c o.
Proof. intros A. simpl. now rewrite A. Qed.

Theorem read_after_history t ws v idx q cols rows :
  get (do_wrs t ws) v idx q = Ok (cols, rows) ->
  map fst rows = filter (keep (do_wrs t ws) v q) idx /\
  Forall (fun lr => exists r0, zassoc (fst lr) (trows t) = Some r0 /\
                    snd lr = map (fun c => current t ws (fst lr) c (cell_of (colnames t) r0 c)) cols) rows.
Proof.
  intros H. apply get_spec in H as [_ [Hr Hc]]. split; [exact Hr|].
  rewrite Forall_forall in *. intros lr Hin. destruct (Hc lr Hin) as [r [Hz Hcells]].
  set (t' := do_wrs t ws) in *.
  assert (Hs : same_shape t t') by apply do_wrs_shape.
  destruct (zassoc (fst lr) (trows t)) as [r0|] eqn:E0.
  - exists r0. split; [reflexivity|]. rewrite Hcells. apply map_ext. intros c.
    assert (X := cell_at_do_wrs ws t t (fst lr) c (same_shape_refl t)).
    fold t' in X. unfold cell_at in X. rewrite Hz, E0 in X. now inversion X.
  - exfalso. apply zassoc_none in E0. apply E0. destruct Hs as [_ Hl]. rewrite <- Hl.
    eapply zassoc_In_fst. exact Hz.
Qed.

(* ---------------------------------------------------------------------------------------------------------------- *)
(* arithmetic terms                                                                                                 *)
(* ---------------------------------------------------------------------------------------------------------------- *)
Lemma frac_den_pos v n d : frac v = Some (n, d) -> 0 < d.
Proof. destruct v; simpl; intros H; inversion H; lia. Qed.

(* denominators stay positive, so comparing fractions by cross-multiplication is comparing their values *)
Lemma tval_den_pos cs r t : forall n d, tval cs r t = Some (n, d) -> 0 < d.
Proof.
  induction t as [c|k|a IHa b IHb|a IHa b IHb|a IHa b IHb]; simpl; intros n d H;
    try (eapply frac_den_pos; exact H);
    destruct (tval cs r a) as [[n1 d1]|]; try discriminate;
    destruct (tval cs r b) as [[n2 d2]|]; try discriminate;
    inversion H; subst; specialize (IHa _ _ eq_refl); specialize (IHb _ _ eq_refl); nia.
Qed.

Lemma cmp_z_scale o k x y : 0 < k -> cmp_z o (k * x) (k * y) = cmp_z o x y.
Proof.
  intros Hk. destruct o; simpl;
    repeat match goal with
           | |- context [?a =? ?b] => destruct (Z.eqb_spec a b)
           | |- context [?a <? ?b] => destruct (Z.ltb_spec a b)
           | |- context [?a <=? ?b] => destruct (Z.leb_spec a b)
           end; simpl; try reflexivity; exfalso; nia.
Qed.

Ltac cmp_cases :=
  repeat match goal with
         | |- context [?a =? ?b] => destruct (Z.eqb_spec a b)
         | |- context [?a <? ?b] => destruct (Z.ltb_spec a b)
         | |- context [?a <=? ?b] => destruct (Z.leb_spec a b)
         end; simpl; try reflexivity; exfalso; lia.

(* a term comparison of a bare column with a constant is the plain comparison (on numeric cells; NaN likewise) *)
Local Opaque Z.mul.
Lemma cmpt_atom cs r c o k : (exists y, num k = Some y) ->
  (forall z, cell_of cs r c <> Sv z) ->
  eval cs r (QCmpT (TCol c) o (TConst k)) = eval cs r (QCmp c o k).
Proof.
  intros [y Hy] Hs. simpl. destruct (cell_of cs r c) as [|b|z|z|z] eqn:E; destruct k as [|b'|z'|z'|z']; simpl in *;
    try discriminate; try (exfalso; now apply (Hs z)); try reflexivity;
    try (destruct b); try (destruct b'); unfold eval_cmp_frac, eval_cmp; simpl;
    try reflexivity; destruct o; unfold cmp_z; cmp_cases.
Qed.
Local Transparent Z.mul.

(* ---------------------------------------------------------------------------------------------------------------- *)
(* get_population                                                                                                   *)
(* ---------------------------------------------------------------------------------------------------------------- *)
Lemma population_untracked t : population t true = (colnames t, trows t).
Proof. reflexivity. Qed.

Lemma nodup_looked_up rows : NoDup (map fst rows) -> looked_up rows rows.
Proof.
  unfold looked_up. induction rows as [|[a r] rows IH]; simpl; intros H; [constructor|].
  inversion H as [|x l Hn Hd]; subst. constructor.
  - simpl. now rewrite Z.eqb_refl.
  - specialize (IH Hd). rewrite Forall_forall in *. intros lr Hin. simpl.
    destruct (a =? fst lr) eqn:E; [|now apply IH].
    apply Z.eqb_eq in E. exfalso. apply Hn. rewrite E. now apply in_map.
Qed.

(* get_population(untracked=False): exactly the rows whose tracked cell is True, in table order; with unique labels
   these are the simulants a full view with the query `tracked` returns for the whole index *)
Theorem population_tracked t : In TRACKED (colnames t) ->
  fst (population t false) = colnames t /\
  snd (population t false) = filter (fun lr => eval (colnames t) (snd lr) (QCol TRACKED)) (trows t) /\
  (NoDup (map fst (trows t)) ->
   map fst (snd (population t false)) = filter (sat t (QCol TRACKED)) (map fst (trows t))).
Proof.
  intros Hin. apply zmem_In in Hin. unfold population. rewrite Hin. simpl. split; [reflexivity|]. split; [reflexivity|].
  intros Hnd. rewrite (filter_rows (trows t) (fun r => eval (colnames t) r (QCol TRACKED))) by (now apply nodup_looked_up).
  apply filter_ext. intros l. unfold sat. reflexivity.
Qed.

Theorem population_vs_full_view t c rows : In TRACKED (colnames t) -> NoDup (map fst (trows t)) ->
  get t (mk_view [] (QCol TRACKED)) (map fst (trows t)) QTrue = Ok (c, rows) ->
  map fst rows = map fst (snd (population t false)).
Proof.
  intros Hin Hnd H. destruct (population_tracked t Hin) as [_ [_ P]]. rewrite (P Hnd).
  apply get_spec in H as [_ [Hr _]]. rewrite Hr. apply filter_ext. intros l. unfold keep.
  rewrite mk_view_keep by (now left). unfold sat. simpl.
  destruct (zassoc l (trows t)); simpl; [apply andb_true_r | reflexivity].
Qed.

(* a table without a tracked column (before the manager's initializer has run) is returned whole *)
Lemma population_no_tracked_column t u : ~ In TRACKED (colnames t) -> population t u = (colnames t, trows t).
Proof. intros H. apply zmem_false in H. unfold population. rewrite H. now rewrite orb_true_r. Qed.
