(* Lemmas about the lookup-table model (DESIGN.md C15). *)
From Viv Require Import Common Lookup.
From Coq Require Import Permutation Sorted.
Local Open Scope Z_scope.

(* ================================================================================================================ *)
(* A. generic list facts                                                                                            *)
(* ================================================================================================================ *)
Lemma zlist_eqb_refl l : zlist_eqb l l = true.
Proof. now apply zlist_eqb_eq. Qed.

Lemma zlist_eqb_neq l1 l2 : zlist_eqb l1 l2 = false <-> l1 <> l2.
Proof.
  split.
  - intros H E. apply zlist_eqb_eq in E. congruence.
  - intros H. destruct (zlist_eqb l1 l2) eqn:E; [|reflexivity]. apply zlist_eqb_eq in E. contradiction.
Qed.

Lemma filter_filter_impl {A} (P Q : A -> bool) l :
  (forall x, P x = true -> Q x = true) -> filter P (filter Q l) = filter P l.
Proof.
  intros H. induction l as [|a t IH]; simpl; [reflexivity|].
  destruct (Q a) eqn:EQ; simpl.
  - destruct (P a); [now rewrite IH | exact IH].
  - destruct (P a) eqn:EP; [apply H in EP; congruence | exact IH].
Qed.

Lemma filter_length_impl {A} (P Q : A -> bool) l :
  (forall x, P x = true -> Q x = true) -> (length (filter P l) <= length (filter Q l))%nat.
Proof.
  intros H. induction l as [|a t IH]; simpl; [lia|].
  destruct (P a) eqn:EP.
  - rewrite (H _ EP). simpl. lia.
  - destruct (Q a); simpl; lia.
Qed.

Lemma NoDup_map_filter {A B} (f : A -> B) (P : A -> bool) l : NoDup (map f l) -> NoDup (map f (filter P l)).
Proof.
  induction l as [|a t IH]; simpl; intros H; [constructor|].
  inversion H as [|? ? Hn Ht]; subst. destruct (P a); simpl; [|now apply IH].
  constructor; [|now apply IH]. intros Hin. apply Hn. apply in_map_iff in Hin as [x [E Hx]].
  apply filter_In in Hx as [Hx _]. apply in_map_iff. eauto.
Qed.

Lemma NoDup_map_inj {A B} (f : A -> B) l a b : NoDup (map f l) -> In a l -> In b l -> f a = f b -> a = b.
Proof.
  induction l as [|x t IH]; simpl; intros H Ha Hb E; [contradiction|].
  inversion H as [|? ? Hn Ht]; subst. destruct Ha as [->|Ha], Hb as [->|Hb]; try reflexivity.
  - exfalso. apply Hn. rewrite E. now apply in_map.
  - exfalso. apply Hn. rewrite <- E. now apply in_map.
  - now apply IH.
Qed.

(* at most one element of l is mapped to a given value *)
Lemma NoDup_map_filter_le1 {A} (f : A -> Z) l e :
  NoDup (map f l) -> (length (filter (fun x => Z.eqb (f x) e) l) <= 1)%nat.
Proof.
  induction l as [|a t IH]; simpl; intros H; [lia|].
  inversion H as [|? ? Hn Ht]; subst. specialize (IH Ht).
  destruct (Z.eqb_spec (f a) e) as [E|]; [|exact IH]. simpl.
  destruct (filter (fun x => f x =? e) t) as [|b r] eqn:F; [simpl; lia|].
  exfalso. apply Hn. assert (Hb : In b (filter (fun x => f x =? e) t)) by (rewrite F; now left).
  apply filter_In in Hb as [Hb Eb]. apply Z.eqb_eq in Eb. rewrite E, <- Eb. now apply in_map.
Qed.

Lemma combine_map_fst {A B} (g : A -> B) (f : A -> Z) l : combine (map f l) (map g l) = map (fun x => (f x, g x)) l.
Proof. induction l as [|a t IH]; simpl; [reflexivity | now rewrite IH]. Qed.

Lemma existsb_swap {A B} (f : A -> B -> bool) la lb :
  existsb (fun a => existsb (f a) lb) la = existsb (fun b => existsb (fun a => f a b) la) lb.
Proof.
  apply eq_true_iff_eq. rewrite !existsb_exists. split.
  - intros [a [Ha H]]. apply existsb_exists in H as [b [Hb H]]. exists b. split; [exact Hb|].
    apply existsb_exists. eauto.
  - intros [b [Hb H]]. apply existsb_exists in H as [a [Ha H]]. exists a. split; [exact Ha|].
    apply existsb_exists. eauto.
Qed.

(* ================================================================================================================ *)
(* B. sort_u : the strictly increasing list of the distinct values                                                  *)
(* ================================================================================================================ *)
Definition increasing (l : list Z) : Prop := StronglySorted Z.lt l.

Lemma insert_u_In x y l : In y (insert_u x l) <-> y = x \/ In y l.
Proof.
  induction l as [|a t IH]; simpl.
  - intuition.
  - destruct (Z.ltb_spec x a); [simpl; intuition|].
    destruct (Z.eqb_spec x a) as [->|]; simpl; [intuition|]. rewrite IH. intuition.
Qed.

Lemma sort_u_In y l : In y (sort_u l) <-> In y l.
Proof.
  induction l as [|a t IH]; simpl; [tauto|]. unfold sort_u in *. simpl. rewrite insert_u_In, IH. intuition.
Qed.

Lemma insert_u_increasing x l : increasing l -> increasing (insert_u x l).
Proof.
  unfold increasing. induction l as [|a t IH]; simpl; intros H.
  - repeat constructor.
  - inversion H as [|? ? Ht Ha]; subst. destruct (Z.ltb_spec x a) as [Hlt|Hge].
    + constructor; [exact H|]. constructor; [exact Hlt|].
      rewrite Forall_forall in *. intros z Hz. specialize (Ha z Hz). lia.
    + destruct (Z.eqb_spec x a) as [->|Hne]; [exact H|].
      constructor; [now apply IH|]. rewrite Forall_forall in *. intros z Hz.
      apply insert_u_In in Hz as [->|Hz]; [lia | now apply Ha].
Qed.

Lemma sort_u_increasing l : increasing (sort_u l).
Proof. induction l as [|a t IH]; simpl; [constructor|]. now apply insert_u_increasing. Qed.

Lemma increasing_NoDup l : increasing l -> NoDup l.
Proof.
  induction 1 as [|a t Ht IH Ha]; constructor; [|exact IH].
  intros Hin. rewrite Forall_forall in Ha. specialize (Ha a Hin). lia.
Qed.

(* a strictly increasing list is determined by its set of elements *)
Lemma increasing_ext l1 : forall l2, increasing l1 -> increasing l2 -> (forall x, In x l1 <-> In x l2) -> l1 = l2.
Proof.
  induction l1 as [|a t IH]; intros [|b s] H1 H2 E.
  - reflexivity.
  - exfalso. apply (E b). now left.
  - exfalso. apply (E a). now left.
  - inversion H1 as [|? ? Ht Ha]; inversion H2 as [|? ? Hs Hb]; subst. rewrite Forall_forall in Ha, Hb.
    assert (a = b).
    { destruct (proj1 (E a) (or_introl eq_refl)) as [->|Hin]; [reflexivity|].
      destruct (proj2 (E b) (or_introl eq_refl)) as [->|Hin']; [reflexivity|].
      specialize (Ha _ Hin'). specialize (Hb _ Hin). lia. }
    subst b. f_equal. apply IH; [exact Ht | exact Hs|]. intros x. split; intros Hx.
    + destruct (proj1 (E x) (or_intror Hx)) as [->|]; [|assumption]. specialize (Ha _ Hx). lia.
    + destruct (proj2 (E x) (or_intror Hx)) as [->|]; [|assumption]. specialize (Hb _ Hx). lia.
Qed.

Lemma increasing_nth_lt l i j : increasing l -> (i < j < length l)%nat -> nth i l 0 < nth j l 0.
Proof.
  intros H. revert i j. induction H as [|a t Ht IH Ha]; intros i j Hij; simpl in *; [lia|].
  destruct j as [|j]; [lia|]. destruct i as [|i].
  - rewrite Forall_forall in Ha. apply Ha. apply nth_In. lia.
  - apply IH. lia.
Qed.

Lemma increasing_nth_le l i j : increasing l -> (i <= j < length l)%nat -> nth i l 0 <= nth j l 0.
Proof.
  intros H Hij. destruct (Nat.eq_dec i j) as [->|]; [lia|].
  apply Z.lt_le_incl. apply increasing_nth_lt; [exact H | lia].
Qed.

Lemma increasing_nth_inj l i j : increasing l -> (i < length l)%nat -> (j < length l)%nat -> nth i l 0 = nth j l 0 -> i = j.
Proof.
  intros H Hi Hj E. destruct (Nat.lt_trichotomy i j) as [L|[L|L]]; [|exact L|].
  - pose proof (increasing_nth_lt l i j H ltac:(lia)). lia.
  - pose proof (increasing_nth_lt l j i H ltac:(lia)). lia.
Qed.

(* ================================================================================================================ *)
(* C. digitize + clamp picks the half-open bin (the classic off-by-one)                                             *)
(* ================================================================================================================ *)
Lemma digitize_le x bins : (digitize x bins <= length bins)%nat.
Proof. induction bins as [|b r IH]; simpl; [lia|]. destruct (b <=? x); simpl; lia. Qed.

Lemma digitize_zero x bins : increasing bins -> (forall b, In b bins -> x < b) -> digitize x bins = O.
Proof.
  induction bins as [|b r IH]; intros Hs Hall; simpl; [reflexivity|].
  assert (x < b) by (apply Hall; simpl; auto). destruct (Z.leb_spec b x); [lia|].
  apply IH; [now inversion Hs|]. intros; apply Hall; simpl; auto.
Qed.

(* digitize x bins = n  <->  the first n edges are <= x and the rest are > x *)
Lemma digitize_spec x : forall bins, increasing bins ->
  let n := digitize x bins in
  (forall j, (j < n)%nat -> nth j bins 0 <= x) /\ (forall j, (n <= j < length bins)%nat -> x < nth j bins 0).
Proof.
  induction bins as [|b r IH]; intros Hs; simpl.
  - split; intros; lia.
  - inversion Hs as [|? ? Hs' Hb]; subst. destruct (Z.leb_spec b x) as [Hle|Hgt]; simpl.
    + destruct (IH Hs') as [A B]. split.
      * intros [|j] Hj; [exact Hle|]. apply A. lia.
      * intros [|j] Hj; [lia|]. apply B. lia.
    + assert (Hz : digitize x r = O).
      { apply digitize_zero; auto. intros b' Hb'. rewrite Forall_forall in Hb. specialize (Hb b' Hb'). lia. }
      rewrite Hz. split; [intros; lia|].
      intros [|j] Hj; [exact Hgt|].
      assert (In (nth j r 0) r) by (apply nth_In; simpl in Hj; lia).
      rewrite Forall_forall in Hb. specialize (Hb _ H). lia.
Qed.

Definition bin_of (E : list Z) (x : Z) : nat := clamp (digitize x E).

Lemma chosen_edge_nth E x : chosen_edge E x = nth (bin_of E x) E 0.
Proof. reflexivity. Qed.

(* i = the chosen bin: in range; E[i] <= x < E[i+1] when x is at or above the first edge (no upper neighbour for the
   last bin); bin 0 below the first edge; the last bin at or above the last edge *)
Lemma bin_of_spec E x : increasing E -> E <> [] ->
  let i := bin_of E x in
  (i < length E)%nat /\
  (nth 0 E 0 <= x -> nth i E 0 <= x /\ ((S i < length E)%nat -> x < nth (S i) E 0)) /\
  (x < nth 0 E 0 -> i = O) /\
  (nth (length E - 1) E 0 <= x -> i = (length E - 1)%nat).
Proof.
  intros Hs Hne i. unfold i, bin_of.
  destruct (digitize_spec x E Hs) as [A B]. pose proof (digitize_le x E) as Hk.
  set (n := digitize x E) in *.
  destruct E as [|b0 r]; [congruence|]. simpl length in *.
  split; [destruct n; simpl; lia|]. split; [|split].
  - intros Hlo. destruct n as [|n'].
    + exfalso. specialize (B O ltac:(lia)). simpl in *. lia.
    + simpl clamp. split; [apply A; lia|]. intros Hi. apply B. lia.
  - intros Hlo. destruct n as [|n']; [reflexivity|]. specialize (A O ltac:(lia)). simpl in *. lia.
  - intros Hhi. destruct (Nat.eq_dec n (S (length r))) as [->|Hn]; [simpl; lia|].
    exfalso. specialize (B (length r) ltac:(lia)). replace (S (length r) - 1)%nat with (length r) in Hhi by lia. lia.
Qed.

(* a value that IS a left edge selects that very edge *)
Lemma chosen_edge_on_edge E x : increasing E -> In x E -> chosen_edge E x = x.
Proof.
  intros Hs Hin. assert (Hne : E <> []) by (intros ->; contradiction).
  destruct (bin_of_spec E x Hs Hne) as [Hi [Hmid _]]. rewrite chosen_edge_nth.
  set (i := bin_of E x) in *.
  destruct (In_nth E x 0 Hin) as [j [Hj Ej]].
  assert (H0 : nth 0 E 0 <= x). { rewrite <- Ej. apply increasing_nth_le; [exact Hs | lia]. }
  destruct (Hmid H0) as [Hle Hlt].
  destruct (Nat.lt_trichotomy i j) as [L|[L|L]].
  - exfalso. assert (S i < length E)%nat by lia. specialize (Hlt H).
    pose proof (increasing_nth_le E (S i) j Hs ltac:(lia)). lia.
  - now subst j.
  - exfalso. pose proof (increasing_nth_lt E j i Hs ltac:(lia)). lia.
Qed.

(* ================================================================================================================ *)
(* D. column minimum / maximum                                                                                      *)
(* ================================================================================================================ *)
Lemma fold_max_spec r : forall a, (a <= fold_left Z.max r a) /\ (forall y, In y r -> y <= fold_left Z.max r a) /\
                                  (fold_left Z.max r a = a \/ In (fold_left Z.max r a) r).
Proof.
  induction r as [|b t IH]; intros a; simpl.
  - split; [lia|]. split; [intros y []|now left].
  - destruct (IH (Z.max a b)) as [H1 [H2 H3]]. split; [lia|]. split.
    + intros y [->|Hy]; [lia | now apply H2].
    + destruct H3 as [H3|H3]; [|now right; right].
      rewrite H3. destruct (Z.max_spec a b) as [[_ ->]|[_ ->]]; [right; now left | now left].
Qed.

Lemma fold_min_spec r : forall a, (fold_left Z.min r a <= a) /\ (forall y, In y r -> fold_left Z.min r a <= y) /\
                                  (fold_left Z.min r a = a \/ In (fold_left Z.min r a) r).
Proof.
  induction r as [|b t IH]; intros a; simpl.
  - split; [lia|]. split; [intros y []|now left].
  - destruct (IH (Z.min a b)) as [H1 [H2 H3]]. split; [lia|]. split.
    + intros y [->|Hy]; [lia | now apply H2].
    + destruct H3 as [H3|H3]; [|now right; right].
      rewrite H3. destruct (Z.min_spec a b) as [[_ ->]|[_ ->]]; [now left | right; now left].
Qed.

Lemma col_max_ub xs y : In y xs -> y <= col_max xs.
Proof.
  destruct xs as [|a r]; [intros []|]. simpl. destruct (fold_max_spec r a) as [H1 [H2 _]].
  intros [->|Hy]; [exact H1 | now apply H2].
Qed.
Lemma col_max_in xs : xs <> [] -> In (col_max xs) xs.
Proof.
  destruct xs as [|a r]; [congruence|]. intros _. simpl. destruct (fold_max_spec r a) as [_ [_ [->|H]]]; auto.
Qed.
Lemma col_min_lb xs y : In y xs -> col_min xs <= y.
Proof.
  destruct xs as [|a r]; [intros []|]. simpl. destruct (fold_min_spec r a) as [H1 [H2 _]].
  intros [->|Hy]; [exact H1 | now apply H2].
Qed.
Lemma col_min_in xs : xs <> [] -> In (col_min xs) xs.
Proof.
  destruct xs as [|a r]; [congruence|]. intros _. simpl. destruct (fold_min_spec r a) as [_ [_ [->|H]]]; auto.
Qed.

(* the range test on the column's min / max is the per-value test on some value *)
Lemma col_min_ltb xs a : xs <> [] -> (col_min xs <? a) = existsb (fun x => x <? a) xs.
Proof.
  intros Hne. apply eq_true_iff_eq. rewrite existsb_exists, Z.ltb_lt. split.
  - intros H. exists (col_min xs). split; [now apply col_min_in | now apply Z.ltb_lt].
  - intros [x [Hx H]]. apply Z.ltb_lt in H. pose proof (col_min_lb xs x Hx). lia.
Qed.
Lemma col_max_leb xs a : xs <> [] -> (a <=? col_max xs) = existsb (fun x => a <=? x) xs.
Proof.
  intros Hne. apply eq_true_iff_eq. rewrite existsb_exists, Z.leb_le. split.
  - intros H. exists (col_max xs). split; [now apply col_max_in | now apply Z.leb_le].
  - intros [x [Hx H]]. apply Z.leb_le in H. pose proof (col_max_ub xs x Hx). lia.
Qed.

(* ================================================================================================================ *)
(* E. sort_bins / contiguous                                                                                        *)
(* ================================================================================================================ *)
Definition fst_le (a b : Z * Z) : Prop := fst a <= fst b.

Lemma insert_bin_perm b l : Permutation (b :: l) (insert_bin b l).
Proof.
  induction l as [|c r IH]; simpl; [apply Permutation_refl|].
  destruct (fst b <=? fst c); [apply Permutation_refl|].
  eapply Permutation_trans; [apply perm_swap|]. now apply perm_skip.
Qed.

Lemma sort_bins_perm l : Permutation l (sort_bins l).
Proof.
  induction l as [|b r IH]; simpl; [constructor|].
  eapply Permutation_trans; [|apply insert_bin_perm]. now apply perm_skip.
Qed.

Lemma insert_bin_sorted b l : StronglySorted fst_le l -> StronglySorted fst_le (insert_bin b l).
Proof.
  induction l as [|c r IH]; simpl; intros H.
  - repeat constructor.
  - inversion H as [|? ? Hr Hc]; subst. destruct (Z.leb_spec (fst b) (fst c)) as [Hle|Hgt].
    + constructor; [exact H|]. constructor; [exact Hle|].
      rewrite Forall_forall in *. intros z Hz. specialize (Hc z Hz). unfold fst_le in *. lia.
    + constructor; [now apply IH|]. rewrite Forall_forall in *. intros z Hz.
      apply (Permutation_in _ (Permutation_sym (insert_bin_perm b r))) in Hz.
      destruct Hz as [<-|Hz]; [unfold fst_le; lia | now apply Hc].
Qed.

Lemma sort_bins_sorted l : StronglySorted fst_le (sort_bins l).
Proof. induction l as [|b r IH]; simpl; [constructor | now apply insert_bin_sorted]. Qed.

(* sorted by start and accepted by the overlap / gap loop => the starts are strictly increasing *)
Lemma contiguous_increasing l : StronglySorted fst_le l -> contiguous l = true -> increasing (map fst l).
Proof.
  unfold increasing. induction l as [|b0 r IH]; intros Hs Hc; simpl; [constructor|].
  inversion Hs as [|? ? Hr H0]; subst. destruct r as [|b1 r'].
  - repeat constructor.
  - simpl in Hc. apply andb_true_iff in Hc as [Hc Hc']. apply andb_true_iff in Hc as [Hne _].
    apply negb_true_iff, Z.eqb_neq in Hne.
    constructor; [now apply IH|].
    rewrite Forall_forall in *. intros z Hz. apply in_map_iff in Hz as [y [<- Hy]].
    assert (H01 : fst b0 <= fst b1) by (apply (H0 b1); now left).
    destruct Hy as [<-|Hy]; [lia|].
    inversion Hr as [|? ? _ H1]; subst. rewrite Forall_forall in H1. specialize (H1 y Hy). unfold fst_le in H1. lia.
Qed.

Lemma nth_map_fst (l : list (Z * Z)) : forall j, nth j (map fst l) 0 = fst (nth j l (0, 0)).
Proof. induction l as [|a t IH]; intros [|j]; simpl; try reflexivity. apply IH. Qed.

Lemma contiguous_nth l : forall j, contiguous l = true -> (S j < length l)%nat ->
  snd (nth j l (0, 0)) = fst (nth (S j) l (0, 0)).
Proof.
  induction l as [|b0 r IH]; intros j Hc Hj; simpl in Hj; [lia|].
  destruct r as [|b1 r']; [simpl in Hj; lia|].
  simpl in Hc. apply andb_true_iff in Hc as [Hc Hc']. apply andb_true_iff in Hc as [_ He]. apply Z.eqb_eq in He.
  destruct j as [|j]; [exact He|]. change (snd (nth j (b1 :: r') (0, 0)) = fst (nth (S j) (b1 :: r') (0, 0))).
  apply IH; [exact Hc' | simpl in *; lia].
Qed.

(* ================================================================================================================ *)
(* F. eq_except / set_nth / firstn                                                                                  *)
(* ================================================================================================================ *)
Lemma eq_except_refl p : forall a, eq_except p a a = true.
Proof.
  induction p as [|p IH]; intros [|x a]; simpl; try reflexivity.
  - apply zlist_eqb_refl.
  - now rewrite Z.eqb_refl, IH.
Qed.

Lemma eq_except_set_nth p : forall a b, eq_except p a b = true -> b = set_nth p (nth p b 0) a.
Proof.
  induction p as [|p IH]; intros [|x a] [|y b] H; simpl in *; try reflexivity; try discriminate.
  - apply zlist_eqb_eq in H. now subst.
  - apply andb_true_iff in H as [E H]. apply Z.eqb_eq in E. subst y. f_equal. now apply IH.
Qed.

Lemma set_nth_length p v : forall l, length (set_nth p v l) = length l.
Proof. induction p as [|p IH]; intros [|x l]; simpl; try reflexivity. now rewrite IH. Qed.

Lemma set_nth_same p v : forall l, (p < length l)%nat -> nth p (set_nth p v l) 0 = v.
Proof. induction p as [|p IH]; intros [|x l] H; simpl in *; try lia. apply IH. lia. Qed.

Lemma set_nth_firstn p v : forall l, firstn p (set_nth p v l) = firstn p l.
Proof. induction p as [|p IH]; intros [|x l]; simpl; try reflexivity. now rewrite IH. Qed.

Lemma firstn_S_nth j : forall (l : list Z), (j < length l)%nat -> firstn (S j) l = firstn j l ++ [nth j l 0].
Proof.
  induction j as [|j IH]; intros [|x l] H; simpl in *; try lia; [reflexivity|].
  f_equal. apply IH. lia.
Qed.

(* ================================================================================================================ *)
(* G. one key group accepted by check_data_complete is a complete grid                                              *)
(* ================================================================================================================ *)
Lemma starts_length r : length (starts r) = length (rbins r).
Proof. unfold starts. apply map_length. Qed.
Lemma stops_length r : length (stops r) = length (rbins r).
Proof. unfold stops. apply map_length. Qed.

Lemma start_in_edges G p r : In r G -> In (start p r) (edges G p).
Proof. intros H. unfold edges. apply sort_u_In. now apply in_map. Qed.

Lemma edges_increasing G p : increasing (edges G p).
Proof. apply sort_u_increasing. Qed.

Lemma edge_has_row G p e : In e (edges G p) -> exists r, In r G /\ start p r = e.
Proof.
  unfold edges. rewrite sort_u_In, in_map_iff. intros [r [E H]]. eauto.
Qed.

Lemma edges_nonempty G p : G <> [] -> edges G p <> [].
Proof.
  destruct G as [|r t]; [congruence|]. intros _ E.
  pose proof (start_in_edges (r :: t) p r (or_introl eq_refl)) as H. rewrite E in H. contradiction.
Qed.

Section Grid.
  Variable G : list row.
  Variable k : nat.
  Hypothesis Hshape : forall r, In r G -> length (rbins r) = k.
  Hypothesis Hcc : check_complete G k = true.
  Local Set Default Proof Using "Hshape Hcc".

  Lemma cc_sub p r : (p < k)%nat -> In r G -> check_sub G p (length (edges G p)) (max_right G p) r = true.
  Proof.
    intros Hp Hr. unfold check_complete in Hcc. rewrite forallb_forall in Hcc.
    specialize (Hcc p ltac:(apply in_seq; lia)). cbv zeta in Hcc. rewrite forallb_forall in Hcc. now apply Hcc.
  Qed.

  Lemma sub_incl p r x : In x (sub_of G p r) -> In x G.
  Proof. unfold sub_of. intros H. now apply filter_In in H. Qed.

  Lemma self_in_sub p r : In r G -> In r (sub_of G p r).
  Proof. intros H. unfold sub_of. apply filter_In. split; [exact H | apply eq_except_refl]. Qed.

  (* the sub-table of r shows every left edge of p that occurs anywhere in the group *)
  Lemma sub_edges p r : (p < k)%nat -> In r G -> edges (sub_of G p r) p = edges G p.
  Proof.
    intros Hp Hr. pose proof (cc_sub p r Hp Hr) as H. unfold check_sub in H. cbv zeta in H.
    apply andb_true_iff in H as [H _]. apply andb_true_iff in H as [Hlen _]. apply Nat.leb_le in Hlen.
    apply increasing_ext; try apply edges_increasing.
    assert (Hincl : incl (edges (sub_of G p r) p) (edges G p)).
    { intros x Hx. apply edge_has_row in Hx as [r' [Hr' <-]]. apply start_in_edges. now apply sub_incl in Hr'. }
    intros x. split; [apply Hincl|].
    apply (NoDup_length_incl (increasing_NoDup _ (edges_increasing _ p)) Hlen Hincl).
  Qed.

  (* every sub-table reaches the parameter's overall largest right edge (the check added by fix 1620b43e) *)
  Lemma sub_max p r : (p < k)%nat -> In r G -> col_max (map (stop p) (sub_of G p r)) = max_right G p.
  Proof.
    intros Hp Hr. pose proof (cc_sub p r Hp Hr) as H. unfold check_sub in H. cbv zeta in H.
    apply andb_true_iff in H as [H _]. apply andb_true_iff in H as [_ H]. now apply Z.eqb_eq.
  Qed.

  (* completeness, one coordinate at a time *)
  Lemma step_row p r e : (p < k)%nat -> In r G -> In e (edges G p) ->
    exists r', In r' G /\ starts r' = set_nth p e (starts r).
  Proof.
    intros Hp Hr He. rewrite <- (sub_edges p r Hp Hr) in He. apply edge_has_row in He as [r' [Hr' E]].
    exists r'. split; [now apply sub_incl in Hr'|].
    unfold sub_of in Hr'. apply filter_In in Hr' as [_ Hx]. apply eq_except_set_nth in Hx.
    unfold start in E. now rewrite E in Hx.
  Qed.

  (* every combination of left edges has a row *)
  Lemma grid_complete c : G <> [] -> length c = k -> (forall p, (p < k)%nat -> In (nth p c 0) (edges G p)) ->
    exists r, In r G /\ starts r = c.
  Proof.
    intros Hne Hlen Hc.
    assert (H : forall j, (j <= k)%nat -> exists r, In r G /\ firstn j (starts r) = firstn j c).
    { induction j as [|j IH]; intros Hj.
      - destruct G as [|r0 t]; [congruence|]. exists r0. split; [now left | reflexivity].
      - destruct (IH ltac:(lia)) as [r [Hr E]].
        destruct (step_row j r (nth j c 0) ltac:(lia) Hr (Hc j ltac:(lia))) as [r' [Hr' E']].
        exists r'. split; [exact Hr'|]. rewrite E'.
        assert (Hl : length (starts r) = k) by (rewrite starts_length; now apply Hshape).
        rewrite firstn_S_nth by (rewrite set_nth_length; lia).
        rewrite set_nth_firstn, set_nth_same by lia. rewrite E. symmetry. apply firstn_S_nth. lia. }
    destruct (H k (le_n k)) as [r [Hr E]]. exists r. split; [exact Hr|].
    assert (Hl : length (starts r) = k) by (rewrite starts_length; now apply Hshape).
    rewrite <- (firstn_all (starts r)), <- (firstn_all c), Hl, Hlen. exact E.
  Qed.

  (* no two rows of a sub-table start at the same edge *)
  Lemma sub_sorted_fst p r : (p < k)%nat -> In r G ->
    map fst (sort_bins (bins_of (sub_of G p r) p)) = edges G p /\
    contiguous (sort_bins (bins_of (sub_of G p r) p)) = true.
  Proof.
    intros Hp Hr. pose proof (cc_sub p r Hp Hr) as H. unfold check_sub in H. cbv zeta in H.
    apply andb_true_iff in H as [_ Hc]. split; [|exact Hc].
    rewrite <- (sub_edges p r Hp Hr). apply increasing_ext.
    - apply contiguous_increasing; [apply sort_bins_sorted | exact Hc].
    - apply edges_increasing.
    - intros x. unfold edges. rewrite sort_u_In.
      assert (P : Permutation (map fst (bins_of (sub_of G p r) p)) (map fst (sort_bins (bins_of (sub_of G p r) p))))
        by (apply Permutation_map, sort_bins_perm).
      assert (M : map fst (bins_of (sub_of G p r) p) = map (start p) (sub_of G p r)).
      { unfold bins_of. rewrite map_map. reflexivity. }
      rewrite <- M. split; intros Hx.
      + now apply (Permutation_in _ (Permutation_sym P)).
      + now apply (Permutation_in _ P).
  Qed.

  Lemma sub_starts_nodup p r : (p < k)%nat -> In r G -> NoDup (map (start p) (sub_of G p r)).
  Proof.
    intros Hp Hr. destruct (sub_sorted_fst p r Hp Hr) as [E _].
    assert (M : map fst (bins_of (sub_of G p r) p) = map (start p) (sub_of G p r)).
    { unfold bins_of. rewrite map_map. reflexivity. }
    rewrite <- M. eapply Permutation_NoDup.
    - apply Permutation_sym, Permutation_map, sort_bins_perm.
    - rewrite E. apply increasing_NoDup, edges_increasing.
  Qed.

  (* uniqueness: at most one row per combination of left edges *)
  Lemma matches_le1 c : (0 < k)%nat -> (length (matches G c) <= 1)%nat.
  Proof.
    intros Hk. destruct (matches G c) as [|r1 rest] eqn:M; [simpl; lia|]. rewrite <- M.
    assert (H1 : In r1 (matches G c)) by (rewrite M; now left).
    unfold matches in H1. apply filter_In in H1 as [Hr1 E1]. apply zlist_eqb_eq in E1.
    unfold matches.
    rewrite <- (filter_filter_impl (fun r => zlist_eqb (starts r) c) (fun r' => eq_except 0 (starts r1) (starts r')) G).
    2:{ intros x Hx. apply zlist_eqb_eq in Hx. rewrite Hx, E1. apply eq_except_refl. }
    change (filter (fun r' => eq_except 0 (starts r1) (starts r')) G) with (sub_of G 0 r1).
    eapply Nat.le_trans; [|apply (NoDup_map_filter_le1 (start 0) (sub_of G 0 r1) (nth 0 c 0)), (sub_starts_nodup 0 r1 Hk Hr1)].
    apply filter_length_impl. intros x Hx. apply zlist_eqb_eq in Hx. unfold start. rewrite Hx. apply Z.eqb_refl.
  Qed.

  (* a row's right edge is the next left edge (contiguity), whatever the other parameters *)
  Lemma stop_next p r i : (p < k)%nat -> In r G -> start p r = nth i (edges G p) 0 -> (S i < length (edges G p))%nat ->
    stop p r = nth (S i) (edges G p) 0.
  Proof.
    intros Hp Hr Ei Hi. destruct (sub_sorted_fst p r Hp Hr) as [EF Hc].
    set (S0 := sort_bins (bins_of (sub_of G p r) p)) in *.
    assert (Hin : In (start p r, stop p r) S0).
    { apply (Permutation_in _ (sort_bins_perm _)). unfold bins_of.
      apply in_map_iff. exists r. split; [reflexivity | now apply self_in_sub]. }
    destruct (In_nth S0 _ (0, 0) Hin) as [j [Hj Ej]].
    assert (HL : length S0 = length (edges G p)) by (rewrite <- EF; now rewrite map_length).
    assert (j = i).
    { apply (increasing_nth_inj (edges G p)); [apply edges_increasing | lia | lia|].
      rewrite <- Ei, <- EF. rewrite nth_map_fst, Ej. reflexivity. }
    subst j. pose proof (contiguous_nth S0 i Hc ltac:(lia)) as Hn. rewrite Ej in Hn. simpl in Hn.
    rewrite Hn, <- EF. now rewrite nth_map_fst.
  Qed.

  Lemma start_is_edge p r : In r G -> exists i, (i < length (edges G p))%nat /\ start p r = nth i (edges G p) 0.
  Proof.
    intros Hr. destruct (In_nth _ _ 0 (start_in_edges G p r Hr)) as [i [Hi E]]. exists i. split; [exact Hi | now symmetry].
  Qed.

  (* the largest right edge of the group is reached in EVERY sub-table, hence by its last-bin row: a value below it
     and at or above the last left edge is inside every last-bin row *)
  Lemma last_bin_covers p r x : (p < k)%nat -> In r G ->
    start p r = nth (length (edges G p) - 1) (edges G p) 0 -> start p r <= x -> x < max_right G p -> x < stop p r.
  Proof.
    intros Hp Hr Elast Hlo Hhi.
    assert (Hne : map (stop p) (sub_of G p r) <> []).
    { pose proof (self_in_sub p r Hr) as Hs. destruct (sub_of G p r); [contradiction | discriminate]. }
    pose proof (col_max_in _ Hne) as Hm. rewrite (sub_max p r Hp Hr) in Hm.
    apply in_map_iff in Hm as [r' [Er' Hr'T]]. pose proof (sub_incl p r r' Hr'T) as Hr'.
    destruct (start_is_edge p r' Hr') as [j [Hj Ej]].
    destruct (Nat.eq_dec (S j) (length (edges G p))) as [Hlast|Hnl].
    - (* r' is the last-bin row of r's own sub-table: it is r *)
      assert (Es : start p r' = start p r) by (rewrite Elast, Ej; f_equal; lia).
      assert (r' = r).
      { apply (NoDup_map_inj (start p) (sub_of G p r)); [now apply sub_starts_nodup | exact Hr'T | now apply self_in_sub | exact Es]. }
      subst r'. lia.
    - exfalso. pose proof (stop_next p r' j Hp Hr' Ej ltac:(lia)) as Es.
      pose proof (increasing_nth_le (edges G p) (S j) (length (edges G p) - 1) (edges_increasing G p) ltac:(lia)). lia.
  Qed.

  (* rows with the same left edge have the same right edge - for every proper bin (a last bin whose right edge is not
     above its left edge, which the validation tolerates, is never selected inside the covered range) *)
  Lemma ends_agree_proper p r r' : (p < k)%nat -> In r G -> In r' G -> start p r = start p r' ->
    start p r < stop p r -> stop p r = stop p r'.
  Proof.
    intros Hp Hr Hr' Es Hproper.
    destruct (start_is_edge p r Hr) as [j [Hj Ej]].
    destruct (Nat.eq_dec (S j) (length (edges G p))) as [Hlast|Hnl].
    - assert (El : start p r = nth (length (edges G p) - 1) (edges G p) 0) by (rewrite Ej; f_equal; lia).
      assert (Hub : forall q, In q G -> stop p q <= max_right G p).
      { intros q Hq. unfold max_right. apply col_max_ub. now apply in_map. }
      assert (Hmax : forall q, In q G -> start p q = start p r -> stop p q = max_right G p).
      { intros q Hq Eq. pose proof (Hub q Hq) as U. pose proof (Hub r Hr) as Ur.
        destruct (Z.eq_dec (stop p q) (max_right G p)) as [|Hne]; [assumption|]. exfalso.
        assert (L : stop p q < max_right G p) by lia.
        destruct (Z.le_gt_cases (start p q) (stop p q)) as [Hle|Hgt].
        - pose proof (last_bin_covers p q (stop p q) Hp Hq ltac:(congruence) Hle L). lia.
        - pose proof (last_bin_covers p q (start p q) Hp Hq ltac:(congruence) ltac:(lia) ltac:(lia)). lia. }
      rewrite (Hmax r Hr eq_refl), (Hmax r' Hr' (eq_sym Es)). reflexivity.
    - rewrite (stop_next p r j Hp Hr Ej ltac:(lia)). symmetry. apply (stop_next p r' j Hp Hr'); [congruence | lia].
  Qed.
End Grid.

(* ================================================================================================================ *)
(* H. from [wf] to the per-group facts; the row returned for one simulant                                           *)
(* ================================================================================================================ *)
Lemma insert_key_In x y l : In y (insert_key x l) <-> y = x \/ In y l.
Proof.
  induction l as [|a t IH]; simpl.
  - intuition.
  - destruct (zlist_eqb x a) eqn:E.
    + apply zlist_eqb_eq in E. subst a. simpl. intuition.
    + destruct (lex_ltb x a); simpl; [intuition|]. rewrite IH. intuition.
Qed.

Lemma sort_keys_In y l : In y (sort_keys l) <-> In y l.
Proof.
  induction l as [|a t IH]; simpl; [tauto|]. unfold sort_keys in *. simpl. rewrite insert_key_In, IH. intuition.
Qed.

Lemma group_In d key r : In r (group d key) <-> In r d /\ rkeys r = key.
Proof. unfold group. rewrite filter_In, zlist_eqb_eq. tauto. Qed.

Lemma group_key_present d key : group d key <> [] -> In key (keys_of d).
Proof.
  intros H. destruct (group d key) as [|r t] eqn:E; [congruence|].
  assert (Hr : In r (group d key)) by (rewrite E; now left). apply group_In in Hr as [Hr <-].
  unfold keys_of. apply sort_keys_In. now apply in_map.
Qed.

Lemma wf_group k d key : wf k d = true -> group d key <> [] ->
  (0 < k)%nat /\ (forall r, In r (group d key) -> length (rbins r) = k) /\
  check_complete (group d key) k = true.
Proof.
  unfold wf, valid, shaped. intros H Hne.
  apply andb_true_iff in H as [Hs H].
  apply andb_true_iff in H as [H Hc]. apply andb_true_iff in H as [_ Hk].
  pose proof (group_key_present d key Hne) as Hin.
  rewrite forallb_forall in Hs, Hc. repeat split.
  - now apply Nat.ltb_lt.
  - intros r Hr. apply group_In in Hr as [Hr _]. now apply Nat.eqb_eq, Hs.
  - now apply Hc.
Qed.

Lemma nth_map_seq {A} (f : nat -> A) k p dflt : (p < k)%nat -> nth p (map f (seq 0 k)) dflt = f p.
Proof.
  intros H. rewrite (nth_indep _ dflt (f O)) by (rewrite map_length, seq_length; lia).
  rewrite map_nth. now rewrite seq_nth.
Qed.

Lemma chosen_length G k s : length (chosen G k s) = k.
Proof. unfold chosen. now rewrite map_length, seq_length. Qed.

Lemma chosen_nth_s G k s p : (p < k)%nat -> nth p (chosen G k s) 0 = chosen_edge_s (edges G p) p s.
Proof. intros H. unfold chosen. now rewrite nth_map_seq. Qed.

Lemma chosen_nth G k s p : (p < k)%nat -> isnan p s = false ->
  nth p (chosen G k s) 0 = chosen_edge (edges G p) (param p s).
Proof. intros H Hn. rewrite chosen_nth_s by exact H. unfold chosen_edge_s. now rewrite Hn. Qed.

Lemma chosen_nth_nan G k s p : (p < k)%nat -> isnan p s = true ->
  nth p (chosen G k s) 0 = nth (length (edges G p) - 1) (edges G p) 0.
Proof. intros H Hn. rewrite chosen_nth_s by exact H. unfold chosen_edge_s. now rewrite Hn. Qed.

Lemma low_edge_nth G p : low_edge G p = nth 0 (edges G p) 0.
Proof. unfold low_edge. now destruct (edges G p). Qed.

Definition last_edge (G : list row) (p : nat) : Z := nth (length (edges G p) - 1) (edges G p) 0.
Definition in_bin (p : nat) (r : row) (x : Z) : Prop := start p r <= x < stop p r.
Definition in_range (G : list row) (p : nat) (x : Z) : Prop := low_edge G p <= x < max_right G p.

Lemma out_one_false G p x : out_one G p x = false <-> in_range G p x.
Proof.
  unfold out_one, in_range. rewrite orb_false_iff, Z.ltb_ge, Z.leb_gt. tauto.
Qed.

Section OneGroup.
  Variable G : list row.
  Variable k : nat.
  Hypothesis Hne : G <> [].
  Hypothesis Hk : (0 < k)%nat.
  Hypothesis Hshape : forall r, In r G -> length (rbins r) = k.
  Hypothesis Hcc : check_complete G k = true.
  Local Set Default Proof Using "Hne Hk Hshape Hcc".

  (* exactly one row carries the chosen left edges *)
  Lemma chosen_row s : exists r, matches G (chosen G k s) = [r] /\ In r G /\ starts r = chosen G k s.
  Proof.
    destruct (grid_complete G k Hshape Hcc (chosen G k s) Hne (chosen_length G k s)) as [r [Hr E]].
    { intros p Hp. rewrite chosen_nth_s by exact Hp. unfold chosen_edge_s.
      pose proof (edges_nonempty G p Hne) as Hn0.
      destruct (isnan p s).
      - apply nth_In. destruct (edges G p); [congruence | simpl; lia].
      - rewrite chosen_edge_nth. apply nth_In. apply bin_of_spec; [apply edges_increasing | exact Hn0]. }
    pose proof (matches_le1 G k Hshape Hcc (chosen G k s) Hk) as Hle.
    assert (Hin : In r (matches G (chosen G k s))).
    { unfold matches. apply filter_In. split; [exact Hr | now apply zlist_eqb_eq]. }
    destruct (matches G (chosen G k s)) as [|a [|b t]]; simpl in *; try contradiction; try lia.
    destruct Hin as [->|[]]. eauto.
  Qed.

  Lemma start_chosen r s p : starts r = chosen G k s -> (p < k)%nat -> isnan p s = false ->
    start p r = nth (bin_of (edges G p) (param p s)) (edges G p) 0.
  Proof. intros E Hp Hn. unfold start. rewrite E, chosen_nth by assumption. apply chosen_edge_nth. Qed.

  (* a NaN attribute silently selects the LAST bin (np.digitize(NaN) = len(bins)) *)
  Lemma start_chosen_nan r s p : starts r = chosen G k s -> (p < k)%nat -> isnan p s = true ->
    start p r = last_edge G p.
  Proof. intros E Hp Hn. unfold start. rewrite E, chosen_nth_nan by assumption. reflexivity. Qed.

  (* the bins of the chosen row contain the simulant's values, wherever they lie inside the covered range *)
  Lemma chosen_in_bin r s p : In r G -> starts r = chosen G k s -> (p < k)%nat -> isnan p s = false ->
    in_range G p (param p s) -> in_bin p r (param p s).
  Proof.
    intros Hr E Hp Hn [Hlo Hhi]. pose proof (start_chosen r s p E Hp Hn) as Es.
    destruct (bin_of_spec (edges G p) (param p s) (edges_increasing G p) (edges_nonempty G p Hne)) as [Hi [Hmid _]].
    set (i := bin_of (edges G p) (param p s)) in *. rewrite low_edge_nth in Hlo.
    destruct (Hmid Hlo) as [Hle Hlt]. unfold in_bin. split; [now rewrite Es|].
    destruct (Nat.eq_dec (S i) (length (edges G p))) as [Hlast|Hnl].
    - apply (last_bin_covers G k Hshape Hcc p r (param p s) Hp Hr); [|lia|exact Hhi].
      rewrite Es. f_equal. lia.
    - rewrite (stop_next G k Hshape Hcc p r i Hp Hr Es ltac:(lia)). apply Hlt. lia.
  Qed.

  (* below the range: the first bin; at or above the largest right edge: the last bin *)
  Lemma chosen_below r s p : starts r = chosen G k s -> (p < k)%nat -> isnan p s = false ->
    param p s < low_edge G p -> start p r = low_edge G p.
  Proof.
    intros E Hp Hn Hlo. rewrite (start_chosen r s p E Hp Hn).
    destruct (bin_of_spec (edges G p) (param p s) (edges_increasing G p) (edges_nonempty G p Hne)) as [_ [_ [H0 _]]].
    rewrite low_edge_nth in *. now rewrite (H0 Hlo).
  Qed.

  Lemma last_edge_le_max_right p : (p < k)%nat -> (2 <= length (edges G p))%nat -> last_edge G p <= max_right G p.
  Proof.
    intros Hp Hn. set (n := length (edges G p)) in *.
    assert (Hin : In (nth (n - 2) (edges G p) 0) (edges G p)) by (apply nth_In; lia).
    apply edge_has_row in Hin as [r [Hr Es]].
    pose proof (stop_next G k Hshape Hcc p r (n - 2) Hp Hr Es ltac:(lia)) as Est.
    unfold last_edge. fold n. replace (n - 1)%nat with (S (n - 2)) by lia. rewrite <- Est.
    unfold max_right. apply col_max_ub. now apply in_map.
  Qed.

  Lemma chosen_above r s p : starts r = chosen G k s -> (p < k)%nat -> isnan p s = false ->
    max_right G p <= param p s -> start p r = last_edge G p.
  Proof.
    intros E Hp Hn Hhi. rewrite (start_chosen r s p E Hp Hn). unfold last_edge. f_equal.
    destruct (bin_of_spec (edges G p) (param p s) (edges_increasing G p) (edges_nonempty G p Hne)) as [Hi [_ [_ Hl]]].
    destruct (Nat.le_gt_cases 2 (length (edges G p))) as [H2|H1]; [|lia].
    apply Hl. pose proof (last_edge_le_max_right p Hp H2). unfold last_edge in *. lia.
  Qed.

  (* uniqueness: a row of the group whose bins contain the values IS the chosen row *)
  Lemma in_bins_is_chosen r' s : In r' G -> (forall p, (p < k)%nat -> isnan p s = false) ->
    (forall p, (p < k)%nat -> in_bin p r' (param p s)) -> starts r' = chosen G k s.
  Proof.
    intros Hr Hnn Hb. apply (nth_ext _ _ 0 0).
    - rewrite starts_length, chosen_length. now apply Hshape.
    - intros p Hp. rewrite starts_length, (Hshape r' Hr) in Hp.
      rewrite chosen_nth, chosen_edge_nth by (try exact Hp; now apply Hnn). change (nth p (starts r') 0) with (start p r').
      destruct (Hb p Hp) as [Hlo Hhi].
      destruct (start_is_edge G k Hshape Hcc p r' Hr) as [j [Hj Ej]].
      pose proof (edges_increasing G p) as Hinc.
      destruct (bin_of_spec (edges G p) (param p s) Hinc (edges_nonempty G p Hne)) as [Hi [Hmid [_ Hl]]].
      set (i := bin_of (edges G p) (param p s)) in *.
      assert (H0 : nth 0 (edges G p) 0 <= param p s).
      { pose proof (increasing_nth_le (edges G p) 0 j Hinc ltac:(lia)). lia. }
      destruct (Hmid H0) as [Hle Hlt]. rewrite Ej. f_equal.
      destruct (Nat.eq_dec (S j) (length (edges G p))) as [Hlast|Hnl].
      + symmetry. replace j with (length (edges G p) - 1)%nat by lia. apply Hl.
        replace (length (edges G p) - 1)%nat with j by lia. lia.
      + pose proof (stop_next G k Hshape Hcc p r' j Hp Hr Ej ltac:(lia)) as Est.
        destruct (Nat.lt_trichotomy i j) as [L|[L|L]]; [|now symmetry|].
        * exfalso. pose proof (increasing_nth_le (edges G p) (S i) j Hinc ltac:(lia)).
          specialize (Hlt ltac:(lia)). lia.
        * exfalso. pose proof (increasing_nth_le (edges G p) (S j) i Hinc ltac:(lia)). lia.
  Qed.

  (* a value that is a left edge selects that edge; a value that is a (proper) bin's right edge does not select it *)
  Lemma chosen_on_start r r0 s p : starts r = chosen G k s -> (p < k)%nat -> isnan p s = false -> In r0 G ->
    param p s = start p r0 -> start p r = param p s.
  Proof.
    intros E Hp Hn Hr0 Ex. unfold start at 1. rewrite E, chosen_nth by assumption.
    apply chosen_edge_on_edge; [apply edges_increasing|]. rewrite Ex. now apply start_in_edges.
  Qed.

  Lemma chosen_on_stop r r0 s p : starts r = chosen G k s -> (p < k)%nat -> isnan p s = false -> In r0 G ->
    param p s = stop p r0 -> start p r0 < stop p r0 -> param p s < max_right G p ->
    start p r = param p s.
  Proof.
    intros E Hp Hn Hr0 Ex Hproper Hhi. unfold start at 1. rewrite E, chosen_nth by assumption.
    apply chosen_edge_on_edge; [apply edges_increasing|].
    destruct (start_is_edge G k Hshape Hcc p r0 Hr0) as [j [Hj Ej]].
    destruct (Nat.eq_dec (S j) (length (edges G p))) as [Hlast|Hnl].
    - exfalso. assert (El : start p r0 = nth (length (edges G p) - 1) (edges G p) 0) by (rewrite Ej; f_equal; lia).
      pose proof (last_bin_covers G k Hshape Hcc p r0 (param p s) Hp Hr0 El ltac:(lia) Hhi). lia.
    - rewrite Ex, (stop_next G k Hshape Hcc p r0 j Hp Hr0 Ej ltac:(lia)). apply nth_In. lia.
  Qed.
End OneGroup.

(* ================================================================================================================ *)
(* I. the per-simulant specification [lookup_row] on well-formed data                                               *)
(* ================================================================================================================ *)
Lemma existsb_false {A} (f : A -> bool) l : (forall x, In x l -> f x = false) -> existsb f l = false.
Proof.
  intros H. destruct (existsb f l) eqn:E; [|reflexivity].
  apply existsb_exists in E as [x [Hx Ex]]. rewrite (H x Hx) in Ex. discriminate.
Qed.

Definition no_nan (k : nat) (s : simulant) : Prop :=
  key_has_nan (skeys s) = false /\ forall p, (p < k)%nat -> isnan p s = false.
(* every parameter attribute is a number or NaN (a float column) *)
Definition numeric (k : nat) (s : simulant) : Prop := any_bad k s = false.

(* a non-numeric parameter attribute: rejected (TypeError), whatever the flags *)
Lemma lookup_row_bad ext d k s : key_has_nan (skeys s) = false -> group d (skeys s) <> [] -> any_bad k s = true ->
  lookup_row ext d k s = Rejected EOther.
Proof.
  intros Hk Hne Hb. unfold lookup_row. rewrite Hk. destruct (group d (skeys s)); [congruence|]. now rewrite Hb.
Qed.

Lemma out_one_s_num G p s : isnan p s = false -> out_one_s G p s = out_one G p (param p s).
Proof. intros H. unfold out_one_s. now rewrite H. Qed.

Lemma lookup_row_unknown_key ext d k s : key_has_nan (skeys s) = false -> group d (skeys s) = [] ->
  lookup_row ext d k s = Rejected EPopulation.
Proof. intros Hk E. unfold lookup_row. now rewrite Hk, E. Qed.

(* a missing key attribute: silently a row of NaN, whatever the data and the flags *)
Lemma lookup_row_missing_key ext d k s : key_has_nan (skeys s) = true -> lookup_row ext d k s = Ok None.
Proof. intros Hk. unfold lookup_row. now rewrite Hk. Qed.

Lemma lookup_row_out ext d k s p : key_has_nan (skeys s) = false -> numeric k s -> group d (skeys s) <> [] ->
  ext = false -> (p < k)%nat -> isnan p s = false -> ~ in_range (group d (skeys s)) p (param p s) ->
  lookup_row ext d k s = Rejected EConfig.
Proof.
  intros Hk Hnum Hne -> Hp Hn Hout. unfold lookup_row. rewrite Hk. remember (group d (skeys s)) as G eqn:EG.
  destruct G as [|r0 t]; [congruence|]. rewrite Hnum. simpl negb. cbv iota.
  assert (E : existsb (fun q => out_one_s (r0 :: t) q s) (seq 0 k) = true).
  { apply existsb_exists. exists p. split; [apply in_seq; lia|]. rewrite out_one_s_num by exact Hn.
    destruct (out_one (r0 :: t) p (param p s)) eqn:O; [reflexivity|]. apply out_one_false in O. contradiction. }
  now rewrite E.
Qed.

(* the row is found whenever nothing triggers the range test: extrapolation on, or every NUMERIC parameter in range
   (a NaN parameter never triggers it) *)
Theorem lookup_row_found ext d k s : wf k d = true -> key_has_nan (skeys s) = false -> numeric k s ->
  group d (skeys s) <> [] ->
  (ext = true \/ forall p, (p < k)%nat -> isnan p s = false -> in_range (group d (skeys s)) p (param p s)) ->
  exists r, lookup_row ext d k s = Ok (Some r) /\
            matches (group d (skeys s)) (chosen (group d (skeys s)) k s) = [r] /\
            In r d /\ rkeys r = skeys s /\ starts r = chosen (group d (skeys s)) k s.
Proof.
  intros Hwf Hkn Hnum Hne Hin. destruct (wf_group k d (skeys s) Hwf Hne) as [Hk [Hshape Hcc]].
  destruct (chosen_row _ k Hne Hk Hshape Hcc s) as [r [Hm [Hr Es]]].
  exists r. apply group_In in Hr as Hr'. destruct Hr' as [Hrd Hrk].
  repeat split; try assumption.
  unfold lookup_row. rewrite Hkn. remember (group d (skeys s)) as G eqn:EG.
  destruct G as [|r0 t]; [congruence|]. rewrite Hnum.
  assert (E : negb ext && existsb (fun q => out_one_s (r0 :: t) q s) (seq 0 k) = false).
  { destruct Hin as [->|Hin]; [reflexivity|]. apply andb_false_iff. right. apply existsb_false.
    intros q Hq. apply in_seq in Hq. unfold out_one_s. destruct (isnan q s) eqn:Hn; [reflexivity|].
    apply out_one_false. apply Hin; [lia | exact Hn]. }
  rewrite E, Hm. reflexivity.
Qed.

(* what had to be assumed before fix 1620b43e is now a consequence of the validation *)
Theorem valid_ends_agree k d r r' p : wf k d = true -> In r d -> In r' d -> rkeys r = rkeys r' -> (p < k)%nat ->
  start p r = start p r' -> start p r < stop p r -> stop p r = stop p r'.
Proof.
  intros Hwf Hr Hr' Ek Hp Es Hproper.
  assert (HrG : In r (group d (rkeys r))) by (now apply group_In).
  assert (Hr'G : In r' (group d (rkeys r))) by (apply group_In; split; [exact Hr' | now symmetry]).
  assert (Hne : group d (rkeys r) <> []) by (intros E; rewrite E in HrG; contradiction).
  destruct (wf_group k d (rkeys r) Hwf Hne) as [Hk [Hshape Hcc]].
  now apply (ends_agree_proper _ k Hshape Hcc p r r').
Qed.

(* bin membership + uniqueness *)
Theorem bin_membership ext d k s : wf k d = true -> no_nan k s -> numeric k s -> group d (skeys s) <> [] ->
  (forall p, (p < k)%nat -> in_range (group d (skeys s)) p (param p s)) ->
  exists r, lookup_row ext d k s = Ok (Some r) /\ In r d /\ rkeys r = skeys s /\
            (forall p, (p < k)%nat -> in_bin p r (param p s)) /\
            (forall r', In r' d -> rkeys r' = skeys s -> (forall p, (p < k)%nat -> in_bin p r' (param p s)) -> r' = r).
Proof.
  intros Hwf [Hkn Hnn] Hnum Hne Hin. destruct (wf_group k d (skeys s) Hwf Hne) as [Hk [Hshape Hcc]].
  destruct (lookup_row_found ext d k s Hwf Hkn Hnum Hne (or_intror (fun p Hp _ => Hin p Hp))) as [r [Hl [Hm [Hrd [Hrk Es]]]]].
  assert (Hr : In r (group d (skeys s))) by (now apply group_In).
  exists r. repeat split; try assumption.
  - apply (chosen_in_bin _ k Hne Hk Hshape Hcc r s p Hr Es H (Hnn p H) (Hin p H)).
  - apply (chosen_in_bin _ k Hne Hk Hshape Hcc r s p Hr Es H (Hnn p H) (Hin p H)).
  - intros r' Hr'd Hr'k Hb. assert (Hr' : In r' (group d (skeys s))) by (now apply group_In).
    pose proof (in_bins_is_chosen _ k Hne Hk Hshape Hcc r' s Hr' Hnn Hb) as E'.
    assert (Hmem : In r' (matches (group d (skeys s)) (chosen (group d (skeys s)) k s))).
    { unfold matches. apply filter_In. split; [exact Hr' | now apply zlist_eqb_eq]. }
    rewrite Hm in Hmem. destruct Hmem as [<-|[]]. reflexivity.
Qed.

(* extrapolation: nearest edge bin per parameter; rejection when switched off *)
Theorem extrapolation d k s : wf k d = true -> no_nan k s -> numeric k s -> group d (skeys s) <> [] ->
  let G := group d (skeys s) in
  (exists r, lookup_row true d k s = Ok (Some r) /\ In r d /\ rkeys r = skeys s /\
     forall p, (p < k)%nat ->
       (param p s < low_edge G p -> start p r = low_edge G p) /\
       (max_right G p <= param p s -> start p r = last_edge G p) /\
       (in_range G p (param p s) -> in_bin p r (param p s))) /\
  (forall p, (p < k)%nat -> ~ in_range G p (param p s) -> lookup_row false d k s = Rejected EConfig).
Proof.
  intros Hwf [Hkn Hnn] Hnum Hne G. destruct (wf_group k d (skeys s) Hwf Hne) as [Hk [Hshape Hcc]]. split.
  - destruct (lookup_row_found true d k s Hwf Hkn Hnum Hne (or_introl eq_refl)) as [r [Hl [Hm [Hrd [Hrk Es]]]]].
    assert (Hr : In r G) by (now apply group_In).
    exists r. repeat split; try assumption.
    + now apply (chosen_below G k Hne Hk Hshape Hcc r s p Es H (Hnn p H)).
    + now apply (chosen_above G k Hne Hk Hshape Hcc r s p Es H (Hnn p H)).
    + apply (chosen_in_bin G k Hne Hk Hshape Hcc r s p Hr Es H (Hnn p H) H0).
    + apply (chosen_in_bin G k Hne Hk Hshape Hcc r s p Hr Es H (Hnn p H) H0).
  - intros p Hp Hout. now apply (lookup_row_out false d k s p Hkn Hnum Hne eq_refl Hp (Hnn p Hp)).
Qed.

(* the half-open convention: a value equal to a left edge belongs to the bin that starts there; a value equal to a
   (proper) bin's right edge belongs to the bin that starts there - not to the one that ends there *)
Theorem edges_half_open ext d k s r : wf k d = true -> key_has_nan (skeys s) = false ->
  lookup_row ext d k s = Ok (Some r) ->
  forall p r0, (p < k)%nat -> isnan p s = false -> In r0 d -> rkeys r0 = skeys s ->
    (param p s = start p r0 -> start p r = param p s) /\
    (param p s = stop p r0 -> start p r0 < stop p r0 -> param p s < max_right (group d (skeys s)) p ->
       start p r = param p s /\ r <> r0).
Proof.
  intros Hwf Hkn Hl p r0 Hp Hn Hr0d Hr0k.
  assert (Hr0 : In r0 (group d (skeys s))) by (now apply group_In).
  assert (Hne : group d (skeys s) <> []) by (intros E; rewrite E in Hr0; contradiction).
  destruct (wf_group k d (skeys s) Hwf Hne) as [Hk [Hshape Hcc]].
  assert (Es : starts r = chosen (group d (skeys s)) k s).
  { destruct (chosen_row _ k Hne Hk Hshape Hcc s) as [r1 [Hm [Hr1 Es1]]].
    unfold lookup_row in Hl. rewrite Hkn in Hl. remember (group d (skeys s)) as G eqn:EG.
    destruct G as [|g0 t]; [discriminate|]. destruct (any_bad k s); [discriminate|].
    destruct (negb ext && existsb (fun q => out_one_s (g0 :: t) q s) (seq 0 k)); [discriminate|].
    rewrite Hm in Hl. now injection Hl as <-. }
  split.
  - intros Ex. apply (chosen_on_start _ k Hne Hk Hshape Hcc r r0 s p Es Hp Hn Hr0 Ex).
  - intros Ex Hproper Hhi.
    pose proof (chosen_on_stop _ k Hne Hk Hshape Hcc r r0 s p Es Hp Hn Hr0 Ex Hproper Hhi) as E. split; [exact E|].
    intros ->. lia.
Qed.

(* the code as it is (candidate finding): a NaN parameter is never rejected - not even with extrapolation off - and
   silently selects the LAST bin of that parameter; the other parameters are treated as usual *)
Theorem nan_parameter ext d k s : wf k d = true -> key_has_nan (skeys s) = false -> numeric k s ->
  group d (skeys s) <> [] ->
  (ext = true \/ forall p, (p < k)%nat -> isnan p s = false -> in_range (group d (skeys s)) p (param p s)) ->
  exists r, lookup_row ext d k s = Ok (Some r) /\ In r d /\ rkeys r = skeys s /\
    forall p, (p < k)%nat ->
      (isnan p s = true -> start p r = last_edge (group d (skeys s)) p) /\
      (isnan p s = false -> in_range (group d (skeys s)) p (param p s) -> in_bin p r (param p s)).
Proof.
  intros Hwf Hkn Hnum Hne Hin. destruct (wf_group k d (skeys s) Hwf Hne) as [Hk [Hshape Hcc]].
  destruct (lookup_row_found ext d k s Hwf Hkn Hnum Hne Hin) as [r [Hl [Hm [Hrd [Hrk Es]]]]].
  assert (Hr : In r (group d (skeys s))) by (now apply group_In).
  exists r. repeat split; try assumption.
  - intros Hn. now apply (start_chosen_nan _ k Hne Hk Hshape Hcc r s p Es H).
  - apply (chosen_in_bin _ k Hne Hk Hshape Hcc r s p Hr Es H H0 H1).
  - apply (chosen_in_bin _ k Hne Hk Hshape Hcc r s p Hr Es H H0 H1).
Qed.

(* ================================================================================================================ *)
(* J. the loop over the key groups of a request = the per-simulant function mapped over the request                 *)
(* ================================================================================================================ *)
Definition val (r : result cells) : cells := match r with Ok v => v | _ => None end.
Definition okb {A} (r : result A) : bool := match r with Ok _ => true | _ => false end.

Lemma zassoc_map_in {B C} (g : Z * B -> C) (l : list (Z * B)) s :
  NoDup (map fst l) -> In s l -> zassoc (fst s) (map (fun x => (fst x, g x)) l) = Some (g s).
Proof.
  induction l as [|a t IH]; simpl; intros Hn Hs; [contradiction|].
  inversion Hn as [|? ? Hna Ht]; subst. destruct Hs as [->|Hs].
  - now rewrite Z.eqb_refl.
  - destruct (Z.eqb_spec (fst a) (fst s)) as [E|_]; [|now apply IH].
    exfalso. apply Hna. rewrite E. now apply in_map.
Qed.

Lemma zassoc_map_notin {B C} (g : Z * B -> C) (l : list (Z * B)) i :
  ~ In i (map fst l) -> zassoc i (map (fun x => (fst x, g x)) l) = None.
Proof.
  induction l as [|a t IH]; simpl; intros Hn; [reflexivity|].
  destruct (Z.eqb_spec (fst a) i) as [E|_]; [exfalso; apply Hn; now left|]. apply IH. intros H. apply Hn. now right.
Qed.

(* a request may name a simulant several times; what matters is that equal labels carry equal attributes *)
Definition functional (ss : list (Z * simulant)) : Prop :=
  forall a b, In a ss -> In b ss -> fst a = fst b -> snd a = snd b.

Lemma functional_incl (l l' : list (Z * simulant)) : incl l l' -> functional l' -> functional l.
Proof. intros Hi Hf a b Ha Hb. apply Hf; now apply Hi. Qed.

Lemma zassoc_map_fun {C} (g : simulant -> C) (l : list (Z * simulant)) s :
  functional l -> In s l -> zassoc (fst s) (map (fun x => (fst x, g (snd x))) l) = Some (g (snd s)).
Proof.
  induction l as [|a t IH]; simpl; intros Hf Hs; [contradiction|].
  destruct (Z.eqb_spec (fst a) (fst s)) as [E|Hne].
  - rewrite (Hf a s (or_introl eq_refl) Hs E). reflexivity.
  - destruct Hs as [->|Hs]; [congruence|]. apply IH; [|exact Hs].
    apply (functional_incl t (a :: t)); [intros x Hx; now right | exact Hf].
Qed.

Lemma sub_table_In ss key s : In s (sub_table ss key) <-> In s ss /\ skeys (snd s) = key.
Proof. unfold sub_table. rewrite filter_In, zlist_eqb_eq. tauto. Qed.

Section MapRes.
  Variable h : simulant -> result cells.
  Hypothesis Hh : forall s, h s <> OutOfFuel.

  Definition pointwise (ss : list (Z * simulant)) : frame := map (fun s => (fst s, val (h (snd s)))) ss.

  Lemma map_res_ok (ss : list (Z * simulant)) : (forall s, In s ss -> okb (h (snd s)) = true) -> map_res h ss = Ok (pointwise ss).
  Proof.
    induction ss as [|a t IH]; simpl; intros H; [reflexivity|].
    pose proof (H a (or_introl eq_refl)) as Ha. destruct (h (snd a)) as [v| |]; try discriminate.
    rewrite IH by (intros s Hs; apply H; now right). reflexivity.
  Qed.

  Lemma map_res_rejected (ss : list (Z * simulant)) : (exists s, In s ss /\ okb (h (snd s)) = false) -> exists e, map_res h ss = Rejected e.
  Proof using Hh.
    induction ss as [|a t IH]; simpl; intros [s [Hs Hb]]; [contradiction|].
    destruct (h (snd a)) as [v|e|] eqn:Ea; [|eauto|exfalso; now apply (Hh (snd a))].
    destruct Hs as [->|Hs]; [rewrite Ea in Hb; discriminate|].
    destruct (IH (ex_intro _ s (conj Hs Hb))) as [e ->]. eauto.
  Qed.

  Lemma all_or_some (ss : list (Z * simulant)) : (forall s, In s ss -> okb (h (snd s)) = true) \/ (exists s, In s ss /\ okb (h (snd s)) = false).
  Proof.
    destruct (forallb (fun s => okb (h (snd s))) ss) eqn:E.
    - left. now apply forallb_forall.
    - right. assert (H : existsb (fun s => negb (okb (h (snd s)))) ss = true).
      { clear -E. induction ss as [|a t IH]; simpl in *; [discriminate|].
        destruct (okb (h (snd a))); simpl in *; [now apply IH | reflexivity]. }
      apply existsb_exists in H as [s [Hs Hb]]. exists s. split; [exact Hs | now apply negb_true_iff].
  Qed.

  (* what the request-level result says about each simulant *)
  Lemma map_res_ok_inv (ss : list (Z * simulant)) fr : map_res h ss = Ok fr ->
    fr = pointwise ss /\ forall s, In s ss -> h (snd s) = Ok (val (h (snd s))).
  Proof using Hh.
    intros E. destruct (all_or_some ss) as [H|H].
    - rewrite (map_res_ok ss H) in E. injection E as <-. split; [reflexivity|].
      intros s Hs. specialize (H s Hs). now destruct (h (snd s)).
    - destruct (map_res_rejected ss H) as [e E']. congruence.
  Qed.

  Lemma map_res_rejected_inv (ss : list (Z * simulant)) e : map_res h ss = Rejected e -> exists s e', In s ss /\ h (snd s) = Rejected e'.
  Proof using Hh.
    intros E. destruct (all_or_some ss) as [H|[s [Hs Hb]]].
    - rewrite (map_res_ok ss H) in E. discriminate.
    - exists s. destruct (h (snd s)) as [v|e'|] eqn:Es; [discriminate | eauto | exfalso; now apply (Hh (snd s))].
  Qed.

  Lemma map_res_not_oof (ss : list (Z * simulant)) : map_res h ss <> OutOfFuel.
  Proof using Hh.
    destruct (all_or_some ss) as [H|H].
    - now rewrite (map_res_ok ss H).
    - destruct (map_res_rejected ss H) as [e ->]. discriminate.
  Qed.

  Variable f : list Z -> list (Z * simulant) -> result frame.
  Hypothesis Hf : forall key sub, key_has_nan key = false -> sub <> [] -> (forall s, In s sub -> skeys (snd s) = key) ->
                                  agree (f key sub) (map_res h sub).
  (* a simulant whose key tuple has a missing value belongs to no group and keeps its row of NaN *)
  Hypothesis Hnan : forall s, key_has_nan (skeys s) = true -> h s = Ok None.

  Definition partial (done : list (list Z)) (ss : list (Z * simulant)) : frame :=
    map (fun s => (fst s, if existsb (zlist_eqb (skeys (snd s))) done then val (h (snd s)) else None)) ss.

  Lemma assign_partial (ss : list (Z * simulant)) key done : functional ss ->
    assign (partial done ss) (pointwise (sub_table ss key)) = partial (key :: done) ss.
  Proof.
    intros Hn. unfold assign, partial. rewrite map_map. apply map_ext_in. intros s Hs. cbn [fst snd existsb].
    destruct (zlist_eqb (skeys (snd s)) key) eqn:E.
    - assert (Hsub : In s (sub_table ss key)) by (apply sub_table_In; split; [exact Hs | now apply zlist_eqb_eq]).
      unfold pointwise.
      rewrite (zassoc_map_fun (fun x => val (h x)) (sub_table ss key) s); [reflexivity| |exact Hsub].
      apply (functional_incl _ ss); [|exact Hn]. intros x Hx. now apply sub_table_In in Hx.
    - unfold pointwise. rewrite zassoc_map_notin; [reflexivity|].
      intros Hin. apply in_map_iff in Hin as [s' [Ef Hs']]. apply sub_table_In in Hs' as [Hs' Ek].
      rewrite (Hn s' s Hs' Hs Ef) in Ek. apply zlist_eqb_neq in E. contradiction.
  Qed.

  Lemma sub_table_key (ss : list (Z * simulant)) key s : In s (sub_table ss key) -> skeys (snd s) = key.
  Proof. intros H. now apply sub_table_In in H. Qed.

  Lemma run_groups_ok (ss : list (Z * simulant)) : functional ss -> forall keys done,
    (forall key, In key keys -> sub_table ss key <> [] /\ key_has_nan key = false) ->
    (forall s, In s ss -> In (skeys (snd s)) keys -> okb (h (snd s)) = true) ->
    run_groups f ss keys (partial done ss) = Ok (partial (rev keys ++ done) ss).
  Proof using Hf.
    intros Hn. induction keys as [|key rest IH]; intros done Hne Hok; [reflexivity|].
    simpl run_groups.
    assert (Hsub : forall s, In s (sub_table ss key) -> okb (h (snd s)) = true).
    { intros s Hs. apply sub_table_In in Hs as [Hs Ek]. apply Hok; [exact Hs | now left]. }
    destruct (Hne key (or_introl eq_refl)) as [Hne1 Hne2].
    pose proof (Hf key (sub_table ss key) Hne2 Hne1 (sub_table_key ss key)) as Ha.
    rewrite (map_res_ok _ Hsub) in Ha. destruct (f key (sub_table ss key)) as [df| |]; try contradiction.
    simpl in Ha. subst df. rewrite (assign_partial ss key done Hn).
    rewrite IH.
    - simpl rev. now rewrite <- app_assoc.
    - intros key' Hk. apply Hne. now right.
    - intros s Hs Hk. apply Hok; [exact Hs | now right].
  Qed.

  Lemma run_groups_rejected (ss : list (Z * simulant)) : functional ss -> forall keys done,
    (forall key, In key keys -> sub_table ss key <> [] /\ key_has_nan key = false) ->
    (exists s, In s ss /\ In (skeys (snd s)) keys /\ okb (h (snd s)) = false) ->
    exists e, run_groups f ss keys (partial done ss) = Rejected e.
  Proof using Hf Hh.
    intros Hn. induction keys as [|key rest IH]; intros done Hne [s [Hs [Hk Hb]]]; [contradiction|].
    simpl run_groups.
    destruct (Hne key (or_introl eq_refl)) as [Hne1 Hne2].
    pose proof (Hf key (sub_table ss key) Hne2 Hne1 (sub_table_key ss key)) as Ha.
    destruct (all_or_some (sub_table ss key)) as [Hall|Hsome].
    - rewrite (map_res_ok _ Hall) in Ha. destruct (f key (sub_table ss key)) as [df| |]; try contradiction.
      simpl in Ha. subst df. rewrite (assign_partial ss key done Hn). apply IH.
      + intros key' Hk'. apply Hne. now right.
      + exists s. split; [exact Hs|]. split; [|exact Hb].
        destruct Hk as [E|Hk]; [|exact Hk]. exfalso.
        assert (In s (sub_table ss key)) by (apply sub_table_In; auto).
        rewrite (Hall s H) in Hb. discriminate.
    - destruct (map_res_rejected _ Hsome) as [e E]. rewrite E in Ha.
      destruct (f key (sub_table ss key)) as [df|e'|]; try contradiction. eauto.
  Qed.

  Lemma partial_all keys (ss : list (Z * simulant)) :
    (forall s, In s ss -> In (skeys (snd s)) keys \/ val (h (snd s)) = None) -> partial keys ss = pointwise ss.
  Proof.
    intros H. unfold partial, pointwise. apply map_ext_in. intros s Hs.
    destruct (existsb (zlist_eqb (skeys (snd s))) keys) eqn:E; [reflexivity|].
    destruct (H s Hs) as [Hin|Hv]; [|now rewrite Hv].
    assert (X : existsb (zlist_eqb (skeys (snd s))) keys = true).
    { apply existsb_exists. exists (skeys (snd s)). split; [exact Hin | apply zlist_eqb_refl]. }
    congruence.
  Qed.

  Theorem by_groups_pointwise (ss : list (Z * simulant)) : functional ss -> agree (by_groups f ss) (map_res h ss).
  Proof using Hf Hh Hnan.
    intros Hn. unfold by_groups. set (keys := request_keys ss).
    assert (Hkeys : forall s, In s ss -> key_has_nan (skeys (snd s)) = false -> In (skeys (snd s)) keys).
    { intros s Hs Hk. unfold keys, request_keys. apply sort_keys_In. apply filter_In. split.
      - apply in_map_iff. eauto.
      - now rewrite Hk. }
    assert (Hne : forall key, In key keys -> sub_table ss key <> [] /\ key_has_nan key = false).
    { intros key Hk. unfold keys, request_keys in Hk. apply -> sort_keys_In in Hk.
      apply filter_In in Hk as [Hk Hkn]. apply negb_true_iff in Hkn. split; [|exact Hkn].
      apply in_map_iff in Hk as [s [E Hs]].
      intros Hnil. assert (In s (sub_table ss key)) by (apply sub_table_In; auto). rewrite Hnil in H. contradiction. }
    change (map (fun s => (fst s, None)) ss) with (partial [] ss).
    destruct (all_or_some ss) as [Hall|[s [Hs Hb]]].
    - rewrite (run_groups_ok ss Hn keys [] Hne) by (intros s Hs _; now apply Hall).
      rewrite (map_res_ok ss Hall). simpl. rewrite app_nil_r. apply partial_all.
      intros s Hs. destruct (key_has_nan (skeys (snd s))) eqn:Hk.
      + right. now rewrite (Hnan _ Hk).
      + left. apply in_rev. rewrite rev_involutive. now apply Hkeys.
    - destruct (run_groups_rejected ss Hn keys [] Hne) as [e ->].
      { exists s. split; [exact Hs|]. split; [|exact Hb]. apply Hkeys; [exact Hs|].
        destruct (key_has_nan (skeys (snd s))) eqn:Hk; [|reflexivity]. rewrite (Hnan _ Hk) in Hb. discriminate. }
      destruct (map_res_rejected ss (ex_intro _ s (conj Hs Hb))) as [e' ->]. exact I.
  Qed.
End MapRes.

(* ================================================================================================================ *)
(* K. InterpolatedTable.call on a request = lookup_one mapped over the request                                      *)
(* ================================================================================================================ *)
Lemma chosen_from_spec G s : forall k p,
  chosen_from p (map (edges G) (seq p k)) s = map (fun q => chosen_edge_s (edges G q) q s) (seq p k).
Proof. induction k as [|k IH]; intros p; simpl; [reflexivity|]. f_equal. apply IH. Qed.

(* the shared-edges evaluation order of the running model is the specification's [chosen] *)
Lemma chosen_from_all G k s : chosen_from 0 (all_edges G k) s = chosen G k s.
Proof. unfold all_edges, chosen. apply chosen_from_spec. Qed.

Definition row_in (ext : bool) (G : list row) (k : nat) (s : simulant) : result (option row) :=
  if any_bad k s then Rejected EOther else
  if negb ext && existsb (fun p => out_one_s G p s) (seq 0 k) then Rejected EConfig
  else match matches G (chosen G k s) with [] => Ok None | [r] => Ok (Some r) | _ => Rejected EConfig end.
Definition cells_of (r : result (option row)) : result cells :=
  match r with Ok o => Ok (option_map rvals o) | Rejected e => Rejected e | OutOfFuel => OutOfFuel end.

Lemma lookup_row_in ext d k s : key_has_nan (skeys s) = false ->
  lookup_row ext d k s = match group d (skeys s) with [] => Rejected EPopulation | _ => row_in ext (group d (skeys s)) k s end.
Proof. intros Hk. unfold lookup_row, row_in. rewrite Hk. now destruct (group d (skeys s)). Qed.

Lemma lookup_one_cells ext d k s : lookup_one ext d k s = cells_of (lookup_row ext d k s).
Proof. reflexivity. Qed.

Lemma lookup_one_not_oof ext d k s : lookup_one ext d k s <> OutOfFuel.
Proof.
  rewrite lookup_one_cells. destruct (key_has_nan (skeys s)) eqn:Hk.
  - rewrite lookup_row_missing_key by exact Hk. discriminate.
  - rewrite lookup_row_in by exact Hk. destruct (group d (skeys s)); [discriminate|]. unfold row_in.
    destruct (any_bad k s); [discriminate|]. destruct (negb ext && _); [discriminate|]. destruct (matches _ _) as [|a [|b t]]; discriminate.
Qed.

Lemma map_res_ext h1 h2 (ss : list (Z * simulant)) :
  (forall s, In s ss -> h1 (snd s) = h2 (snd s)) -> map_res h1 ss = map_res h2 ss.
Proof.
  induction ss as [|a t IH]; simpl; intros H; [reflexivity|].
  rewrite (H a (or_introl eq_refl)), IH; [reflexivity|]. intros s Hs. apply H. now right.
Qed.

Lemma existsb_ext_in {A} (f g : A -> bool) l : (forall x, In x l -> f x = g x) -> existsb f l = existsb g l.
Proof.
  induction l as [|a t IH]; simpl; intros H; [reflexivity|].
  rewrite (H a (or_introl eq_refl)), IH; [reflexivity|]. intros x Hx. apply H. now right.
Qed.

Lemma out_of_range_exists G p (sub : list (Z * simulant)) :
  out_of_range G p sub = existsb (fun s => out_one_s G p (snd s)) sub.
Proof.
  unfold out_of_range. cbv zeta.
  set (num := filter (fun s : Z * simulant => negb (isnan p (snd s))) sub).
  assert (Hnum : existsb (fun s => out_one_s G p (snd s)) sub = existsb (fun s => out_one G p (param p (snd s))) num).
  { unfold num. clear. induction sub as [|a t IH]; simpl; [reflexivity|]. unfold out_one_s at 1.
    destruct (isnan p (snd a)); simpl; [exact IH | now rewrite IH]. }
  rewrite Hnum. destruct num as [|a t] eqn:En; [reflexivity|]. rewrite <- En.
  assert (Hx : map (fun s : Z * simulant => param p (snd s)) num <> []) by (rewrite En; discriminate).
  replace (is_nil (map (fun s : Z * simulant => param p (snd s)) num)) with false by (rewrite En; reflexivity).
  rewrite (col_min_ltb _ _ Hx), (col_max_leb _ _ Hx). apply eq_true_iff_eq.
  rewrite orb_true_iff, !existsb_exists. split.
  - intros [[x [Hin H]]|[x [Hin H]]]; apply in_map_iff in Hin as [s [<- Hs]]; exists s; (split; [exact Hs|]);
      unfold out_one, low_edge; rewrite H; [reflexivity | apply orb_true_r].
  - intros [s [Hs H]]. unfold out_one, low_edge in H. apply orb_true_iff in H as [H|H]; [left|right];
      exists (param p (snd s)); (split; [apply in_map_iff; eauto | exact H]).
Qed.

Lemma flat_map_singleton {A B} (F : A -> list B) (g : A -> B) l :
  (forall x, In x l -> F x = [g x]) -> flat_map F l = map g l.
Proof.
  induction l as [|a t IH]; simpl; intros H; [reflexivity|].
  rewrite (H a (or_introl eq_refl)), IH; [reflexivity|]. intros x Hx. apply H. now right.
Qed.

Lemma flat_map_length_ge {A B} (F : A -> list B) l :
  (forall x, In x l -> (1 <= length (F x))%nat) -> (length l <= length (flat_map F l))%nat.
Proof.
  induction l as [|a t IH]; simpl; intros H; [lia|]. rewrite app_length.
  pose proof (H a (or_introl eq_refl)). specialize (IH (fun x Hx => H x (or_intror Hx))). lia.
Qed.

Lemma flat_map_length_gt {A B} (F : A -> list B) l :
  (forall x, In x l -> (1 <= length (F x))%nat) -> (exists x, In x l /\ (2 <= length (F x))%nat) ->
  (length l < length (flat_map F l))%nat.
Proof.
  induction l as [|a t IH]; simpl; intros H [x [Hx H2]]; [contradiction|]. rewrite app_length.
  pose proof (H a (or_introl eq_refl)) as Ha.
  pose proof (flat_map_length_ge F t (fun y Hy => H y (or_intror Hy))) as Hge.
  destruct Hx as [->|Hx]; [lia|].
  specialize (IH (fun y Hy => H y (or_intror Hy)) (ex_intro _ x (conj Hx H2))). lia.
Qed.

Section Order0.
  Variables (ext : bool) (G : list row) (k : nat).

  Definition hG (s : simulant) : result cells := cells_of (row_in ext G k s).
  Definition merged (s : Z * simulant) : list cells :=
    match matches G (chosen G k (snd s)) with [] => [None] | ms => map (fun r => Some (rvals r)) ms end.

  Lemma hG_not_oof s : hG s <> OutOfFuel.
  Proof.
    unfold hG, row_in. destruct (any_bad k s); [discriminate|]. destruct (negb ext && _); [discriminate|].
    destruct (matches _ _) as [|a [|b t]]; discriminate.
  Qed.

  Lemma merge_left_merged sub : merge_left G (all_edges G k) sub = flat_map merged sub.
  Proof. unfold merge_left, merged. apply flat_map_ext. intros s. now rewrite chosen_from_all. Qed.

  Lemma merged_ge1 s : (1 <= length (merged s))%nat.
  Proof. unfold merged. destruct (matches _ _) as [|a t]; simpl; lia. Qed.

  (* once the range test is passed, the merge is the per-simulant match *)
  Lemma merge_agree (sub : list (Z * simulant)) :
    (forall s, In s sub -> any_bad k (snd s) = false) ->
    (forall s, In s sub -> negb ext && existsb (fun p => out_one_s G p (snd s)) (seq 0 k) = false) ->
    agree (let m := merge_left G (all_edges G k) sub in
           if (length m =? length sub)%nat then Ok (combine (map fst sub) m) else Rejected EConfig)
          (map_res hG sub).
  Proof.
    intros Hnb Hin. cbv zeta. rewrite merge_left_merged.
    destruct (all_or_some hG sub) as [Hall|[s [Hs Hb]]].
    - rewrite (map_res_ok hG sub Hall).
      assert (E : flat_map merged sub = map (fun s => val (hG (snd s))) sub).
      { apply flat_map_singleton. intros s Hs. specialize (Hall s Hs). specialize (Hin s Hs). specialize (Hnb s Hs).
        unfold hG, row_in in *. rewrite Hnb, Hin in *. unfold merged.
        destruct (matches G (chosen G k (snd s))) as [|a [|b t]]; simpl in *; try reflexivity. discriminate. }
      rewrite E, map_length, Nat.eqb_refl. simpl. unfold pointwise. apply combine_map_fst.
    - destruct (map_res_rejected hG hG_not_oof sub (ex_intro _ s (conj Hs Hb))) as [e ->].
      assert (L : (length sub < length (flat_map merged sub))%nat).
      { apply flat_map_length_gt; [intros; apply merged_ge1|]. exists s. split; [exact Hs|].
        specialize (Hin s Hs). unfold hG, row_in in Hb. rewrite (Hnb s Hs), Hin in Hb. unfold merged.
        destruct (matches G (chosen G k (snd s))) as [|a [|b t]]; simpl in *; try discriminate. lia. }
      destruct (Nat.eqb_spec (length (flat_map merged sub)) (length sub)); [lia | exact I].
  Qed.

  Lemma order0_agree (sub : list (Z * simulant)) : agree (order0 ext G k sub) (map_res hG sub).
  Proof.
    unfold order0.
    destruct (existsb (fun s => any_bad k (snd s)) sub) eqn:B.
    { apply existsb_exists in B as [s [Hs B]].
      destruct (map_res_rejected hG hG_not_oof sub) as [e ->]; [|exact I].
      exists s. split; [exact Hs|]. unfold hG, row_in. now rewrite B. }
    assert (Hnb : forall s, In s sub -> any_bad k (snd s) = false).
    { intros s Hs. destruct (any_bad k (snd s)) eqn:Bs; [|reflexivity].
      assert (existsb (fun s => any_bad k (snd s)) sub = true) by (apply existsb_exists; eauto). congruence. }
    assert (E : existsb (fun p => out_of_range G p sub) (seq 0 k) =
                existsb (fun s => existsb (fun p => out_one_s G p (snd s)) (seq 0 k)) sub).
    { rewrite (existsb_ext_in _ (fun p => existsb (fun s => out_one_s G p (snd s)) sub)).
      - apply existsb_swap.
      - intros p _. apply out_of_range_exists. }
    rewrite E. clear E.
    destruct (negb ext && existsb (fun s => existsb (fun p => out_one_s G p (snd s)) (seq 0 k)) sub) eqn:C.
    - apply andb_true_iff in C as [Cx C]. apply existsb_exists in C as [s [Hs C]].
      destruct (map_res_rejected hG hG_not_oof sub) as [e ->]; [|exact I].
      exists s. split; [exact Hs|]. unfold hG, row_in. now rewrite (Hnb s Hs), Cx, C.
    - apply merge_agree; [exact Hnb|]. intros s Hs. apply andb_false_iff in C as [C|C]; [now rewrite C|].
      apply andb_false_iff. right.
      destruct (existsb (fun p => out_one_s G p (snd s)) (seq 0 k)) eqn:Es; [|reflexivity].
      assert (existsb (fun s => existsb (fun p => out_one_s G p (snd s)) (seq 0 k)) sub = true)
        by (apply existsb_exists; eauto). congruence.
  Qed.
End Order0.

Lemma interp_group_agree ext d k key (sub : list (Z * simulant)) : key_has_nan key = false ->
  sub <> [] -> (forall s, In s sub -> skeys (snd s) = key) ->
  agree (interp_group ext d k key sub) (map_res (lookup_one ext d k) sub).
Proof.
  intros Hkn Hne Hkey. unfold interp_group. destruct (group d key) as [|g0 t] eqn:EG.
  - destruct (map_res_rejected (lookup_one ext d k) (lookup_one_not_oof ext d k) sub) as [e ->]; [|exact I].
    destruct sub as [|s0 r]; [congruence|]. exists s0. split; [now left|].
    rewrite lookup_one_cells, lookup_row_in by (now rewrite (Hkey s0 (or_introl eq_refl))).
    rewrite (Hkey s0 (or_introl eq_refl)), EG. reflexivity.
  - rewrite (map_res_ext (lookup_one ext d k) (hG ext (g0 :: t) k) sub).
    + apply order0_agree.
    + intros s Hs. rewrite lookup_one_cells, lookup_row_in by (now rewrite (Hkey s Hs)).
      rewrite (Hkey s Hs), EG. reflexivity.
Qed.

Lemma lookup_one_missing_key ext d k s : key_has_nan (skeys s) = true -> lookup_one ext d k s = Ok None.
Proof. intros H. rewrite lookup_one_cells, lookup_row_missing_key by exact H. reflexivity. Qed.

Lemma gather_fst pop : forall idx ss, gather pop idx = Some ss -> map fst ss = idx.
Proof.
  induction idx as [|i r IH]; simpl; intros ss H.
  - now injection H as <-.
  - destruct (zassoc i pop) as [s|]; [|discriminate]. destruct (gather pop r) as [l|] eqn:E; [|discriminate].
    injection H as <-. simpl. now rewrite (IH l eq_refl).
Qed.

Lemma gather_In pop : forall idx ss, gather pop idx = Some ss -> forall x, In x ss -> zassoc (fst x) pop = Some (snd x).
Proof.
  induction idx as [|i r IH]; simpl; intros ss H x Hx.
  - injection H as <-. contradiction.
  - destruct (zassoc i pop) as [s|] eqn:Ei; [|discriminate]. destruct (gather pop r) as [l|] eqn:E; [|discriminate].
    injection H as <-. destruct Hx as [<-|Hx]; [exact Ei|]. now apply (IH l eq_refl).
Qed.

Lemma gather_none pop : forall idx, gather pop idx = None <-> exists i, In i idx /\ zassoc i pop = None.
Proof.
  induction idx as [|i r IH]; simpl.
  - split; [discriminate | intros [i [[] _]]].
  - destruct (zassoc i pop) as [s|] eqn:Ei.
    + destruct (gather pop r) as [l|].
      * split; [discriminate|]. intros [j [[<-|Hj] Ej]]; [congruence|].
        assert (X : Some l = None) by (apply IH; eauto). discriminate.
      * split; [|reflexivity]. intros _. destruct (proj1 IH eq_refl) as [j [Hj Ej]]. eauto.
    + split; [intros _; eauto | reflexivity].
Qed.

Lemma gather_functional pop idx ss : gather pop idx = Some ss -> functional ss.
Proof.
  intros Eg a b Ha Hb E. pose proof (gather_In pop idx ss Eg a Ha) as Ea. pose proof (gather_In pop idx ss Eg b Hb) as Eb.
  rewrite E in Ea. congruence.
Qed.

Lemma with_year_all_functional ypos yv ss : functional ss -> functional (with_year_all ypos yv ss).
Proof.
  intros Hf a b Ha Hb E. unfold with_year_all in *.
  apply in_map_iff in Ha as [a0 [<- Ha]]. apply in_map_iff in Hb as [b0 [<- Hb]]. simpl in *.
  now rewrite (Hf a0 b0 Ha Hb E).
Qed.

Lemma with_year_all_fst ypos yv ss : map fst (with_year_all ypos yv ss) = map fst ss.
Proof. unfold with_year_all. rewrite map_map. reflexivity. Qed.

(* C15_local *)
Theorem table_call_local ext d k ypos yv pop idx :
  agree (table_call ext d k ypos yv pop idx)
        (match gather pop idx with
         | None => Rejected EPopulation
         | Some ss => map_res (lookup_one ext d k) (with_year_all ypos yv ss)
         end).
Proof.
  unfold table_call. destruct (gather pop idx) as [ss|] eqn:Eg; [|exact I].
  unfold interp_call. apply by_groups_pointwise.
  - apply lookup_one_not_oof.
  - intros key sub. apply interp_group_agree.
  - apply lookup_one_missing_key.
  - apply with_year_all_functional. now apply (gather_functional pop idx).
Qed.

(* ================================================================================================================ *)
(* L. corollaries: indexed like the request; rejection is an existential over the request                           *)
(* ================================================================================================================ *)
Lemma pointwise_fst h (ss : list (Z * simulant)) : map fst (pointwise h ss) = map fst ss.
Proof. unfold pointwise. rewrite map_map. reflexivity. Qed.

Theorem table_call_indexed ext d k ypos yv pop idx fr :
  table_call ext d k ypos yv pop idx = Ok fr ->
  map fst fr = idx /\
  exists ss, gather pop idx = Some ss /\
             fr = pointwise (lookup_one ext d k) (with_year_all ypos yv ss) /\
             forall s, In s (with_year_all ypos yv ss) ->
                       lookup_one ext d k (snd s) = Ok (val (lookup_one ext d k (snd s))).
Proof.
  intros E. pose proof (table_call_local ext d k ypos yv pop idx) as A. rewrite E in A.
  destruct (gather pop idx) as [ss|] eqn:Eg; [|contradiction].
  destruct (map_res (lookup_one ext d k) (with_year_all ypos yv ss)) as [fr'| |] eqn:Em; try contradiction.
  simpl in A. subst fr'.
  destruct (map_res_ok_inv _ (lookup_one_not_oof ext d k) _ _ Em) as [-> Hall].
  split; [|eauto]. now rewrite pointwise_fst, with_year_all_fst, (gather_fst pop idx ss Eg).
Qed.

Theorem table_call_rejected_iff ext d k ypos yv pop idx :
  ((exists e, table_call ext d k ypos yv pop idx = Rejected e) <->
   (gather pop idx = None \/
    exists ss s e, gather pop idx = Some ss /\ In s (with_year_all ypos yv ss) /\
                   lookup_one ext d k (snd s) = Rejected e)) /\
  table_call ext d k ypos yv pop idx <> OutOfFuel.
Proof.
  pose proof (table_call_local ext d k ypos yv pop idx) as A.
  destruct (gather pop idx) as [ss|] eqn:Eg.
  - split.
    + split.
      * intros [e E]. right. rewrite E in A.
        destruct (map_res (lookup_one ext d k) (with_year_all ypos yv ss)) as [|e'|] eqn:Em; try contradiction.
        destruct (map_res_rejected_inv _ (lookup_one_not_oof ext d k) _ _ Em) as [s [e2 [Hs Es]]]. eauto 6.
      * intros [H|[ss' [s [e [Ess [Hs Es]]]]]]; [discriminate|]. injection Ess as <-.
        destruct (map_res_rejected (lookup_one ext d k) (lookup_one_not_oof ext d k) (with_year_all ypos yv ss)) as [e' Em].
        { exists s. split; [exact Hs|]. now rewrite Es. }
        rewrite Em in A. destruct (table_call ext d k ypos yv pop idx); try contradiction. eauto.
    + intros E. rewrite E in A. exact A.
  - split.
    + split; [now left|]. intros _. destruct (table_call ext d k ypos yv pop idx); try contradiction. eauto.
    + intros E. rewrite E in A. exact A.
Qed.

(* ================================================================================================================ *)
(* M. scalar and categorical tables                                                                                 *)
(* ================================================================================================================ *)
Lemma zassoc_series v idx i : In i idx -> zassoc i (series v idx) = Some v.
Proof.
  unfold series. induction idx as [|a t IH]; simpl; intros H; [contradiction|].
  destruct (Z.eqb_spec a i); [reflexivity|]. destruct H as [->|H]; [congruence | now apply IH].
Qed.

(* every requested label, in request order, with the table's value(s) - whoever else is requested *)
Theorem scalar_broadcast vs idx : scalar_call vs idx = map (fun i => (i, vs)) idx.
Proof.
  unfold scalar_call. cbv zeta. apply map_ext_in. intros i Hi. f_equal. rewrite map_map.
  rewrite <- (map_id vs) at 2. apply map_ext. intros v. now rewrite (zassoc_series v idx i Hi).
Qed.

Lemma nodup_keys_group d key : nodup_keys d = true -> (length (group d key) <= 1)%nat.
Proof.
  induction d as [|r t IH]; simpl; intros H; [lia|].
  apply andb_true_iff in H as [Hn H]. specialize (IH H). apply negb_true_iff in Hn.
  destruct (zlist_eqb (rkeys r) key) eqn:E; [|exact IH]. simpl.
  destruct (group t key) as [|r' t'] eqn:G; [simpl; lia|]. exfalso.
  assert (Hr' : In r' (group t key)) by (rewrite G; now left). apply group_In in Hr' as [Hr' Ek].
  apply zlist_eqb_eq in E.
  assert (X : existsb (fun r'0 => zlist_eqb (rkeys r'0) (rkeys r)) t = true).
  { apply existsb_exists. exists r'. split; [exact Hr'|]. apply zlist_eqb_eq. congruence. }
  congruence.
Qed.

Lemma cat_one_not_oof d s : cat_one d s <> OutOfFuel.
Proof. unfold cat_one. destruct (key_has_nan (skeys s)); [discriminate|]. destruct (group d (skeys s)) as [|a [|b t]]; discriminate. Qed.

Lemma cat_group_agree d key (sub : list (Z * simulant)) : nodup_keys d = true -> key_has_nan key = false ->
  sub <> [] -> (forall s, In s sub -> skeys (snd s) = key) ->
  agree (cat_group (group d key) sub) (map_res (cat_one d) sub).
Proof.
  intros Hnd Hkn Hne Hkey. pose proof (nodup_keys_group d key Hnd) as Hle.
  destruct (group d key) as [|r [|r2 t]] eqn:EG; simpl in Hle; try lia.
  - destruct (map_res_rejected (cat_one d) (cat_one_not_oof d) sub) as [e ->].
    { destruct sub as [|s0 t]; [congruence|]. exists s0. split; [now left|].
      unfold cat_one. now rewrite (Hkey s0 (or_introl eq_refl)), Hkn, EG. }
    unfold cat_group. simpl. destruct sub; [congruence | exact I].
  - rewrite (map_res_ok (cat_one d) sub).
    + simpl. unfold pointwise. apply map_ext_in. intros s Hs. unfold cat_one. now rewrite (Hkey s Hs), Hkn, EG.
    + intros s Hs. unfold cat_one. now rewrite (Hkey s Hs), Hkn, EG.
Qed.

Theorem cat_call_local d pop idx : nodup_keys d = true ->
  agree (cat_call d pop idx)
        (match gather pop idx with None => Rejected EPopulation | Some ss => map_res (cat_one d) ss end).
Proof.
  intros Hnd. unfold cat_call. destruct (gather pop idx) as [ss|] eqn:Eg; [|exact I].
  apply by_groups_pointwise.
  - apply cat_one_not_oof.
  - intros key sub. now apply cat_group_agree.
  - intros s Hk. unfold cat_one. now rewrite Hk.
  - now apply (gather_functional pop idx).
Qed.

(* what one simulant gets: the values of THE data row with its key tuple *)
Theorem cat_one_spec d s vs : key_has_nan (skeys s) = false -> cat_one d s = Ok vs ->
  exists r, vs = Some (rvals r) /\ In r d /\ rkeys r = skeys s /\ forall r', In r' d -> rkeys r' = skeys s -> r' = r.
Proof.
  intros Hkn. unfold cat_one. rewrite Hkn. destruct (group d (skeys s)) as [|r [|r2 t]] eqn:EG; try discriminate.
  intros [= <-]. exists r. assert (Hr : In r (group d (skeys s))) by (rewrite EG; now left).
  apply group_In in Hr as [Hr Ek]. repeat split; try assumption.
  intros r' Hr' Ek'. assert (H : In r' (group d (skeys s))) by (now apply group_In).
  rewrite EG in H. destruct H as [<-|[]]. reflexivity.
Qed.

Theorem cat_call_indexed d pop idx fr : nodup_keys d = true -> cat_call d pop idx = Ok fr ->
  map fst fr = idx /\
  exists ss, gather pop idx = Some ss /\ fr = pointwise (cat_one d) ss /\
             forall s, In s ss -> cat_one d (snd s) = Ok (val (cat_one d (snd s))).
Proof.
  intros Hnd E. pose proof (cat_call_local d pop idx Hnd) as A. rewrite E in A.
  destruct (gather pop idx) as [ss|] eqn:Eg; [|contradiction].
  destruct (map_res (cat_one d) ss) as [fr'| |] eqn:Em; try contradiction. simpl in A. subst fr'.
  destruct (map_res_ok_inv _ (cat_one_not_oof d) _ _ Em) as [-> Hall].
  split; [|eauto]. now rewrite pointwise_fst, (gather_fst pop idx ss Eg).
Qed.

(* ================================================================================================================ *)
(* N. the `year` parameter                                                                                          *)
(* ================================================================================================================ *)
(* year + yday/365.25 lies in the current calendar year for day-of-year 1..365 ... *)
Theorem year_value_current D y yday : 0 < D -> 1 <= yday <= 365 ->
  D * 1461 * y <= year_value D y yday < D * 1461 * (y + 1).
Proof. intros HD Hy. unfold year_value. nia. Qed.

(* ... and in the NEXT one on Dec 31 of a leap year (366/365.25 > 1): finding F-N *)
Theorem year_value_leap_dec31 D y : 0 < D -> D * 1461 * (y + 1) <= year_value D y 366.
Proof. intros HD. unfold year_value. nia. Qed.

Lemma set_nth_other p v : forall l q, q <> p -> nth q (set_nth p v l) 0 = nth q l 0.
Proof.
  induction p as [|p IH]; intros [|x l] [|q] H; simpl; try reflexivity; try congruence.
  apply IH. congruence.
Qed.

(* the table overwrites exactly the `year` slot of every simulant, with the same value *)
Theorem with_year_param p yv s : (p < length (sparams s))%nat ->
  param p (with_year (Some p) yv s) = yv /\ skeys (with_year (Some p) yv s) = skeys s /\
  forall q, q <> p -> param q (with_year (Some p) yv s) = param q s.
Proof.
  intros H. unfold param, with_year. simpl. split; [now apply set_nth_same|]. split; [reflexivity|].
  intros q Hq. now apply set_nth_other.
Qed.

(* the `year` slot is always a number: whatever the simulant's attribute there, the table's value replaces it *)
Lemma with_year_not_nan p yv s : isnan p (with_year (Some p) yv s) = false.
Proof.
  unfold isnan, with_year. simpl. destruct (zmem (Z.of_nat p) _) eqn:E; [|reflexivity].
  apply zmem_In in E. apply filter_In in E as [_ E]. rewrite Z.eqb_refl in E. discriminate.
Qed.
