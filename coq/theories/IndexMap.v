(* Model of vivarium/framework/randomness/index_map.py : IndexMap  (DESIGN.md C03, C04).

   index_map.py anchors (line numbers of /repo/src at commit b091dd41, docstrings stripped; 11362e66 adds 3 lines to
   _convert_to_ten_digit_int):
     _convert_to_ten_digit_int 194-230, _clip_to_seconds 239-241, _spread 243-245, _shift 247-250 -> [conv10]
     _digit 233-236                                                                               -> [digit]
     _hash 158-192 (wrapping int64 product of prime powers, + salt per column, floor-mod size)     -> [hash_raw], [hash]
     _resolve_collisions 128-156 (drop_duplicates keep-first, Index.difference, salt 1,2,...)       -> [dedup], [difference], [resolve]
     _build_final_mapping 98-126                                                                    -> [build]
     _parse_new_keys 69-96, update 38-67 (uniqueness check, re-attachment by key, sort by simulant) -> [update]
     __getitem__ 252-259                                                                            -> [getitem]

   A key-column value is a [cell]:
     KDate ns     datetime64 value: the INSTANT in nanoseconds since the epoch, whatever unit (s/ms/us/ns) the column
                  stores - since commit 11362e66 (finding F-AJ) the code converts the column to ns before it clips to
                  seconds; before, it divided the raw int64 of the column's own unit by 10^9, so the same instant
                  hashed differently per storage unit.  Unit irrelevance is therefore BY CONSTRUCTION of this
                  encoding; the correspondence stores the same instants in mixed units on purpose.
     KInt v       an integer key value: its MATHEMATICAL value, whatever the storage type (int8..int64, uint8..uint64,
                  nullable Int8..UInt64): the code widens with column.astype(int) before it multiplies, so narrow columns
                  do not wrap early; a uint64 value above 2^63 is reinterpreted as int64, which changes nothing because
                  only v mod 2^64 enters the hash (IndexMapProofs.conv10_int_mod64).  Width irrelevance is thus by
                  construction of this encoding; the correspondence stores the same values in mixed widths on purpose.
     KFloat n k   a float key value (float64, or a float32 / nullable Float32, Float64 widened exactly): the double n / 2^k  (n, k as given by float.as_integer_ratio: lowest terms, k >= 0), finite
     KBad         any other dtype (str, bool, ...): _convert_to_ten_digit_int raises RandomnessError
   The salt is a cell as well: the clock time (Timestamp -> KDate, SimpleClock int -> KInt) for the first hash, the
   integers 1,2,... in the collision loop.
   All int64 arithmetic wraps ([wrap64]); float arithmetic of _shift is modelled exactly (round-to-nearest-even to 53
   significant bits, [round53]).                                                                                  *)
From Viv Require Import Common.
From Coq Require Import Permutation.
Local Open Scope Z_scope.

(* ------------------------------------------------------------------------------------------------------------ *)
(* int64 and binary64 arithmetic                                                                                 *)
(* ------------------------------------------------------------------------------------------------------------ *)
Definition two63 : Z := 9223372036854775808.
Definition two64 : Z := 18446744073709551616.
(* two's-complement wrap-around: ((x + 2^63) mod 2^64) - 2^63, computed with a bit mask (IndexMapProofs.wrap64_mod) *)
Definition mask64 : Z := 18446744073709551615.                            (* Z.ones 64 *)
Definition wrap64 (x : Z) : Z := Z.land (x + two63) mask64 - two63.
Definition TEN : Z := 10000000000.                                       (* IndexMap.TEN_DIGIT_MODULUS *)

(* round-to-nearest, ties-to-even, to 53 significant bits of the non-negative integer [num] (the caller keeps the
   binary point: num / 2^k rounds to round53 num / 2^k).  Exact for normal doubles; results below 2^-1022 do not
   occur before the final floor except as values < 1, whose floor is 0 under any precision. *)
Definition round53 (num : Z) : Z :=
  if num <=? 0 then num else
  let b := Z.log2 num + 1 in
  if b <=? 53 then num else
  let s := b - 53 in
  let q := num / 2 ^ s in
  let r := num mod 2 ^ s in
  let half := 2 ^ (s - 1) in
  let q' := if (half <? r) || ((r =? half) && Z.odd q) then q + 1 else q in
  q' * 2 ^ s.

Inductive cell : Set := KDate (raw : Z) | KInt (v : Z) | KFloat (num k : Z) | KBad.
Definition key := list cell.

Definition cell_eqb (a b : cell) : bool :=
  match a, b with
  | KDate x, KDate y => x =? y
  | KInt x, KInt y => x =? y
  | KFloat n k, KFloat n' k' => (n =? n') && (k =? k')
  | KBad, KBad => true
  | _, _ => false
  end.
Definition key_eqb : key -> key -> bool := list_eqb cell_eqb.
Definition cell_ok (c : cell) : bool := match c with KBad => false | _ => true end.
Definition key_ok (k : key) : bool := forallb cell_ok k.

(* _shift: (m % 1 * 10^10 // 1).astype(int64).  m % 1 is numpy's floor-mod: fmod (exact) and, for a negative
   remainder, one rounded addition of 1.0 - i.e. the correctly rounded value of the exact floor-mod; the product
   with 1e10 rounds once; // 1 is exact. *)
Definition shift_float (n k : Z) : Z :=
  let f := round53 (n mod 2 ^ k) in
  let prod := round53 (f * TEN) in
  prod / 2 ^ k.

(* _convert_to_ten_digit_int.  (The "values must be >= 0" test of the integer branch compares two lengths and can
   never fire; negative integers are hashed like any other.)  KBad -> 0 is never used: [update] rejects first. *)
Definition conv10 (c : cell) : Z :=
  match c with
  | KDate ns => ns / 1000000000                      (* .dt.as_unit("ns"), then _clip_to_seconds: m // 10^9 *)
  | KInt v => wrap64 (111111 * v) mod TEN            (* _spread, int64 product wraps, numpy % is floor-mod *)
  | KFloat n k => shift_float n k
  | KBad => 0
  end.

Definition digit (m n : Z) : Z := (m / 10 ^ n) mod 10.                 (* _digit; floor semantics as numpy *)
Definition primes : list Z := [2; 3; 5; 7; 11; 13; 17; 19; 23; 27].    (* sic: 27 *)

(* out = 1; for idx, p in enumerate(primes): out *= np.power(p, digit(column, idx))      (int64, wrapping; the small
   factor is written first because binary multiplication iterates over its first argument).
   [m] is the column value floor-divided by 10^idx so far: (m / 10^idx) mod 10 = ((.. (m / 10) ..) / 10) mod 10
   (IndexMapProofs.col_prod_digits). *)
Fixpoint col_prod (m : Z) (ps : list Z) (out : Z) : Z :=
  match ps with
  | [] => out
  | p :: r => let (q, d) := Z.div_eucl m 10 in col_prod q r (wrap64 (wrap64 (p ^ d) * out))
  end.
(* the same, literally as written in _hash / _digit *)
Fixpoint col_prod_spec (c10 : Z) (idx : Z) (ps : list Z) (out : Z) : Z :=
  match ps with
  | [] => out
  | p :: r => col_prod_spec c10 (idx + 1) r (wrap64 (wrap64 (p ^ digit c10 idx) * out))
  end.

(* new_map = 0; for each key column: new_map += out + salt_series *)
Definition hash_raw (k : key) (s10 : Z) : Z :=
  fold_left (fun acc c => wrap64 (acc + wrap64 (col_prod (conv10 c) primes 1 + s10))) k 0.

(* return new_map % len(self)   - numpy floor-mod: the result has the sign of the (positive) size *)
Definition hash (size : Z) (k : key) (s10 : Z) : Z := hash_raw k s10 mod size.

(* the same with a C-style remainder: what `np.fmod` would give.  Only used to show that the range theorem is about
   the floor-mod (props/C03.v). *)
Definition hash_crem (size : Z) (k : key) (s10 : Z) : Z := Z.rem (hash_raw k s10) size.

(* ------------------------------------------------------------------------------------------------------------ *)
(* the key-indexed mapping and collision resolution                                                              *)
(* ------------------------------------------------------------------------------------------------------------ *)
Definition kp := (key * Z)%type.                     (* one row of a key-indexed Series: key -> position *)

(* Series.drop_duplicates(): rows whose VALUE was seen earlier are dropped, the first occurrence stays *)
Fixpoint dedup (seen : list Z) (l : list kp) : list kp :=
  match l with
  | [] => []
  | (k, p) :: r => if zmem p seen then dedup seen r else (k, p) :: dedup (p :: seen) r
  end.

Definition key_mem (k : key) (l : list key) : bool := existsb (key_eqb k) l.

(* lexicographic order of key tuples (Index.difference sorts its result) *)
Definition cell_cmp (a b : cell) : comparison :=
  match a, b with
  | KDate x, KDate y => x ?= y
  | KInt x, KInt y => x ?= y
  | KFloat n k, KFloat n' k' => (n * 2 ^ k') ?= (n' * 2 ^ k)
  | KDate _, _ => Lt | _, KDate _ => Gt
  | KInt _, _ => Lt | _, KInt _ => Gt
  | KFloat _ _, _ => Lt | _, KFloat _ _ => Gt
  | KBad, KBad => Eq
  end.
Fixpoint key_cmp (a b : key) : comparison :=
  match a, b with
  | [], [] => Eq
  | [], _ => Lt
  | _, [] => Gt
  | x :: r, y :: s => match cell_cmp x y with Eq => key_cmp r s | c => c end
  end.
Definition key_leb (a b : key) : bool := match key_cmp a b with Gt => false | _ => true end.
Fixpoint insert_key (k : key) (l : list key) : list key :=
  match l with
  | [] => [k]
  | x :: r => if key_leb k x then k :: l else x :: insert_key k r
  end.
Definition sort_keys (l : list key) : list key := fold_right insert_key [] l.

(* ks.difference(cur.index) *)
Definition difference (ks : list key) (cur : list kp) : list key :=
  sort_keys (filter (fun k => negb (key_mem k (map fst cur))) ks).

Definition hash_keys (h : key -> Z) (ks : list key) : list kp := map (fun k => (k, h k)) ks.

(* the while loop of _resolve_collisions.  [hs salt k] is the position of k under integer salt [salt].
   One unit of fuel per iteration; None = more than [fuel] iterations are needed.  The real loop need not terminate
   (more keys than reachable positions, or a salt walk that cannot leave a residue class: DESIGN section 7, F-J). *)
Fixpoint resolve (hs : Z -> key -> Z) (fuel : nat) (salt : Z) (coll : list key) (cur : list kp) : option (list kp) :=
  match coll with
  | [] => Some cur
  | _ =>
    match fuel with
    | O => None
    | S f =>
      let upd := hash_keys (hs salt) coll in
      let cur' := dedup [] (cur ++ upd) in
      resolve hs f (salt + 1) (difference (map fst upd) cur') cur'
    end
  end.

(* _build_final_mapping + the head of _resolve_collisions.  [hb] = the new keys with their hash under the clock
   salt (mapping_update, in batch order). *)
Definition build (hs : Z -> key -> Z) (fuel : nat) (old : list kp) (hb : list kp) : option (list kp) :=
  let cur := dedup [] (old ++ hb) in
  resolve hs fuel 1 (difference (map fst hb) cur) cur.

(* ------------------------------------------------------------------------------------------------------------ *)
(* IndexMap.update                                                                                               *)
(* ------------------------------------------------------------------------------------------------------------ *)
Definition entry := (Z * key * Z)%type.               (* simulant label, key, position: one row of IndexMap._map *)
Definition e_sim (e : entry) : Z := fst (fst e).
Definition e_key (e : entry) : key := snd (fst e).
Definition e_pos (e : entry) : Z := snd e.
Definition imap := list entry.
Definition batch := list (Z * key).                   (* new_keys: index label, key columns *)

Definition sk_of (m : imap) : list (Z * key) := map fst m.
Definition kp_of (m : imap) : list kp := map (fun e => (e_key e, e_pos e)) m.
Definition poss (m : imap) : list Z := map e_pos m.
Definition keys_of (m : imap) : list key := map e_key m.

Fixpoint nodup_keys (l : list key) : bool :=
  match l with [] => true | k :: r => negb (key_mem k r) && nodup_keys r end.

(* final_mapping.reindex(final_keys); final_mapping.index = final_mapping_index (lines 64-65 since commit b091dd41):
   every key is attached, BY LABEL, to the simulant that supplied it (keys are unique at this point, the first match is
   the match).  Before that commit the code used Index.join, which for a ONE-level key index returned the rows in
   simulant order while the values stayed in mapping order: positions were handed to the wrong keys whenever a
   colliding key was re-hashed (finding F-U, found by this correspondence; corpus cases in harness/props/c03.py, c04.py). *)
Definition find_sim (k : key) (idx : list (Z * key)) : option Z :=
  match find (fun sk => key_eqb (snd sk) k) idx with Some (s, _) => Some s | None => None end.
Definition join (fm : list kp) (idx : list (Z * key)) : imap :=
  flat_map (fun e => match find_sim (fst e) idx with Some s => [(s, fst e, snd e)] | None => [] end) fm.

(* sort_index(level="simulant_index") - stable *)
Fixpoint insert_entry (e : entry) (l : imap) : imap :=
  match l with
  | [] => [e]
  | x :: r => if e_sim e <=? e_sim x then e :: l else x :: insert_entry e r
  end.
Definition sort_by_sim (m : imap) : imap := fold_right insert_entry [] m.

Definition h_clock (size : Z) (t : cell) : key -> Z := fun k => hash size k (conv10 t).
Definition h_salt (size : Z) : Z -> key -> Z := fun s k => hash size k (conv10 (KInt s)).

Definition is_nil {A} (l : list A) : bool := match l with [] => true | _ => false end.

Definition batch_hashes (size : Z) (t : cell) (b : batch) : list kp := hash_keys (h_clock size t) (map snd b).

(* [hb] = batch_hashes size t b, passed in so that the correspondence computes it once per batch *)
Definition update_h (size : Z) (crn : bool) (m : imap) (b : batch) (t : cell) (fuel : nat) (hb : list kp) : result imap :=
  if is_nil b || negb crn then Ok m else                                  (* 50-51 *)
  let fidx := sk_of m ++ b in                                             (* _parse_new_keys *)
  if negb (nodup_keys (map snd fidx)) then Rejected ERandomness else      (* 55-57 *)
  if negb (forallb key_ok (map snd b) && cell_ok t) then Rejected ERandomness else   (* 226 (inside _hash) *)
  match build (h_salt size) fuel (kp_of m) hb with
  | None => OutOfFuel
  | Some fm => Ok (sort_by_sim (join fm fidx))                            (* 64-67 *)
  end.

Definition update (size : Z) (crn : bool) (m : imap) (b : batch) (t : cell) (fuel : nat) : result imap :=
  update_h size crn m b t fuel (batch_hashes size t b).

(* a registration history: batches at clock times.  A rejected batch leaves the map as it was (the exception leaves
   update before self._map is assigned) and the simulation may go on; None = a collision loop did not finish. *)
Fixpoint run (size : Z) (fuel : nat) (m : imap) (h : list (batch * cell)) : option imap :=
  match h with
  | [] => Some m
  | (b, t) :: r =>
    match update size true m b t fuel with
    | Ok m' => run size fuel m' r
    | Rejected _ => run size fuel m r
    | OutOfFuel => None
    end
  end.

(* IndexMap.__getitem__ for one label: _map.loc[[s]] *)
Fixpoint pos_of_sim (m : imap) (s : Z) : option Z :=
  match m with [] => None | e :: r => if e_sim e =? s then Some (e_pos e) else pos_of_sim r s end.
Fixpoint pos_of_key (m : imap) (k : key) : option Z :=
  match m with [] => None | e :: r => if key_eqb (e_key e) k then Some (e_pos e) else pos_of_key r k end.
Definition getitem (crn : bool) (m : imap) (s : Z) : option Z := if crn then pos_of_sim m s else Some s.

(* the exception the property permits (C04): the initial hash of the key meets a position already taken or the
   initial hash of a batch-mate.  [hb] = the initial hashes of the batch (computed once per batch), [occ] = the
   positions taken before the batch. *)
Fixpoint kp_assoc (k : key) (l : list kp) : option Z :=
  match l with [] => None | (k', p) :: r => if key_eqb k' k then Some p else kp_assoc k r end.
Definition clean_in (occ : list Z) (hb : list kp) (k : key) : bool :=
  match kp_assoc k hb with
  | Some p => negb (zmem p occ) && forallb (fun e : kp => key_eqb (fst e) k || negb (snd e =? p)) hb
  | None => false
  end.
Definition clean (size : Z) (m : imap) (b : batch) (t : cell) (k : key) : bool :=
  clean_in (poss m) (batch_hashes size t b) k.

(* ------------------------------------------------------------------------------------------------------------ *)
(* correspondence: one real IndexMap driven through a history                                                    *)
(* ------------------------------------------------------------------------------------------------------------ *)
(* a step = (batch, clock, outcome code, obs): code 0 accepted | 1 RandomnessError | 2 other exception |
   3 aborted by the harness after fuel+1 collision rounds | 4 aborted by the harness' watchdog; obs = [(simulant, IndexMap[simulant])] for every simulant
   registered so far (CRN off: for the labels of the batch) *)
Definition step := (batch * cell * Z * list (Z * Z))%type.

Fixpoint zlookup (s : Z) (l : list (Z * Z)) : option Z :=
  match l with [] => None | (a, v) :: r => if a =? s then Some v else zlookup s r end.

(* the observed map: the simulant/key pairs of [m] with the observed positions; None if a simulant is missing or
   the observation has extra rows *)
Fixpoint attach (sks : list (Z * key)) (obs : list (Z * Z)) : option imap :=
  match sks with
  | [] => Some []
  | (s, k) :: r =>
    match zlookup s obs, attach r obs with
    | Some q, Some om => Some ((s, k, q) :: om)
    | _, _ => None
    end
  end.

Fixpoint nodupz (l : list Z) : bool :=
  match l with [] => true | x :: r => negb (zmem x r) && nodupz r end.

Definition entry_eqb (a b : entry) : bool :=
  (e_sim a =? e_sim b) && key_eqb (e_key a) (e_key b) && (e_pos a =? e_pos b).
Definition is_old (prev : imap) (e : entry) : bool := existsb (fun o => (e_sim o =? e_sim e) && key_eqb (e_key o) (e_key e)) prev.

(* what the property fixes about the new observed map [om], given the model's [m'] computed from the observed
   [prev]: old rows unchanged; a clean new key sits exactly at its hash; a colliding new key is somewhere in range;
   all positions distinct.  [exact] = compare colliding keys exactly too (statistics only).
   [hb] = batch_hashes size t b. *)
Definition rows_agree (exact : bool) (size : Z) (prev : imap) (hb : list kp) (m' om : imap) : bool :=
  let occ := poss prev in
  (length m' =? length om)%nat &&
  forallb (fun pq : entry * entry =>
             let (e, o) := pq in
             (e_sim e =? e_sim o) && key_eqb (e_key e) (e_key o) &&
             (if exact then e_pos o =? e_pos e
              else if is_old prev e then e_pos o =? e_pos e
              else if clean_in occ hb (e_key e) then e_pos o =? e_pos e
              else (0 <=? e_pos o) && (e_pos o <? size)))
          (combine m' om) &&
  nodupz (poss om).

Definition same_obs (prev : imap) (obs : list (Z * Z)) : bool :=
  match attach (sk_of prev) obs with
  | Some om => list_eqb entry_eqb prev om && (length obs =? length prev)%nat
  | None => false
  end.

(* registry entry of an accepted key: (key, clock, clean relative to the OBSERVED previous map?) *)
Definition reg := (key * cell * bool)%type.

(* Some (next observed map, registry entries of this step) = agreement on this step *)
Definition check_step (exact : bool) (size : Z) (crn : bool) (fuel : nat) (prev : imap) (st : step)
  : option (imap * list reg) :=
  let '(b, t, code, obs) := st in
  if negb crn then
    (* CRN off: update does nothing, IndexMap[idx] = idx *)
    if (code =? 0) && list_eqb Z.eqb (map fst b) (map fst obs) && forallb (fun sp : Z * Z => fst sp =? snd sp) obs
    then Some (prev, []) else None
  else
  let hb := batch_hashes size t b in
  if (code =? 3) || (code =? 4) then
    (* the harness cut the real collision loop: after fuel+1 rounds (3) or by its wall-clock watchdog (4).  The number
       of rounds is not part of the property and may shift by a harmless change (first salt, tie order), so only a
       gross difference counts: the model must itself need more than fuel/2 (resp. 12) rounds. *)
    match update_h size crn prev b t (if code =? 3 then Nat.div2 fuel else 12%nat) hb with
    | OutOfFuel => if same_obs prev obs then Some (prev, []) else None
    | _ => None
    end
  else
  (* the real loop finished within fuel+1 rounds: the model is given twice that *)
  match update_h size crn prev b t (2 * fuel + 2) hb with
  | Ok m' =>
    if negb (code =? 0) then None else
    match attach (sk_of m') obs with
    | Some om =>
      if rows_agree exact size prev hb m' om && (length obs =? length m')%nat
      then Some (om, let occ := poss prev in map (fun e : kp => (fst e, t, clean_in occ hb (fst e))) hb)
      else None
    | None => None
    end
  | Rejected ERandomness => if (code =? 1) && same_obs prev obs then Some (prev, []) else None
  | Rejected _ => if (code =? 2) && same_obs prev obs then Some (prev, []) else None
  | OutOfFuel => None
  end.

Fixpoint check_steps (exact : bool) (size : Z) (crn : bool) (fuel : nat) (prev : imap) (sts : list step)
  : option (imap * list reg) :=
  match sts with
  | [] => Some (prev, [])
  | st :: r =>
    match check_step exact size crn fuel prev st with
    | Some (nx, rg) =>
      match check_steps exact size crn fuel nx r with Some (fin, rest) => Some (fin, rg ++ rest) | None => None end
    | None => None
    end
  end.

Definition c03_case := (Z * bool * nat * list step)%type.       (* size, crn, fuel, history *)
Definition check_c03 (c : c03_case) : bool :=
  let '(size, crn, fuel, sts) := c in
  match check_steps false size crn fuel [] sts with Some _ => true | None => false end.
Definition check_c03_exact (c : c03_case) : bool :=
  let '(size, crn, fuel, sts) := c in
  match check_steps true size crn fuel [] sts with Some _ => true | None => false end.

(* statistics over a batch of cases (evaluated by the harness after the run, never decides anything):
   (cases with >= 1 colliding new key, colliding new keys, new keys, cases that also agree exactly) *)
Definition c03_stats (cs : list c03_case) : Z * Z * Z * Z :=
  fold_left (fun (acc : Z * Z * Z * Z) (c : c03_case) =>
    let '(a1, a2, a3, a4) := acc in
    let '(size, crn, fuel, sts) := c in
    let add := fun (ex : bool) (rg : list reg) =>
      let cc := Z.of_nat (length (filter (fun r : reg => negb (snd r)) rg)) in
      ((if 0 <? cc then a1 + 1 else a1), a2 + cc, a3 + Z.of_nat (length rg), (if ex then a4 + 1 else a4)) in
    match check_steps true size crn fuel [] sts with
    | Some (_, rg) => add true rg
    | None => match check_steps false size crn fuel [] sts with Some (_, rg) => add false rg | None => acc end
    end) cs (0, 0, 0, 0).

(* the three ten-digit conversions, compared separately: (value, observed ten-digit integer) *)
Definition check_conv (c : cell * Z) : bool := conv10 (fst c) =? snd c.
(* the raw hash: (size, key, salt cell, observed IndexMap._hash value) *)
Definition check_hash (c : Z * key * cell * Z) : bool :=
  let '(size, k, t, v) := c in hash size k (conv10 t) =? v.

(* ------------------------------------------------------------------------------------------------------------ *)
(* correspondence for C04: two real IndexMaps (two simulations) over related histories                           *)
(* ------------------------------------------------------------------------------------------------------------ *)
Fixpoint find_reg (k : key) (l : list reg) : option (cell * bool) :=
  match l with
  | [] => None
  | (k', t, c) :: r => if key_eqb k' k then Some (t, c) else find_reg k r
  end.

(* (key, both simulations gave this key the same draws at every decision point and step?) *)
Definition traj := (key * bool)%type.
Definition c04_case := (Z * nat * list step * list step * list traj)%type.

(* every key registered in both simulations at the same clock time that collides with nothing in either of them
   has one position in both (and, whole-simulation cases, the same draws throughout) *)
Definition aligned (ra rb : list reg) (ma mb : imap) (tr : list traj) : bool :=
  forallb (fun r : reg =>
     let '(k, t, c) := r in
     match find_reg k rb with
     | Some (t', c') =>
       if c && c' && cell_eqb t t' then
         option_eqb Z.eqb (pos_of_key ma k) (pos_of_key mb k) &&
         match pos_of_key ma k with Some _ => true | None => false end &&
         forallb (fun x : traj => negb (key_eqb (fst x) k) || snd x) tr
       else true
     | None => true
     end) ra.

Definition check_c04 (c : c04_case) : bool :=
  let '(size, fuel, sa, sb, tr) := c in
  match check_steps false size true fuel [] sa, check_steps false size true fuel [] sb with
  | Some (ma, ra), Some (mb, rb) => aligned ra rb ma mb tr
  | _, _ => false
  end.

(* (shared keys, shared keys that are clean in both at the same time, trajectories compared) - statistics *)
Definition c04_stats (cs : list c04_case) : Z * Z * Z :=
  fold_left (fun (acc : Z * Z * Z) (c : c04_case) =>
    let '(size, fuel, sa, sb, tr) := c in
    match check_steps false size true fuel [] sa, check_steps false size true fuel [] sb with
    | Some (ma, ra), Some (mb, rb) =>
      fold_left (fun (acc2 : Z * Z * Z) (r : reg) =>
         let '(x1, x2, x3) := acc2 in
         let '(k, t, c0) := r in
         match find_reg k rb with
         | Some (t', c') =>
           if c0 && c' && cell_eqb t t'
           then (x1 + 1, x2 + 1, x3 + Z.of_nat (length (filter (fun x : traj => key_eqb (fst x) k) tr)))
           else (x1 + 1, x2, x3)
         | None => (x1, x2, x3)
         end) ra acc
    | _, _ => acc
    end) cs (0, 0, 0).

(* ------------------------------------------------------------------------------------------------------------ *)
(* IndexMap.__getitem__ for a whole request (252-259): _map.loc[index].to_numpy()                                 *)
(* ------------------------------------------------------------------------------------------------------------ *)
(* CRN off: the labels themselves.  CRN on: RandomnessError while nothing is registered (_map is None, even for an
   empty request); KeyError (EOther) if a requested label is unknown; otherwise the positions IN REQUEST ORDER, a
   repeated label repeating its position. *)
Definition getitem_all (crn : bool) (m : imap) (idx : list Z) : result (list Z) :=
  if negb crn then Ok idx else
  match m with
  | [] => Rejected ERandomness
  | _ =>
    if forallb (fun s => match pos_of_sim m s with Some _ => true | None => false end) idx
    then Ok (map (fun s => match pos_of_sim m s with Some p => p | None => 0 end) idx)
    else Rejected EOther
  end.

(* a query observed on the real map: (requested labels, outcome code 0 ok | 1 RandomnessError | 2 other, result) *)
Definition query := (list Z * Z * list Z)%type.
Definition check_query (crn : bool) (m : imap) (q : query) : bool :=
  let '(idx, code, res) := q in
  match getitem_all crn m idx with
  | Ok ps => (code =? 0) && list_eqb Z.eqb ps res
  | Rejected ERandomness => code =? 1
  | Rejected _ => code =? 2
  | OutOfFuel => false
  end.

(* history with queries after every step, answered from the OBSERVED map *)
Fixpoint check_qsteps (size : Z) (crn : bool) (fuel : nat) (prev : imap) (l : list (step * list query)) : bool :=
  match l with
  | [] => true
  | (st, qs) :: r =>
    match check_step false size crn fuel prev st with
    | Some (nx, _) => forallb (check_query crn nx) qs && check_qsteps size crn fuel nx r
    | None => false
    end
  end.
Definition cq_case := (Z * bool * nat * list query * list (step * list query))%type.   (* queries before any update *)
Definition check_cq (c : cq_case) : bool :=
  let '(size, crn, fuel, q0, l) := c in forallb (check_query crn []) q0 && check_qsteps size crn fuel [] l.

(* ------------------------------------------------------------------------------------------------------------ *)
(* RandomnessManager (manager.py): block size (setup 47-50) and register_simulants (157-176)                      *)
(* ------------------------------------------------------------------------------------------------------------ *)
(* map_size = max(configuration.randomness.map_size, 10 * population_size) *)
Definition manager_size (cfg_size pop : Z) : Z := Z.max cfg_size (10 * pop).

(* a simulants frame: column label -> column (one cell per row), in frame order; labels = its index *)
Definition frame := list (Z * list cell).

(* simulants.loc[:, key_columns]: the key columns by LABEL, in the order of the configuration *)
Fixpoint select_cols (kcols : list Z) (f : frame) : option (list (list cell)) :=
  match kcols with
  | [] => Some []
  | c :: r => match zassoc c f, select_cols r f with Some col, Some cols => Some (col :: cols) | _, _ => None end
  end.
Definition row_at (i : nat) (cols : list (list cell)) : key := map (fun col => nth i col KBad) cols.
Definition batch_of (labels : list Z) (cols : list (list cell)) : batch :=
  map (fun il : nat * Z => (snd il, row_at (fst il) cols)) (combine (seq 0 (length labels)) labels).

(* register_simulants: a key column missing from the frame -> RandomnessError before anything else; else
   IndexMap.update on the selected columns at the current clock.  IndexMap._use_crn = bool(key_columns). *)
Definition register (size : Z) (kcols : list Z) (m : imap) (labels : list Z) (f : frame) (t : cell) (fuel : nat) : result imap :=
  match select_cols kcols f with
  | None => Rejected ERandomness
  | Some cols => update size (negb (is_nil kcols)) m (batch_of labels cols) t fuel
  end.

(* correspondence: a real RandomnessManager inside a real simulation.
   (configured map_size, population_size, key columns, observed len(index_map), registrations) with a registration =
   (labels, frame, clock, outcome code, obs) as in [step] *)
Definition mreg := (list Z * frame * cell * Z * list (Z * Z))%type.
Definition mgr_case := (Z * Z * list Z * Z * nat * list mreg)%type.

Fixpoint check_mregs (size : Z) (kcols : list Z) (fuel : nat) (prev : imap) (l : list mreg) : bool :=
  match l with
  | [] => true
  | (labels, f, t, code, obs) :: r =>
    match select_cols kcols f with
    | None => (code =? 1) && same_obs prev obs && check_mregs size kcols fuel prev r
    | Some cols =>
      match check_step false size (negb (is_nil kcols)) fuel prev (batch_of labels cols, t, code, obs) with
      | Some (nx, _) => check_mregs size kcols fuel nx r
      | None => false
      end
    end
  end.
Definition check_mgr (c : mgr_case) : bool :=
  let '(cfg, pop, kcols, size_obs, fuel, l) := c in
  (size_obs =? manager_size cfg pop) && check_mregs size_obs kcols fuel [] l.
