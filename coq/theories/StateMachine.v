(* Model of vivarium/framework/state_machine.py (DESIGN.md C17) as it is after fix commit 192fe8c2 (finding F-E:
   triggered transitions used the removed Series.append and returned probabilities in active-first order; repaired:
   pd.concat(...).loc[index], request order).

   anchors (line numbers as printed by tools/strip.py):
     Transition.set_active / set_inactive 148-162      -> [apply_ops]
     Transition.probability 164-175                    -> [eff]      (0 outside the active set of a triggered transition)
     TransitionSet.choose_new_state 341-363            -> [row], [decide], [decisions]
     TransitionSet._normalize_probabilities 381-433    -> [weights]
     randomness/stream.py _choice 367-417              -> [choice]   (own copy: Decide.v belongs to C05 and is not imported)
     _groupby_new_state 65-89, _next_state 25-62       -> [groups], [run_groups], [next_state]
     State.transition_effect 235-250                   -> [write]    (one-column update of the state column)
     Machine._get_state_pops 512-517, transition 489-505 -> [transition] (the view is read ONCE; tracked simulants only)

   Exact arithmetic (DESIGN.md section 4): a probability is a numerator over the machine's common denominator [m_den];
   a draw is a numerator [a] over [b] (= 2^53 for numpy doubles), 0 <= a < b; `draw > cum_j / W` is `a * W > cum_j * b`.
   In exact arithmetic the two normalisation stages of the code cancel: the weights handed to `_choice` are
   proportional to the numerators themselves, followed - if self transitions are allowed - by the null weight
   max(0, D - T) (or 0 when a sole probability-1 "default" transition renormalised the row).

   Inputs of the model that are library/user behaviour: per-simulant probability tables, active sets, the draws of each
   transition set's stream (read by the harness from the real stream at the same clock time), and the rank of
   str(output) that `sorted(groups, key=lambda x: str(x[0]))` uses to order the groups.                             *)
From Viv Require Import Common.
Local Open Scope Z_scope.

Definition sid := Z.
Definition label := Z.

Fixpoint sumL (l : list Z) : Z := match l with [] => 0 | x :: r => x + sumL r end.
Definition is_nil {A : Type} (l : list A) : bool := match l with [] => true | _ => false end.

(* ================================================================================================================
   inverse-CDF choice (randomness/stream.py _choice): p_bins = cumsum(p / sum p); index = #{j : draw > p_bins[j]}
   ================================================================================================================ *)
Fixpoint count_below (a b W : Z) (acc : Z) (ws : list Z) : nat :=
  match ws with
  | [] => O
  | w :: r => let c := acc + w in ((if a * W >? c * b then 1 else 0) + count_below a b W c r)%nat
  end.
Definition choice (a b : Z) (ws : list Z) : nat := count_below a b (sumL ws) 0 ws.

(* ================================================================================================================
   machines
   ================================================================================================================ *)
Record trans := { t_target : sid;
                  t_prob : label -> Z;                 (* the user's probability function: numerator over m_den *)
                  t_trigger : option (list label) }.   (* None = Trigger.NOT_TRIGGERED; Some act = the active index *)

Record state := { s_id : sid;
                  s_null : bool;        (* allow_self_transition / allow_null_transition *)
                  s_transient : bool;   (* isinstance(state, Transient) *)
                  s_rank : Z;           (* rank of str(state) among the strings sorted() compares *)
                  s_trans : list trans }.

Record machine := { m_den : Z; m_null_rank : Z (* rank of the string "null_transition" *); m_states : list state }.

(* set_active: union; set_inactive: difference.  START_ACTIVE and START_INACTIVE both start from an EMPTY index
   (_process_trigger 98-106: the `start_active` flag is not used by the framework itself). *)
Definition apply_op (act : list label) (op : bool * list label) : list label :=
  if fst op then act ++ snd op else filter (fun l => negb (zmem l (snd op))) act.
Definition apply_ops (ops : list (bool * list label)) : list label := fold_left apply_op ops [].

Definition eff (t : trans) (i : label) : Z :=
  match t_trigger t with
  | None => t_prob t i
  | Some act => if zmem i act then t_prob t i else 0
  end.
Definition row (s : state) (i : label) : list Z := map (fun t => eff t i) (s_trans s).

(* the float constant 1 + 1e-08, exactly *)
Definition tol_num : Z := 1125899918101623.
Definition tol_den : Z := 1125899906842624.

Definition count_ones (D : Z) (r : list Z) : nat := length (filter (Z.eqb D) r).

(* _normalize_probabilities on one row; every refusal is a ValueError (EOther).  Result: the weights given to
   stream.choice (transitions in declaration order, then the null transition when allowed). *)
Definition weights (D : Z) (null : bool) (r : list Z) : result (list Z) :=
  let c := count_ones D r in
  if (1 <? c)%nat then Rejected EOther                                 (* "Multiple transitions specified with probability 1." *)
  else let T := sumL r in
  if null then
    if (c =? 1)%nat then Ok (r ++ [0])                                 (* row / total: total becomes 1, null weight 1 - 1 *)
    else if tol_den * T >? tol_num * D then Rejected EOther            (* total > 1 + 1e-08 *)
    else Ok (r ++ [Z.max 0 (D - T)])                                   (* total[total > 1] = 1; null weight 1 - total *)
  else
    if (c =? 1)%nat then Ok r
    else if T =? 0 then Rejected EOther                                (* "No valid transitions for some simulants." *)
    else Ok r.

Inductive output := ONull | OState (t : sid).
Definition outputs (s : state) : list output :=
  map (fun t => OState (t_target t)) (s_trans s) ++ (if s_null s then [ONull] else []).

(* one simulant's decision: index into [outputs s] *)
Definition decide (D b : Z) (draw : sid -> label -> Z) (s : state) (i : label) : result nat :=
  match weights D (s_null s) (row s i) with
  | Ok ws => Ok (choice (draw (s_id s) i) b ws)
  | Rejected e => Rejected e
  | OutOfFuel => OutOfFuel
  end.

(* choose_new_state on a group: all rows are normalised before anybody is decided - one bad row refuses the group *)
Fixpoint decisions (D b : Z) (draw : sid -> label -> Z) (s : state) (idx : list label) : result (list (label * nat)) :=
  match idx with
  | [] => Ok []
  | i :: r => match decide D b draw s i with
              | Ok k => match decisions D b draw s r with
                        | Ok ds => Ok ((i, k) :: ds)
                        | Rejected e => Rejected e
                        | OutOfFuel => OutOfFuel
                        end
              | Rejected e => Rejected e
              | OutOfFuel => OutOfFuel
              end
  end.

Fixpoint find_state (t : sid) (l : list state) : option state :=
  match l with [] => None | s :: r => if s_id s =? t then Some s else find_state t r end.

Definition column := label -> sid.
Definition write (col : column) (aff : list label) (t : sid) : column := fun l => if zmem l aff then t else col l.

Inductive outcome := Done | Fail (e : err) | OOF.

(* _groupby_new_state: one group per output (observed=False: empty groups included), members in request order *)
Definition group_of (ds : list (label * nat)) (j : nat) : list label :=
  map fst (filter (fun d => Nat.eqb (snd d) j) ds).
Definition groups (n : nat) (ds : list (label * nat)) : list (nat * list label) :=
  map (fun j => (j, group_of ds j)) (seq 0 n).

Definition rank_of (m : machine) (o : output) : Z :=
  match o with
  | ONull => m_null_rank m
  | OState t => match find_state t (m_states m) with Some st => s_rank st | None => 0 end
  end.

Definition group_rank (m : machine) (outs : list output) (j : nat) : Z :=
  match nth_error outs j with Some o => rank_of m o | None => 0 end.

(* sorted(groups, key=str): a stable insertion sort on the harness-supplied ranks *)
Fixpoint insert_group (rk : nat -> Z) (g : nat * list label) (l : list (nat * list label)) : list (nat * list label) :=
  match l with
  | [] => [g]
  | h :: r => if rk (fst g) <? rk (fst h) then g :: h :: r else h :: insert_group rk g r
  end.
Fixpoint sort_groups (rk : nat -> Z) (l : list (nat * list label)) : list (nat * list label) :=
  match l with [] => [] | g :: r => insert_group rk g (sort_groups rk r) end.

Fixpoint znodup (l : list Z) : bool := match l with [] => true | x :: r => negb (zmem x r) && znodup r end.

(* a loop with early exit: the first step that does not end with Done ends the whole loop (an exception propagates) *)
Fixpoint run_seq {G W : Type} (f : G -> W -> W * outcome) (gs : list G) (col : W) : W * outcome :=
  match gs with
  | [] => (col, Done)
  | g :: r => match f g col with
              | (col1, Done) => run_seq f r col1
              | bad => bad
              end
  end.

(* one iteration of the loop of _next_state 50-62; [rec] = State.next_state of a transient output.  An empty group
   (observed=False yields them) is a no-op in the code: an empty update is skipped by PopulationView.update and
   _next_state returns at once on an empty index. *)
Definition do_group (rec : state -> list label -> column -> column * outcome) (m : machine) (outs : list output)
                    (g : nat * list label) (col : column) : column * outcome :=
  let '(j, aff) := g in
  if is_nil aff then (col, Done) else
  match nth_error outs j with
  | Some (OState t) =>
      let col1 := write col aff t in                                   (* transition_effect: state column := state_id *)
      match find_state t (m_states m) with
      | Some st => if s_transient st then rec st aff col1              (* Transient: transition again, immediately *)
                   else (col1, Done)
      | None => (col1, Done)
      end
  | _ => (col, Done)                                                    (* "null_transition": pass *)
  end.

(* State.next_state = _next_state(index, event_time, transition_set, view).  Fuel bounds the chain of transient
   states only; the real code recurses without bound on a cycle of transient states (finding F-K, a modelling error of
   the user).  pd.Categorical(decisions, categories=outputs) refuses duplicate outputs (ValueError). *)
Fixpoint next_state (fuel : nat) (m : machine) (b : Z) (draw : sid -> label -> Z)
                    (s : state) (idx : list label) (col : column) : column * outcome :=
  match fuel with
  | O => (col, OOF)
  | S f =>
      if is_nil (s_trans s) || is_nil idx then (col, Done)              (* len(transition_set) == 0 or index.empty *)
      else match decisions (m_den m) b draw s idx with
           | Rejected e => (col, Fail e)
           | OutOfFuel => (col, OOF)
           | Ok ds =>
               let outs := outputs s in
               if existsb (fun d => (length outs <=? snd d)%nat) ds then (col, Fail EOther)   (* IndexError in np.array(choices)[..] *)
               else if negb (znodup (map t_target (s_trans s))) then (col, Fail EOther)       (* Categorical categories must be unique *)
               else run_seq (do_group (next_state f m b draw) m outs)
                            (sort_groups (group_rank m outs) (groups (length outs) ds)) col
           end
  end.

(* Machine.transition: population = view.get(index) (tracked simulants of the request, request order) is read once;
   then every state, in declaration order, moves the simulants that WERE in it. *)
Definition affected_of (tracked : label -> bool) (col0 : column) (idx : list label) (s : state) : list label :=
  filter (fun i => tracked i && (col0 i =? s_id s)) idx.

Definition transition (fuel : nat) (m : machine) (b : Z) (draw : sid -> label -> Z) (tracked : label -> bool)
                      (col : column) (idx : list label) : column * outcome :=
  run_seq (fun s c => let aff := affected_of tracked col idx s in
                      if is_nil aff then (c, Done) else next_state fuel m b draw s aff c) (m_states m) col.

(* ================================================================================================================
   hooks.  State.transition_effect = the one-column update FOLLOWED by State.transition_side_effect(index, time)
   (state_machine.py 235-250); Machine.cleanup calls State.cleanup_effect(index, time) for the simulants that ARE in a
   state (507-510).  The same loops as above, threading a log of hook calls next to the column: an entry records the
   state whose hook ran, the group it was given (request order, repeats kept) and the state column of that group AT THE
   MOMENT the hook ran.  (The real loop also invokes the hook with an EMPTY index for every empty group; such calls
   touch nobody and are left out of the log on both sides.)
   ================================================================================================================ *)
Record entry := { e_state : sid; e_members : list label; e_seen : list sid }.
Definition world := (column * list entry)%type.

Definition do_group_w (rec : state -> list label -> world -> world * outcome) (m : machine) (outs : list output)
                      (g : nat * list label) (w : world) : world * outcome :=
  let '(j, aff) := g in
  if is_nil aff then (w, Done) else
  match nth_error outs j with
  | Some (OState t) =>
      let col1 := write (fst w) aff t in
      let w1 := (col1, snd w ++ [{| e_state := t; e_members := aff; e_seen := map col1 aff |}]) in
      match find_state t (m_states m) with
      | Some st => if s_transient st then rec st aff w1 else (w1, Done)
      | None => (w1, Done)
      end
  | _ => (w, Done)
  end.

Fixpoint next_state_w (fuel : nat) (m : machine) (b : Z) (draw : sid -> label -> Z)
                      (s : state) (idx : list label) (w : world) : world * outcome :=
  match fuel with
  | O => (w, OOF)
  | S f =>
      if is_nil (s_trans s) || is_nil idx then (w, Done)
      else match decisions (m_den m) b draw s idx with
           | Rejected e => (w, Fail e)
           | OutOfFuel => (w, OOF)
           | Ok ds =>
               let outs := outputs s in
               if existsb (fun d => (length outs <=? snd d)%nat) ds then (w, Fail EOther)
               else if negb (znodup (map t_target (s_trans s))) then (w, Fail EOther)
               else run_seq (do_group_w (next_state_w f m b draw) m outs)
                            (sort_groups (group_rank m outs) (groups (length outs) ds)) w
           end
  end.

Definition transition_w (fuel : nat) (m : machine) (b : Z) (draw : sid -> label -> Z) (tracked : label -> bool)
                        (col : column) (idx : list label) : world * outcome :=
  run_seq (fun s w => let aff := affected_of tracked col idx s in
                      if is_nil aff then (w, Done) else next_state_w fuel m b draw s aff w) (m_states m) (col, []).

(* the hook calls of a call that ends normally, as a function of the request alone *)
Definition group_entries (eff : state -> list label -> list entry) (m : machine) (outs : list output)
                         (g : nat * list label) : list entry :=
  let '(j, aff) := g in
  if is_nil aff then [] else
  match nth_error outs j with
  | Some (OState t) =>
      {| e_state := t; e_members := aff; e_seen := map (fun _ => t) aff |} ::
      match find_state t (m_states m) with
      | Some st => if s_transient st then eff st aff else []
      | None => []
      end
  | _ => []
  end.

Fixpoint effects (fuel : nat) (m : machine) (b : Z) (draw : sid -> label -> Z) (s : state) (idx : list label) : list entry :=
  match fuel with
  | O => []
  | S f =>
      if is_nil (s_trans s) || is_nil idx then []
      else match decisions (m_den m) b draw s idx with
           | Ok ds => let outs := outputs s in
                      flat_map (group_entries (effects f m b draw) m outs)
                               (sort_groups (group_rank m outs) (groups (length outs) ds))
           | _ => []
           end
  end.

Definition transition_effects (fuel : nat) (m : machine) (b : Z) (draw : sid -> label -> Z) (tracked : label -> bool)
                              (col : column) (idx : list label) : list entry :=
  flat_map (fun s => effects fuel m b draw s (affected_of tracked col idx s)) (m_states m).

(* the states one simulant is written into, in order *)
Fixpoint trail (fuel : nat) (m : machine) (b : Z) (draw : sid -> label -> Z) (s : state) (i : label) : list sid :=
  match fuel with
  | O => []
  | S f =>
      if is_nil (s_trans s) then []
      else match decide (m_den m) b draw s i with
           | Ok k => match nth_error (outputs s) k with
                     | Some (OState t) =>
                         t :: match find_state t (m_states m) with
                              | Some st => if s_transient st then trail f m b draw st i else []
                              | None => []
                              end
                     | _ => []
                     end
           | _ => []
           end
  end.

Definition own_trail (fuel : nat) (m : machine) (b : Z) (draw : sid -> label -> Z) (tracked : label -> bool)
                     (col : column) (idx : list label) (l : label) : list sid :=
  if zmem l idx && tracked l
  then match find_state (col l) (m_states m) with Some s => trail fuel m b draw s l | None => [] end
  else [].

(* the hooks that saw simulant [l], in order *)
Definition seen_by (l : label) (log : list entry) : list sid :=
  map e_state (filter (fun e => zmem l (e_members e)) log).

(* Machine.cleanup: every state, in declaration order, is handed the requested tracked simulants that are in it NOW *)
Definition cleanup_calls (m : machine) (tracked : label -> bool) (col : column) (idx : list label) : list (sid * list label) :=
  flat_map (fun s => let aff := affected_of tracked col idx s in if is_nil aff then [] else [(s_id s, aff)]) (m_states m).

(* ================================================================================================================
   declarative side: one simulant on its own.  None = not moved (null transition / no transitions)
   ================================================================================================================ *)
Fixpoint walk (fuel : nat) (m : machine) (b : Z) (draw : sid -> label -> Z) (s : state) (i : label) : result (option sid) :=
  match fuel with
  | O => OutOfFuel
  | S f =>
      if is_nil (s_trans s) then Ok None
      else match decide (m_den m) b draw s i with
           | Rejected e => Rejected e
           | OutOfFuel => OutOfFuel
           | Ok k => if negb (znodup (map t_target (s_trans s))) then Rejected EOther else
                     match nth_error (outputs s) k with
                     | None => Rejected EOther
                     | Some ONull => Ok None
                     | Some (OState t) =>
                         match find_state t (m_states m) with
                         | Some st => if s_transient st
                                      then match walk f m b draw st i with
                                           | Ok None => Ok (Some t)
                                           | r => r
                                           end
                                      else Ok (Some t)
                         | None => Ok (Some t)
                         end
                     end
           end
  end.

(* where simulant [l] stands after Machine.transition, computed from ITS OWN state, probabilities and draws *)
Definition own_destination (fuel : nat) (m : machine) (b : Z) (draw : sid -> label -> Z) (tracked : label -> bool)
                           (col : column) (idx : list label) (l : label) : sid :=
  if zmem l idx && tracked l
  then match find_state (col l) (m_states m) with
       | Some s => match walk fuel m b draw s l with Ok (Some t) => t | _ => col l end
       | None => col l
       end
  else col l.

(* ================================================================================================================
   Correspondence
   ================================================================================================================ *)
Definition tbl (t : list (label * Z)) : label -> Z := fun l => match zassoc l t with Some v => v | None => 0 end.
Definition dtbl (t : list (sid * list (label * Z))) : sid -> label -> Z :=
  fun s l => match zassoc s t with Some r => tbl r l | None => 0 end.
Definition btbl (t : list (label * bool)) : label -> bool := fun l => match zassoc l t with Some v => v | None => false end.

(* a transition as the harness describes it: target, probability table, trigger history (None = not triggered) *)
Definition tspec := (sid * list (label * Z) * option (list (bool * list label)))%type.
Definition mk_trans (t : tspec) : trans :=
  let '(target, table, trig) := t in
  {| t_target := target; t_prob := tbl table; t_trigger := option_map apply_ops trig |}.
(* state: id, allow_self_transition, transient, rank of str(state), transitions *)
Definition sspec := (sid * bool * bool * Z * list tspec)%type.
Definition mk_state (s : sspec) : state :=
  let '(id, null, transient, rk, ts) := s in
  {| s_id := id; s_null := null; s_transient := transient; s_rank := rk; s_trans := map mk_trans ts |}.

Definition code_of (o : outcome) : Z := match o with Done => 0 | Fail _ => 1 | OOF => 3 end.

(* multiset equality (the order in which independent groups / states are walked is not constrained by the property) *)
Fixpoint count_by {A : Type} (eqb : A -> A -> bool) (x : A) (l : list A) : nat :=
  match l with [] => O | y :: r => if eqb x y then S (count_by eqb x r) else count_by eqb x r end.
Definition perm_eqb {A : Type} (eqb : A -> A -> bool) (l1 l2 : list A) : bool :=
  Nat.eqb (length l1) (length l2) && forallb (fun x => Nat.eqb (count_by eqb x l1) (count_by eqb x l2)) l1.

(* a group as a SET of simulants: whether a hook is handed a repeated label once or twice, and in which order, is not
   constrained by the property *)
Fixpoint zinsert (x : Z) (l : list Z) : list Z :=
  match l with [] => [x] | y :: r => if x <=? y then x :: l else y :: zinsert x r end.
Fixpoint zsort (l : list Z) : list Z := match l with [] => [] | x :: r => zinsert x (zsort r) end.
Fixpoint zdedup (l : list Z) : list Z := match l with [] => [] | x :: r => if zmem x r then zdedup r else x :: zdedup r end.
Definition canon (l : list label) : list label := zsort (zdedup l).

Definition hook_obs := (sid * list label * bool)%type.   (* state, group (sorted set), "the hook saw the whole group in that state" *)
Definition hook_eqb (a c : hook_obs) : bool :=
  (fst (fst a) =? fst (fst c)) && zlist_eqb (snd (fst a)) (snd (fst c)) && Bool.eqb (snd a) (snd c).
Definition call_eqb (a c : sid * list label) : bool := (fst a =? fst c) && zlist_eqb (snd a) (snd c).
Definition hook_of (e : entry) : hook_obs := (e_state e, canon (e_members e), forallb (Z.eqb (e_state e)) (e_seen e)).

(* ---- stream `machine`: Machine.transition (then Machine.cleanup) on a real context ----
   case = (denominator, rank of "null_transition", states, draw denominator, draws per state id, rows (label, tracked,
           state before), requested index, fuel, observed code (0 ok, 1 ValueError), rows (label, state after),
           observed transition_side_effect calls with a non-empty index, observed cleanup_effect calls) *)
Definition machine_case := (Z * Z * list sspec * Z * list (sid * list (label * Z)) * list (label * bool * sid) *
                            list label * nat * Z * list (label * sid) * list hook_obs * list (sid * list label))%type.
Definition check_machine (c : machine_case) : bool :=
  let '(D, nrk, sts, b, dr, rows, idx, fuel, code, after, hooks, cleanups) := c in
  let m := {| m_den := D; m_null_rank := nrk; m_states := map mk_state sts |} in
  let tracked := btbl (map (fun r => (fst (fst r), snd (fst r))) rows) in
  let col := tbl (map (fun r => (fst (fst r), snd r)) rows) in
  let '((col', log), o) := transition_w fuel m b (dtbl dr) tracked col idx in
  (code_of o =? code) &&
  Nat.eqb (length after) (length rows) &&
  (* Machine.cleanup on the table as it is after the call *)
  perm_eqb call_eqb (map (fun c => (fst c, canon (snd c))) (cleanup_calls m tracked (tbl after) idx)) cleanups &&
  if code =? 0
  then forallb (fun ls => col' (fst ls) =? snd ls) after &&
       (* the closed form of C17_closed_form predicts the same column *)
       forallb (fun ls => own_destination fuel m b (dtbl dr) tracked col idx (fst ls) =? snd ls) after &&
       (* every side-effect hook call: which state, which group, and what the group's state column was at that moment *)
       perm_eqb hook_eqb (map hook_of log) hooks &&
       (* per simulant the hooks come in the order of its own trail (C17_hooks_exactly_once) *)
       forallb (fun ls => zlist_eqb (seen_by (fst ls) log) (own_trail fuel m b (dtbl dr) tracked col idx (fst ls))) after
  else (* a refused call: WHICH groups were already written when the exception came depends on the order in which
          states and groups are walked, which the property does not constrain - only the simulants outside the tracked
          request are compared *)
       forallb (fun ls => (zmem (fst ls) idx && tracked (fst ls)) || (snd ls =? col (fst ls))) after.

(* ---- stream `tset`: TransitionSet.choose_new_state + _groupby_new_state with injected draws ----
   case = (denominator, state, draw denominator, [(label, draw numerator)], observed code, observed decision indices) *)
Definition tset_case := (Z * sspec * Z * list (label * Z) * Z * list nat)%type.
Definition check_tset (c : tset_case) : bool :=
  let '(D, ss, b, dr, code, obs) := c in
  let s := mk_state ss in
  match decisions D b (fun _ => tbl dr) s (map fst dr) with
  | Ok ds => if existsb (fun d => (length (outputs s) <=? snd d)%nat) ds then code =? 2
             else if negb (znodup (map t_target (s_trans s))) then code =? 1      (* _groupby_new_state refuses *)
             else (code =? 0) && list_eqb Nat.eqb (map snd ds) obs
  | Rejected _ => code =? 1
  | OutOfFuel => false
  end.
