(* SimProofs.v - lemmas about the schedule model Sim.v (C01 driver equivalence and channels, C18 resume).

   Honest reading of what is established here:
   * the DRIVER theorems say that, in the model of the code as it is now, InteractiveContext.step(), a manual
     SimulationContext.step() and the step executed inside run() are the same function of the schedule state, for
     EVERY behaviour of the components ([react], [req] arbitrary) - and that this is false for the two pre-fix variants;
   * run() is exactly "steps until the clock reaches the stop time"; InteractiveContext.run_until(stop)/run() is the
     same loop for EVERY component behaviour incl. per-simulant clocks, run_for(d) = run_until(clock + d)
     (the code before 98b7435f counted its iterations once from the current step and is refuted:
     [run_until_old_variable_step_differs], finding F-AB, replay /verif/fixes/FAB_demo.py);
   * the RESUME theorems say only that the model's step function has no memory outside [sim_state];
   * the CHANNEL lemmas say that the set-iteration orders the code is exposed to cannot change a successful update,
     a table read as a map, or a stratification tuple.
   None of this says that dill restores a context faithfully or that no other entropy source exists: that is the
   differential part of the checks (harness/props/c01.py, c18.py). *)
From Viv Require Import Common Sim.
From Coq Require Import Permutation Sorted.
Local Open Scope Z_scope.

(* ============================================================================================================= *)
Section Drivers.
  Variable react : sim_state -> event -> reaction.
  Variable req : sim_state -> Z -> Z.

  Notation estep := (engine_step react req).
  Notation istep := (interactive_step react req).

  Lemma pop_index_explicit v c1 c2 s : explicit_untracked v = true -> pop_index v c1 s = pop_index v c2 s.
  Proof. unfold pop_index. intros ->. reflexivity. Qed.

  Lemma emit_events_class v c1 c2 ks : explicit_untracked v = true ->
    forall s, emit_events react v c1 ks s = emit_events react v c2 ks s.
  Proof.
    intros Hv. induction ks as [|k ks IH]; intros s; simpl; [reflexivity|].
    rewrite (pop_index_explicit v c1 c2 s Hv). rewrite IH. reflexivity.
  Qed.

  (* the engine's step never consults a class-dispatched default *)
  Lemma engine_step_class v c1 c2 s : explicit_untracked v = true -> estep v c1 s = estep v c2 s.
  Proof.
    intros Hv. unfold engine_step. rewrite (emit_events_class v c1 c2 _ Hv s).
    destruct (emit_events react v c2 [0; 1; 2; 3] s) as [s1 evs].
    rewrite (pop_index_explicit v c1 c2 s1 Hv). reflexivity.
  Qed.

  (* without an override InteractiveContext.step restores nothing *)
  Lemma interactive_none v s : restore_always v = false -> istep v None s = estep v Interactive s.
  Proof.
    intros Hr. unfold interactive_step. destruct (estep v Interactive s) as [[s1 evs]| |]; try reflexivity.
    rewrite Hr. reflexivity.
  Qed.

  Theorem driver_step_eq_gen v s : restore_always v = false -> explicit_untracked v = true ->
    step_interactive react req v s = step_manual react req v s /\
    step_manual react req v s = step_run react req v s.
  Proof.
    intros Hr Hv. split; [|unfold step_manual, step_run; reflexivity]. unfold step_interactive, step_manual.
    rewrite (interactive_none v s Hr). apply engine_step_class. exact Hv.
  Qed.

  Theorem driver_step_eq s :
    step_interactive react req current s = step_manual react req current s /\
    step_manual react req current s = step_run react req current s.
  Proof. apply driver_step_eq_gen; reflexivity. Qed.

  Lemma steps_ext f g : (forall s, f s = g s) -> forall n s, steps f n s = steps g n s.
  Proof.
    intros H n. induction n as [|n IH]; intros s; simpl; [reflexivity|].
    rewrite H. destruct (g s) as [[s1 e1]| |]; try reflexivity. rewrite IH. reflexivity.
  Qed.

  (* n steps: same final state AND same schedule (every event with its time, step and index), all n *)
  Theorem driver_equiv n s :
    steps (step_interactive react req current) n s = steps (step_manual react req current) n s /\
    steps (step_manual react req current) n s = steps (step_run react req current) n s.
  Proof.
    split; apply steps_ext; intro s0; destruct (driver_step_eq s0) as [H1 H2]; assumption.
  Qed.

  (* ---- run() = steps until the clock reaches the stop time ---- *)
  Fixpoint running (f : sim_state -> result (sim_state * list event)) (n : nat) (s : sim_state) : Prop :=
    match n with
    | O => True
    | Datatypes.S k => T s < E s /\ match f s with Ok (s1, _) => running f k s1 | _ => True end
    end.

  Lemma run_loop_sound f : forall fuel s s' evs, run_loop f fuel s = Ok (s', evs) ->
    exists n, (n <= fuel)%nat /\ steps f n s = Ok (s', evs) /\ running f n s /\ E s' <= T s'.
  Proof.
    induction fuel as [|fuel IH]; intros s s' evs H; simpl in H.
    - destruct (T s <? E s) eqn:Hlt; [discriminate|]. inversion H; subst. exists O.
      repeat split; simpl; auto. apply Z.ltb_ge. exact Hlt.
    - destruct (T s <? E s) eqn:Hlt.
      + destruct (f s) as [[s1 e1]| |] eqn:Hf; try discriminate.
        destruct (run_loop f fuel s1) as [[s2 e2]| |] eqn:Hr; try discriminate.
        inversion H; subst. destruct (IH _ _ _ Hr) as [n [Hn [Hs [Hrun HE]]]].
        exists (Datatypes.S n). simpl. rewrite Hf, Hs. repeat split; auto; [lia | apply Z.ltb_lt; exact Hlt].
      + inversion H; subst. exists O. repeat split; simpl; auto; [lia | apply Z.ltb_ge; exact Hlt].
  Qed.

  Lemma run_loop_complete f : forall n s s' evs fuel, steps f n s = Ok (s', evs) -> running f n s ->
    E s' <= T s' -> (n <= fuel)%nat -> run_loop f fuel s = Ok (s', evs).
  Proof.
    induction n as [|n IH]; intros s s' evs fuel Hs Hrun HE Hf.
    - simpl in Hs. inversion Hs; subst.
      assert (Hge : (T s' <? E s') = false) by (apply Z.ltb_ge; exact HE).
      destruct fuel; simpl; rewrite Hge; reflexivity.
    - destruct fuel as [|fuel]; [lia|]. simpl in Hrun. destruct Hrun as [Hlt Hrest]. simpl in Hs.
      destruct (f s) as [[s1 e1]| |] eqn:Hfs; try discriminate.
      destruct (steps f n s1) as [[s2 e2]| |] eqn:Hs1; try discriminate.
      inversion Hs; subst. simpl. rewrite (proj2 (Z.ltb_lt _ _) Hlt). rewrite Hfs.
      rewrite (IH s1 s' e2 fuel Hs1 Hrest HE ltac:(lia)). reflexivity.
  Qed.

  (* ---- C18: the future is a function of the current schedule state ---- *)
  Definition prepend (e1 : list event) (r : result (sim_state * list event)) : result (sim_state * list event) :=
    match r with Ok (s2, e2) => Ok (s2, e1 ++ e2) | Rejected e => Rejected e | OutOfFuel => OutOfFuel end.

  Lemma steps_add f : forall k n s sk e1, steps f k s = Ok (sk, e1) ->
    steps f (k + n) s = prepend e1 (steps f n sk).
  Proof.
    induction k as [|k IH]; intros n s sk e1 H; simpl in H.
    - inversion H; subst. simpl. destruct (steps f n sk) as [[s2 e2]| |]; reflexivity.
    - destruct (f s) as [[s1 e0]| |] eqn:Hf; try discriminate.
      destruct (steps f k s1) as [[s2 e2]| |] eqn:Hs; try discriminate.
      inversion H; subst. simpl. rewrite Hf. rewrite (IH n s1 sk e2 Hs).
      destruct (steps f n sk) as [[s3 e3]| |]; simpl; try reflexivity. rewrite app_assoc. reflexivity.
  Qed.

  Lemma running_add f : forall k n s sk e1, steps f k s = Ok (sk, e1) -> running f k s -> running f n sk ->
    running f (k + n) s.
  Proof.
    induction k as [|k IH]; intros n s sk e1 H Hk Hn; simpl in H.
    - inversion H; subst. exact Hn.
    - destruct (f s) as [[s1 e0]| |] eqn:Hf; try discriminate.
      destruct (steps f k s1) as [[s2 e2]| |] eqn:Hs; try discriminate.
      inversion H; subst. simpl in Hk. destruct Hk as [Hlt Hk]. rewrite Hf in Hk.
      simpl. split; [exact Hlt|]. rewrite Hf. eapply IH; eauto.
  Qed.

  (* stop after k steps, continue with the loop: same final state and schedule as the uninterrupted loop *)
  Theorem resume_run_to_end f k s sk e1 fuel s' e2 :
    steps f k s = Ok (sk, e1) -> running f k s -> run_loop f fuel sk = Ok (s', e2) ->
    run_loop f (k + fuel) s = Ok (s', e1 ++ e2).
  Proof.
    intros Hk Hrun Hloop. destruct (run_loop_sound f _ _ _ _ Hloop) as [n [Hn [Hs [Hr HE]]]].
    apply (run_loop_complete f (k + n)); auto; [|eapply running_add; eauto|lia].
    rewrite (steps_add f k n s sk e1 Hk). rewrite Hs. reflexivity.
  Qed.

  (* ---- InteractiveContext.run_until(stop) = run(), for every behaviour of the components ---- *)
  Lemma apply_reaction_clock s r :
    T (apply_reaction s r) = T s /\ S (apply_reaction s r) = S s /\ E (apply_reaction s r) = E s /\
    m (apply_reaction s r) = m s /\ indiv (apply_reaction s r) = indiv s.
  Proof.
    unfold apply_reaction, snooze_op. destruct (r_snooze r); simpl; [repeat split|].
    destruct (indiv s) eqn:Hi; simpl; rewrite ?Hi; repeat split.
  Qed.

  Lemma emit_events_clock v c ks : forall s s' evs, emit_events react v c ks s = (s', evs) ->
    T s' = T s /\ S s' = S s /\ E s' = E s /\ m s' = m s /\ indiv s' = indiv s.
  Proof.
    induction ks as [|k ks IH]; intros s s' evs H; simpl in H.
    - inversion H; subst. repeat split.
    - match type of H with context [emit_events react v c ks ?x] => destruct (emit_events react v c ks x) as [s2 e2] eqn:Hq end.
      inversion H; subst. apply IH in Hq. destruct Hq as [H1 [H2 [H3 [H4 H5]]]].
      rewrite H1, H2, H3, H4, H5. apply apply_reaction_clock.
  Qed.

  Lemma step_forward_E idx s s' : step_forward req idx s = Ok s' -> E s' = E s.
  Proof.
    unfold step_forward. destruct (indiv s && negb match idx with [] => true | _ => false end).
    - destruct (filter _ (rows s)); [intros H; inversion H; reflexivity|].
      destruct (forallb _ (snooze s)); intros H; inversion H; reflexivity.
    - intros H; inversion H; reflexivity.
  Qed.

  Lemma engine_step_E v c s s' evs : estep v c s = Ok (s', evs) -> E s' = E s.
  Proof.
    unfold engine_step. destruct (emit_events react v c [0; 1; 2; 3] s) as [s1 e1] eqn:He.
    apply emit_events_clock in He. destruct He as [_ [_ [H3 _]]].
    destruct (step_forward req (pop_index v c s1) s1) as [s2| |] eqn:Hf; try discriminate.
    intros H; inversion H; subst. apply step_forward_E in Hf. congruence.
  Qed.

  Lemma loop_until_ext f g : (forall s, f s = g s) -> forall e fuel s, loop_until f e fuel s = loop_until g e fuel s.
  Proof.
    intros H e fuel. induction fuel as [|fuel IH]; intros s; simpl; [reflexivity|].
    destruct (T s <? e); [|reflexivity]. rewrite H. destruct (g s) as [[s1 e1]| |]; try reflexivity.
    rewrite IH. reflexivity.
  Qed.

  Lemma loop_until_run_loop f : (forall s s' evs, f s = Ok (s', evs) -> E s' = E s) ->
    forall fuel s e, e = E s -> loop_until f e fuel s = run_loop f fuel s.
  Proof.
    intros HE. induction fuel as [|fuel IH]; intros s e He; subst e; simpl; [reflexivity|].
    destruct (T s <? E s); [|reflexivity]. destruct (f s) as [[s1 e1]| |] eqn:Hf; try reflexivity.
    rewrite (IH s1 (E s)); [reflexivity|]. symmetry. eapply HE; eauto.
  Qed.

  (* InteractiveContext.run() / run_until(stop_time) and SimulationContext.run(): same final state, same schedule -
     whatever the components do, per-simulant clocks included (true since 98b7435f) *)
  Theorem run_until_eq_run fuel s :
    run_interactive react req current fuel s = run_loop (step_run react req current) fuel s.
  Proof.
    unfold run_interactive, run_until.
    rewrite (loop_until_ext _ (step_run react req current)).
    - apply loop_until_run_loop; [|reflexivity]. intros s0 s' evs. apply engine_step_E.
    - intro s0. destruct (driver_step_eq s0) as [H1 H2]. congruence.
  Qed.

  (* ---- tracked / untracked bookkeeping and initialisation ---- *)
  (* the population the engine builds its event indexes (and the clock update) from is the WHOLE table, untracked
     simulants included, whatever the class of the context *)
  Lemma pop_index_full c s : pop_index current c s = labels (rows s).
  Proof. reflexivity. Qed.

  Lemma labels_filter_map (p : srow -> bool) (f : srow -> srow) :
    (forall r, p (f r) = p r) -> (forall r, lbl (f r) = lbl r) ->
    forall l, labels (filter p (map f l)) = labels (filter p l).
  Proof.
    intros Hp Hl. induction l as [|r l IH]; simpl; [reflexivity|].
    rewrite Hp. destruct (p r); simpl; [rewrite Hl|]; rewrite IH; reflexivity.
  Qed.

  (* untracking a simulant removes it from no event index *)
  Lemma untracked_stay_in_index c s ls t :
    active_at (untrack s ls) (pop_index current c (untrack s ls)) t = active_at s (pop_index current c s) t.
  Proof.
    rewrite !pop_index_full. unfold untrack, active_at. simpl.
    set (f := fun r : srow => if zmem (lbl r) ls then {| lbl := lbl r; nxt := nxt r; stp := stp r; trk := false |} else r).
    assert (Hl : forall r, lbl (f r) = lbl r) by (intro r; unfold f; destruct (zmem (lbl r) ls); reflexivity).
    assert (Hlab : labels (map f (rows s)) = labels (rows s)).
    { unfold labels. rewrite map_map. apply map_ext. exact Hl. }
    rewrite Hlab. destruct (labels (rows s)) eqn:El; [reflexivity|]. rewrite <- El.
    destruct (indiv s); [|reflexivity].
    apply labels_filter_map; [|exact Hl].
    intro r. unfold in_idx, due, f. destruct (zmem (lbl r) ls); reflexivity.
  Qed.

  Lemma initialize_class v c1 c2 n s : explicit_untracked v = true ->
    initialize req v c1 n s = initialize req v c2 n s.
  Proof. intros Hv. unfold initialize. rewrite (pop_index_explicit v c1 c2 _ Hv). reflexivity. Qed.

  (* the whole life of a run: InteractiveContext.setup (= setup + initialize_simulants) then InteractiveContext.run()
     versus initialize_simulants then SimulationContext.run() *)
  Theorem whole_run_equiv n fuel s :
    match initialize req current Interactive n s with
    | Ok s0 => run_interactive react req current fuel s0 | Rejected e => Rejected e | OutOfFuel => OutOfFuel end
    = match initialize req current Plain n s with
      | Ok s0 => run_loop (step_run react req current) fuel s0 | Rejected e => Rejected e | OutOfFuel => OutOfFuel end.
  Proof.
    rewrite (initialize_class current Interactive Plain n s eq_refl).
    destruct (initialize req current Plain n s) as [s0| |]; try reflexivity. apply run_until_eq_run.
  Qed.

  Theorem run_for_is_run_until d fuel s :
    run_for react req current d fuel s = run_until react req current (T s + d) fuel s.
  Proof. reflexivity. Qed.

  (* run_until(e) for ANY end time: exactly the steps taken while the clock is before e *)
  Lemma loop_until_sound f e : forall fuel s s' evs, loop_until f e fuel s = Ok (s', evs) ->
    exists n, (n <= fuel)%nat /\ steps f n s = Ok (s', evs) /\ e <= T s'.
  Proof.
    induction fuel as [|fuel IH]; intros s s' evs H; simpl in H.
    - destruct (T s <? e) eqn:Hlt; [discriminate|]. inversion H; subst. exists O.
      repeat split; simpl; auto. apply Z.ltb_ge. exact Hlt.
    - destruct (T s <? e) eqn:Hlt.
      + destruct (f s) as [[s1 e1]| |] eqn:Hf; try discriminate.
        destruct (loop_until f e fuel s1) as [[s2 e2]| |] eqn:Hr; try discriminate.
        inversion H; subst. destruct (IH _ _ _ Hr) as [n [Hn [Hs HE]]].
        exists (Datatypes.S n). simpl. rewrite Hf, Hs. repeat split; auto. lia.
      + inversion H; subst. exists O. repeat split; simpl; auto; [lia | apply Z.ltb_ge; exact Hlt].
  Qed.

  (* ---- the pre-98b7435f run_until, constant global step: equal to run() ---- *)
  Lemma engine_step_noindiv v c s : indiv s = false ->
    exists s2 evs, estep v c s = Ok (s2, evs) /\ T s2 = T s + S s /\ S s2 = S s /\ E s2 = E s /\ indiv s2 = false.
  Proof.
    intros Hi. unfold engine_step. destruct (emit_events react v c [0; 1; 2; 3] s) as [s1 evs] eqn:He.
    apply emit_events_clock in He. destruct He as [H1 [H2 [H3 [H4 H5]]]].
    unfold step_forward. rewrite H5, Hi. simpl. eexists. eexists. split; [reflexivity|]. simpl.
    rewrite H1, H2, H3, H5. repeat split; assumption.
  Qed.

  Lemma step_run_noindiv s : indiv s = false ->
    exists s2 evs, step_run react req current s = Ok (s2, evs) /\ T s2 = T s + S s /\ S s2 = S s /\ E s2 = E s /\
                   indiv s2 = false.
  Proof. apply engine_step_noindiv. Qed.

  Lemma steps_noindiv : forall n s, indiv s = false ->
    exists s' evs, steps (step_run react req current) n s = Ok (s', evs) /\ T s' = T s + Z.of_nat n * S s /\
                   S s' = S s /\ E s' = E s /\ indiv s' = false.
  Proof.
    induction n as [|n IH]; intros s Hi.
    - exists s, []. simpl. repeat split; auto. lia.
    - destruct (step_run_noindiv s Hi) as [s1 [e1 [Hf [HT [HS [HE Hi1]]]]]].
      destruct (IH s1 Hi1) as [s2 [e2 [Hs [HT2 [HS2 [HE2 Hi2]]]]]].
      exists s2, (e1 ++ e2). rewrite Nat2Z.inj_succ. cbn [steps]. rewrite Hf, Hs.
      repeat split; auto; try congruence. rewrite HT2, HT, HS. nia.
  Qed.

  Lemma running_noindiv : forall n s, indiv s = false -> 0 < S s ->
    (n <> O -> T s + (Z.of_nat n - 1) * S s < E s) -> running (step_run react req current) n s.
  Proof.
    induction n as [|n IH]; intros s Hi Hpos Hlt; simpl; [exact I|].
    assert (Hlt' : T s + (Z.of_nat (Datatypes.S n) - 1) * S s < E s) by (apply Hlt; discriminate).
    split; [nia|].
    destruct (step_run_noindiv s Hi) as [s1 [e1 [Hf [HT [HS [HE Hi1]]]]]]. rewrite Hf.
    apply IH; auto; [lia|]. intros Hn. rewrite HT, HS, HE. nia.
  Qed.

  Theorem run_until_old_const s : indiv s = false -> 0 < S s -> T s - S s < E s ->
    forall fuel, (Z.to_nat (cdiv (E s - T s) (S s)) <= fuel)%nat ->
    run_interactive_old react req current s = run_loop (step_run react req current) fuel s /\
    exists s' evs, run_interactive_old react req current s = Ok (s', evs).
  Proof.
    intros Hi Hpos Hstart fuel Hfuel. unfold run_interactive_old, run_until_old.
    assert (Hz : (S s =? 0) = false) by (apply Z.eqb_neq; lia). rewrite Hz.
    set (n := Z.to_nat (cdiv (E s - T s) (S s))) in *.
    destruct (driver_equiv n s) as [Hd1 Hd2]. rewrite Hd1, Hd2.
    destruct (steps_noindiv n s Hi) as [s' [evs [Hs [HT [HS [HE Hi']]]]]]. rewrite Hs.
    (* arithmetic of the ceiling *)
    unfold cdiv in n.
    pose proof (Z.div_mod (E s - T s + S s - 1) (S s) ltac:(lia)) as Hdm.
    pose proof (Z.mod_pos_bound (E s - T s + S s - 1) (S s) Hpos) as Hmod.
    set (q := (E s - T s + S s - 1) / S s) in *.
    assert (Hn : Z.of_nat n = Z.max 0 q) by (unfold n; lia).
    assert (Hassert : (T s' - S s' <? E s) && (E s <=? T s') = true).
    { apply andb_true_iff. split; [apply Z.ltb_lt | apply Z.leb_le]; rewrite HT, ?HS, Hn; nia. }
    rewrite Hassert. split; [|eauto].
    symmetry. apply (run_loop_complete _ n); auto.
    - apply running_noindiv; auto. intros Hn0. rewrite Hn. nia.
    - rewrite HE, HT, Hn. nia.
  Qed.
End Drivers.

(* however many contexts were created before (whatever the name), the run is the same *)
Lemma name_only react req n created1 created2 s :
  outcome (ctx_steps react req n (new_context created1 s)) = outcome (ctx_steps react req n (new_context created2 s)).
Proof.
  unfold ctx_steps, new_context. simpl.
  destruct (steps (step_run react req current) n s) as [[s' evs]| |]; reflexivity.
Qed.

(* ============================================================================================================= *)
(* the theorems above are not vacuous, and they are breakable: both pre-fix variants violate step equality      *)
Definition no_react : sim_state -> event -> reaction := fun _ _ => {| r_births := O; r_untrack := []; r_snooze := [] |}.

Definition wit_FC : sim_state :=
  {| T := 0; S := 1; E := 5; m := 1; indiv := false;
     rows := [ {| lbl := 0; nxt := 0; stp := 0; trk := true |}; {| lbl := 1; nxt := 0; stp := 0; trk := false |} ];
     snooze := [] |}.
Lemma step_eq_refuted_before_FC :
  exists react req s, step_interactive react req before_FC s <> step_manual react req before_FC s.
Proof. exists no_react, (fun _ _ => 1), wit_FC. vm_compute. discriminate. Qed.

(* the two classes' DEFAULT populations do differ - which is why the engine must not rely on the default *)
Lemma default_population_differs : exists s, get_population Plain None s <> get_population Interactive None s.
Proof. exists wit_FC. vm_compute. discriminate. Qed.
(* ... and before a70d8de6 initialisation itself depended on the class as soon as somebody was untracked *)
Definition wit_init : sim_state :=
  {| T := 0; S := 1; E := 9; m := 1; indiv := true;
     rows := [ {| lbl := 0; nxt := 0; stp := 5; trk := false |} ]; snooze := [] |}.
Lemma initialize_class_refuted_before_FC :
  exists req s, initialize req before_FC Plain 1 s <> initialize req before_FC Interactive 1 s.
Proof. exists (fun _ _ => 2), wit_init. vm_compute. discriminate. Qed.

Definition wit_FB : sim_state :=
  {| T := 0; S := 1; E := 10; m := 1; indiv := true;
     rows := [ {| lbl := 0; nxt := 1; stp := 1; trk := true |}; {| lbl := 1; nxt := 1; stp := 1; trk := true |} ];
     snooze := [] |}.
Definition req_23 : sim_state -> Z -> Z := fun _ l => if l =? 0 then 2 else 3.
Lemma step_eq_refuted_before_FB :
  exists react req s, step_interactive react req before_FB s <> step_manual react req before_FB s.
Proof. exists no_react, req_23, wit_FB. vm_compute. discriminate. Qed.

(* THE CODE BEFORE 98b7435f.  With per-simulant clocks the global step varies, and the old run_until's iteration count (computed once, from the current
   step) is wrong: here run() stops at T = 4 after 3 steps, InteractiveContext.run() silently takes a 4th step to
   T = 5 (its closing assertion passes because the NEW step is 2). *)
Definition wit_var : sim_state :=
  {| T := 0; S := 1; E := 4; m := 1; indiv := true;
     rows := [ {| lbl := 0; nxt := 1; stp := 1; trk := true |} ]; snooze := [] |}.
Definition req_parity : sim_state -> Z -> Z := fun s _ => if Z.even (T s) then 2 else 1.
Definition res_T (r : result (sim_state * list event)) : option Z :=
  match r with Ok (s, _) => Some (T s) | _ => None end.
Definition res_events (r : result (sim_state * list event)) : option nat :=
  match r with Ok (_, e) => Some (length e) | _ => None end.
Definition res_rows (r : result (sim_state * list event)) : option nat :=
  match r with Ok (s, _) => Some (length (rows s)) | _ => None end.

Lemma run_until_old_variable_step_differs :
  exists react req s,
    res_T (run_loop (step_run react req current) 10 s) = Some 4 /\
    res_T (run_interactive_old react req current s) = Some 5 /\
    res_events (run_loop (step_run react req current) 10 s) = Some 12%nat /\
    res_events (run_interactive_old react req current s) = Some 16%nat.
Proof. exists no_react, req_parity, wit_var. vm_compute. repeat split; reflexivity. Qed.

(* ... and the repaired loop agrees with run() on that very witness: 3 steps, clock 4 *)
Example run_until_new_agrees_on_witness :
  run_interactive no_react req_parity current 10 wit_var = run_loop (step_run no_react req_parity current) 10 wit_var /\
  res_T (run_interactive no_react req_parity current 10 wit_var) = Some 4 /\
  res_events (run_interactive no_react req_parity current 10 wit_var) = Some 12%nat.
Proof. vm_compute. repeat split; reflexivity. Qed.

(* non-vacuity of the positive theorems: a concrete 2-simulant schedule with a birth, steps 2 and 3 *)
Definition react_birth : sim_state -> event -> reaction :=
  fun s ev => {| r_births := if (ev_kind ev =? 1) && (T s =? 1) then 2%nat else O;
                 r_untrack := if ev_kind ev =? 0 then [0] else []; r_snooze := [] |}.
Example three_drivers_agree :
  steps (step_interactive react_birth req_23 current) 4 wit_FB = steps (step_run react_birth req_23 current) 4 wit_FB /\
  res_T (steps (step_run react_birth req_23 current) 4 wit_FB) = Some 5 /\
  res_rows (steps (step_run react_birth req_23 current) 4 wit_FB) = Some 4%nat /\
  res_events (steps (step_run react_birth req_23 current) 4 wit_FB) = Some 16%nat.
Proof. vm_compute. repeat split; reflexivity. Qed.

(* ============================================================================================================= *)
(* C18: with a codec                                                                                            *)
Section Codec.
  Variable react : sim_state -> event -> reaction.
  Variable req : sim_state -> Z -> Z.
  Variable B : Type.
  Variable enc : sim_state -> B.
  Variable dec : B -> sim_state.
  Hypothesis dec_enc : forall s, dec (enc s) = s.

  Theorem resume_codec f k n s sk e1 : steps f k s = Ok (sk, e1) ->
    prepend e1 (steps f n (dec (enc sk))) = steps f (k + n) s.
  Proof. intros H. rewrite dec_enc. symmetry. apply steps_add; exact H. Qed.
End Codec.

(* ============================================================================================================= *)
(* channels                                                                                                     *)
Lemma zmem_perm x l1 l2 : Permutation l1 l2 -> zmem x l1 = zmem x l2.
Proof.
  intros HP. destruct (zmem x l1) eqn:E1; symmetry.
  - apply zmem_In. apply zmem_In in E1. eapply Permutation_in; eauto.
  - destruct (zmem x l2) eqn:E2; [|reflexivity]. apply zmem_In in E2.
    apply Permutation_sym in HP. apply (Permutation_in _ HP) in E2. apply zmem_In in E2. congruence.
Qed.

Lemma forallb_perm {A} (p : A -> bool) l1 l2 : Permutation l1 l2 -> forallb p l1 = forallb p l2.
Proof.
  induction 1; simpl; try congruence.
  destruct (p x), (p y); reflexivity.
Qed.

Section UpdateProofs.
  Variable ok : Z -> bool.
  Variable newcol : Z -> list Z -> list Z.

  Lemma assign_present t c v : zmem c (map fst t) = true ->
    assign t c v = map (fun kv => if fst kv =? c then (fst kv, v) else kv) t.
  Proof. intros H. unfold assign. rewrite H. reflexivity. Qed.

  Lemma fold_assign_closed (g : Z -> list Z) : forall ord acc, (forall c, In c ord -> In c (map fst acc)) ->
    fold_left (fun a kv => assign a (fst kv) (snd kv)) (map (fun c => (c, g c)) ord) acc
    = map (fun kv => if zmem (fst kv) ord then (fst kv, g (fst kv)) else kv) acc.
  Proof.
    induction ord as [|c r IH]; intros acc Hin; simpl.
    - symmetry. erewrite map_ext; [apply map_id|]. intros; reflexivity.
    - rewrite assign_present by (apply zmem_In; apply Hin; left; reflexivity).
      rewrite IH.
      + rewrite map_map. apply map_ext. intros [k v]; simpl.
        destruct (k =? c) eqn:Ekc; simpl.
        * apply Z.eqb_eq in Ekc; subst. destruct (zmem c r); reflexivity.
        * reflexivity.
      + intros c' Hc'. rewrite map_map. simpl.
        assert (Hk : map (fun x : Z * list Z => fst (if fst x =? c then (fst x, g c) else x)) acc = map fst acc).
        { apply map_ext. intros [k v]; simpl. destruct (k =? c); reflexivity. }
        rewrite Hk. apply Hin. right. exact Hc'.
  Qed.

  (* A multi-column update of existing columns - accepted or rejected - does not depend on the order in which the
     set of its columns is iterated: same verdict, and when accepted the IDENTICAL table (column order included). *)
  Theorem update_cols_perm o1 o2 t : Permutation o1 o2 -> (forall c, In c o1 -> In c (map fst t)) ->
    update_cols ok newcol o1 t = update_cols ok newcol o2 t.
  Proof.
    intros HP Hin. unfold update_cols. rewrite (forallb_perm ok o1 o2 HP).
    destruct (forallb ok o2); [|reflexivity]. f_equal.
    rewrite (fold_assign_closed (fun c => newcol c (getcol t c)) o1 t Hin).
    rewrite (fold_assign_closed (fun c => newcol c (getcol t c)) o2 t).
    - apply map_ext. intros kv. rewrite (zmem_perm (fst kv) o1 o2 HP). reflexivity.
    - intros c Hc. apply Hin. eapply Permutation_in; [apply Permutation_sym; exact HP | exact Hc].
  Qed.

  (* reading a table as a map *)
  Lemma zassoc_replace k c v : forall t : table,
    zassoc k (map (fun kv => if fst kv =? c then (fst kv, v) else kv) t)
    = if c =? k then match zassoc c t with Some _ => Some v | None => None end else zassoc k t.
  Proof.
    induction t as [|[a w] t IH]; simpl.
    - destruct (c =? k); reflexivity.
    - destruct (a =? c) eqn:Eac; simpl.
      + apply Z.eqb_eq in Eac; subst a. rewrite ?Z.eqb_refl.
        destruct (c =? k) eqn:Eck; [reflexivity | rewrite IH; reflexivity].
      + destruct (a =? k) eqn:Eak.
        * apply Z.eqb_eq in Eak; subst a. rewrite Z.eqb_sym in Eac. rewrite Eac. reflexivity.
        * rewrite IH. destruct (c =? k) eqn:Eck; [|reflexivity].
          apply Z.eqb_eq in Eck; subst k. rewrite ?Eac. reflexivity.
  Qed.

  Lemma zassoc_app_one k c v : forall t : table,
    zassoc k (t ++ [(c, v)]) = match zassoc k t with Some x => Some x | None => if c =? k then Some v else None end.
  Proof.
    induction t as [|[a w] t IH]; simpl; [reflexivity|]. destruct (a =? k); [reflexivity | apply IH].
  Qed.

  Lemma zmem_keys_zassoc c : forall t : table,
    (zmem c (map fst t) = true -> exists x, zassoc c t = Some x) /\ (zmem c (map fst t) = false -> zassoc c t = None).
  Proof.
    induction t as [|[a w] t [IH1 IH2]]; simpl; split; intros H; try discriminate; try reflexivity.
    - destruct (a =? c) eqn:Eac; [eauto|]. rewrite Z.eqb_sym, Eac in H. simpl in H. apply IH1. exact H.
    - destruct (a =? c) eqn:Eac; rewrite Z.eqb_sym, Eac in H; [discriminate|]. simpl in H. apply IH2. exact H.
  Qed.

  Lemma assign_lookup k c v (t : table) : zassoc k (assign t c v) = if c =? k then Some v else zassoc k t.
  Proof.
    unfold assign. destruct (zmem c (map fst t)) eqn:Hm.
    - rewrite zassoc_replace. destruct (c =? k); [|reflexivity].
      destruct (proj1 (zmem_keys_zassoc c t) Hm) as [x Hx]. rewrite Hx. reflexivity.
    - rewrite zassoc_app_one. destruct (c =? k) eqn:Eck.
      + apply Z.eqb_eq in Eck; subst k. rewrite (proj2 (zmem_keys_zassoc c t) Hm). reflexivity.
      + destruct (zassoc k t); reflexivity.
  Qed.

  Lemma add_cols_lookup (data : Z -> list Z) k : forall ord (t : table),
    zassoc k (add_cols data ord t) = if zmem k ord then Some (data k) else zassoc k t.
  Proof.
    unfold add_cols. induction ord as [|c r IH]; intros t; simpl; [reflexivity|].
    rewrite IH. rewrite assign_lookup. rewrite (Z.eqb_sym k c).
    destruct (c =? k) eqn:Eck; simpl.
    - apply Z.eqb_eq in Eck; subst. destruct (zmem k r); reflexivity.
    - reflexivity.
  Qed.

  (* Columns ADDED in set order (initial population creation; the results manager's prepared population): as a map
     from column name to column the table is the same for every order; only the column ORDER may differ - which is
     why the differential canonicalises column order and nothing else. *)
  Theorem add_cols_map_perm (data : Z -> list Z) o1 o2 (t : table) : Permutation o1 o2 ->
    forall k, zassoc k (add_cols data o1 t) = zassoc k (add_cols data o2 t).
  Proof. intros HP k. rewrite !add_cols_lookup. rewrite (zmem_perm k o1 o2 HP). reflexivity. Qed.
End UpdateProofs.

(* ---- stratification tuples ---- *)
Lemma insert_comm x y : forall l, insert x (insert y l) = insert y (insert x l).
Proof.
  induction l as [|a l IH]; simpl.
  - destruct (Z.leb_spec x y), (Z.leb_spec y x); try reflexivity; try lia.
    assert (x = y) by lia. subst. reflexivity.
  - destruct (Z.leb_spec y a), (Z.leb_spec x a); simpl;
      repeat match goal with |- context [?p <=? ?q] => destruct (Z.leb_spec p q) end;
      try reflexivity; try lia.
    + assert (x = y) by lia. subst. reflexivity.
    + rewrite IH. reflexivity.
Qed.

Lemma isort_perm_eq l1 l2 : Permutation l1 l2 -> isort l1 = isort l2.
Proof.
  intros HP. induction HP as [|x l l' HP IH|x y l|l l' l'' HP1 IH1 HP2 IH2].
  - reflexivity.
  - unfold isort in *. simpl. rewrite IH. reflexivity.
  - unfold isort. simpl. apply insert_comm.
  - congruence.
Qed.

Lemma insert_perm x : forall l, Permutation (insert x l) (x :: l).
Proof.
  induction l as [|a l IH]; simpl; [apply Permutation_refl|].
  destruct (x <=? a); [apply Permutation_refl|].
  eapply Permutation_trans; [apply perm_skip; exact IH | apply perm_swap].
Qed.

Lemma isort_perm l : Permutation (isort l) l.
Proof.
  induction l as [|a l IH]; simpl; [constructor|].
  unfold isort in *. simpl. eapply Permutation_trans; [apply insert_perm | apply perm_skip; exact IH].
Qed.

Lemma insert_sorted x : forall l, Sorted Z.le l -> Sorted Z.le (insert x l).
Proof.
  induction l as [|a l IH]; intros Hs; simpl.
  - repeat constructor.
  - destruct (Z.leb_spec x a).
    + constructor; [exact Hs | constructor; exact H].
    + inversion Hs as [|? ? Hs' Hhd]; subst. constructor; [apply IH; exact Hs'|].
      destruct l as [|b l]; simpl.
      * constructor. lia.
      * destruct (Z.leb_spec x b); constructor; try lia. inversion Hhd; subst. assumption.
Qed.

Lemma isort_sorted l : Sorted Z.le (isort l).
Proof.
  induction l as [|a l IH]; [constructor|]. unfold isort in *. simpl. apply insert_sorted. exact IH.
Qed.

(* tuple(sorted(list(SET))) is the same tuple for EVERY iteration order of the set *)
Theorem strat_tuple_perm o1 o2 : NoDup o1 -> NoDup o2 -> (forall x, In x o1 <-> In x o2) ->
  strat_tuple o1 = strat_tuple o2.
Proof. intros H1 H2 H. apply isort_perm_eq. apply NoDup_Permutation; assumption. Qed.
