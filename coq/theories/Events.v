(* Model of vivarium/framework/event.py (DESIGN.md C08): EventChannel (10 priority buckets), EventManager.get_channel /
   register_listener / get_emitter, and of the listener registration done by Component.setup_component (component.py).
   Channel names, listener identities are numbers (the harness interns them).

   event.py anchors:
     EventChannel.__init__   91-94   -> [empty_buckets]: `[[] for _ in range(10)]`
     EventChannel.emit       96-123  -> [emit]: one Event(index, user_data, clock() + step_size(), step_size()) and the
                                        buckets walked 0..9, each in insertion order
     EventManager.get_channel 148-151 -> channels are created on demand, empty: [chans] is a total function
     EventManager.register_listener 200-213 -> [register]: `listeners[priority].append(listener)` - PYTHON list indexing:
                                        0..9 are the buckets, -10..-1 index from the end (bucket priority+10), anything else
                                        raises IndexError before anything is appended ([bucket_index])
   component.py anchors:
     Component.setup_component 349-377 -> [component_regs]: `setup()` first (hand-made registrations), then the hooks the
                                        class overrides, in the fixed order post_setup, (simulant initializer), time_step__prepare,
                                        time_step, time_step__cleanup, collect_metrics, simulation_end, each with the
                                        component's *_priority (732-865) *)
From Viv Require Import Common.
Local Open Scope Z_scope.

Definition lid := Z.                                (* a listener (callable) *)
Definition cid := Z.                                (* a channel / event name *)
Definition buckets := list (list lid).              (* EventChannel.listeners: always 10 lists *)
Definition nbuckets : nat := 10.
Definition empty_buckets : buckets := repeat [] nbuckets.

(* listeners[priority]: python list indexing on a list of length 10 *)
Definition bucket_index (p : Z) : option nat :=
  if (0 <=? p) && (p <? 10) then Some (Z.to_nat p)
  else if (-10 <=? p) && (p <? 0) then Some (Z.to_nat (p + 10))
  else None.

Fixpoint add_at (n : nat) (l : lid) (b : buckets) : buckets :=
  match b, n with
  | [], _ => []
  | x :: r, O => (x ++ [l]) :: r                    (* .append *)
  | x :: r, S n' => x :: add_at n' l r
  end.

(* EventManager._event_types: get_channel creates an empty channel on demand, so the map is total *)
Definition chans := cid -> buckets.
Definition no_listeners : chans := fun _ => empty_buckets.

Definition reg := (cid * Z * lid)%type.             (* register_listener(name, listener, priority) *)

Definition register (m : chans) (r : reg) : result chans :=
  let '(c, p, l) := r in
  match bucket_index p with
  | Some n => Ok (fun c' => if c' =? c then add_at n l (m c) else m c')
  | None => Rejected EOther                          (* IndexError: nothing was appended *)
  end.

(* a sequence of registrations; one that raises leaves the manager as it was *)
Fixpoint register_all (m : chans) (rs : list reg) : chans :=
  match rs with
  | [] => m
  | r :: rest => match register m r with Ok m' => register_all m' rest | _ => register_all m rest end
  end.

(* EventChannel.emit: the listeners called, in call order *)
Definition emit (m : chans) (c : cid) : list lid := concat (m c).
(* the same, each listener tagged with the index of the bucket it sits in (ghost information: what "priority order" means) *)
Fixpoint tag_from (n : nat) (b : buckets) : list (nat * lid) :=
  match b with [] => [] | x :: r => map (pair n) x ++ tag_from (S n) r end.
Definition emit_tagged (m : chans) (c : cid) : list (nat * lid) := tag_from 0 (m c).

(* ---- declarative specification: the stable sort of the registration sequence by bucket ---- *)
Definition lands (c : cid) (n : nat) (r : reg) : bool :=
  let '(c', p, _) := r in
  (c' =? c) && match bucket_index p with Some k => Nat.eqb k n | None => false end.
Definition of_bucket (c : cid) (n : nat) (rs : list reg) : list lid := map snd (filter (lands c n) rs).
Definition emit_spec (c : cid) (rs : list reg) : list lid := flat_map (fun n => of_bucket c n rs) (seq 0 nbuckets).
Definition emit_tagged_spec (c : cid) (rs : list reg) : list (nat * lid) :=
  flat_map (fun n => map (pair n) (of_bucket c n rs)) (seq 0 nbuckets).
(* the registrations that reach channel c at all (valid priority) *)
Definition accepted_on (c : cid) (r : reg) : bool :=
  let '(c', p, _) := r in (c' =? c) && match bucket_index p with Some _ => true | None => false end.

(* ---- Component.setup_component ---- *)
(* hook numbers = the life-cycle state / channel numbers of C06: 2 post_setup, 3 population_creation (the simulant
   initializer: not a channel), 4 time_step__prepare, 5 time_step, 6 time_step__cleanup, 7 collect_metrics,
   8 simulation_end; 9 report has no component hook (listeners are registered by hand) *)
Definition ch_post_setup := 2.
Definition ch_prepare := 4.
Definition ch_time_step := 5.
Definition ch_cleanup := 6.
Definition ch_collect := 7.
Definition ch_end := 8.
Definition ch_report := 9.
Definition hook_order : list Z := [2; 4; 5; 6; 7; 8].          (* registration order of the listener hooks *)
Definition step_channels : list cid := [ch_prepare; ch_time_step; ch_cleanup; ch_collect].

(* a component: the registrations its setup() makes by hand, the hooks it overrides with their priorities, the base of its
   listener ids (hook h of the component is listener base + h) *)
Definition comp := (list reg * list (Z * Z) * Z)%type.
Definition hook_regs (hooks : list (Z * Z)) (base : Z) : list reg :=
  flat_map (fun h => match zassoc h hooks with Some p => [(h, p, base + h)] | None => [] end) hook_order.
Definition component_regs (c : comp) : list reg :=
  let '(hand, hooks, base) := c in hand ++ hook_regs hooks base.
Definition has_initializer (c : comp) : bool :=
  let '(_, hooks, _) := c in match zassoc 3 hooks with Some _ => true | None => false end.
Definition initializer_id (c : comp) : lid := let '(_, _, base) := c in base + 3.
Definition all_regs (cs : list comp) : list reg := flat_map component_regs cs.
Definition all_initializers (cs : list comp) : list lid := map initializer_id (filter has_initializer cs).

(* ---- correspondence 1: stand-alone EventManagers ----
   case = (registration attempts with the implementation's outcome (0 appended, 1 raised), clock, step size,
           per emitted channel: (channel, listeners called in order, event.time, event.step_size))
   Within one bucket the property promises no order: the comparison is made after sorting each bucket. *)
Fixpoint insert_sorted (x : Z) (l : list Z) : list Z :=
  match l with [] => [x] | y :: r => if x <=? y then x :: l else y :: insert_sorted x r end.
Definition sort_z (l : list Z) : list Z := fold_right insert_sorted [] l.

(* observed calls carry the bucket the harness registered them in; canonical form = buckets in observed order, each sorted *)
Fixpoint ins_group (x : nat * lid) (acc : list (nat * lid)) : list (nat * lid) :=
  match acc with
  | [] => [x]
  | y :: r => if Nat.eqb (fst x) (fst y) && (snd y <? snd x) then y :: ins_group x r else x :: acc
  end.
Definition canon_tagged (l : list (nat * lid)) : list (nat * lid) := fold_right ins_group [] l.
Definition tagged_eqb (a b : nat * lid) : bool := Nat.eqb (fst a) (fst b) && (snd a =? snd b).

Fixpoint run_attempts (m : chans) (l : list (reg * Z)) : option chans :=
  match l with
  | [] => Some m
  | (r, code) :: rest =>
      match register m r with
      | Ok m' => if code =? 0 then run_attempts m' rest else None
      | _ => if code =? 1 then run_attempts m rest else None
      end
  end.

(* an observed emission: channel, listeners called in call order, event.time, event.step_size.  The observed calls are
   tagged positionally with the model's bucket sequence; equality of the canonical forms then says: the observed sequence is
   the model's up to a permutation inside each bucket. *)
Definition emission := (cid * list lid * Z * Z)%type.
Definition chan_case := (list (reg * Z) * Z * Z * list emission)%type.
Definition same_up_to_buckets (expected : list (nat * lid)) (obs : list lid) : bool :=
  Nat.eqb (length obs) (length expected)
  && list_eqb tagged_eqb (canon_tagged (combine (map fst expected) obs)) (canon_tagged expected).
Definition check_emission (m : chans) (clock step : Z) (e : emission) : bool :=
  let '(c, obs, t, s) := e in
  same_up_to_buckets (emit_tagged m c) obs && (t =? clock + step) && (s =? step).
Definition check_chan (c : chan_case) : bool :=
  let '(atts, clock, step, ems) := c in
  match run_attempts no_listeners atts with
  | Some m => forallb (check_emission m clock step) ems
  | None => false
  end.
(* informational: does the implementation also keep registration order inside a bucket (the model does)? *)
Definition exact_order (c : chan_case) : bool :=
  let '(atts, clock, step, ems) := c in
  match run_attempts no_listeners atts with
  | Some m => forallb (fun e : emission => let '(c, obs, _, _) := e in zlist_eqb obs (emit m c)) ems
  | None => false
  end.
