(* Model of the population table, view updates and simulant creation (DESIGN.md C11, C13).
   (Reads through views - queries, the default tracked filter - are property C12: theories/PopRead.v.)

   Anchors (line numbers of /repo/src/vivarium/framework/population, docstrings stripped - tools/strip.py):
     population_view.py  PopulationView.columns 73-84            -> [view_columns]
                         PopulationView.subview 86-124           -> [subview]
                         PopulationView.update 180-225           -> [update]   (validate-all-then-assign: the code
                                                                                after the F-D repair, commit cbcd0839)
                         the loop as it was before the repair    -> [update_interleaved] (documentation + the
                                                                                historical refutation witness)
                         _format_update_and_check_preconditions 235-341, _coerce_to_dataframe 344-401,
                         _ensure_coherent_initialization 404-448 -> [update_checked], [coerce], [check_creating],
                                                                    [check_steady]
                         _update_column_and_ensure_dtype 451-500 -> [build_col]
     manager.py          _create_simulants 334-356               -> [create]
                         get_population 362-377                  -> [cur_table]
                         on_initialize_simulants 189-192         -> [tracked_initializer]

   Conventions: column names are numbers ([cid]; 0 = "tracked"); simulant labels are Z; a table always has the labels
   0..n-1 in this order (rows are never deleted, _create_simulants uses range(len+count)); [Fv z] denotes the double
   z/2 (the correspondence uses multiples of 0.5 only), [Sv z] the z-th interned string, [Tv z] a timestamp (days
   after the epoch of the harness), [Null] NaN/NaT.  Column ORDER of the table is not part of any statement (it depends
   on set iteration order during the initial creation); the correspondence compares tables sorted by column id.
   Aliasing ("the returned frame is a copy") cannot be exhibited by a Gallina model: checked directly by the harness. *)
From Viv Require Import Common.
Local Open Scope Z_scope.

(* ================================================================================================================ *)
(** * Cells, dtypes, columns, tables *)

Definition cid := Z.
Definition TRACKED : cid := 0.

Inductive dtype := DBool | DInt | DFloat | DStr | DTime | DObj | DTimeNs.
Definition dtype_code (d : dtype) : Z :=
  match d with DBool => 0 | DInt => 1 | DFloat => 2 | DStr => 3 | DTime => 4 | DObj => 5 | DTimeNs => 6 end.
Definition dtype_eqb (a b : dtype) : bool := dtype_code a =? dtype_code b.

Inductive cell := Null | Bv (b : bool) | Iv (z : Z) | Fv (z : Z) | Sv (z : Z) | Tv (z : Z).
Definition cell_eqb (a b : cell) : bool :=
  match a, b with
  | Null, Null => true
  | Bv x, Bv y => Bool.eqb x y
  | Iv x, Iv y | Fv x, Fv y | Sv x, Sv y | Tv x, Tv y => x =? y
  | _, _ => false
  end.
Definition cells_eqb := list_eqb cell_eqb.
Definition notnull (c : cell) : bool := match c with Null => false | _ => true end.

Record column := mkcol { cname : cid; cdt : dtype; ccells : list cell }.
Record table := mktbl { tn : nat; tcols : list column }.
Definition empty_table : table := mktbl 0 [].

Definition column_eqb (a b : column) : bool :=
  (cname a =? cname b) && dtype_eqb (cdt a) (cdt b) && cells_eqb (ccells a) (ccells b).

Fixpoint find_col (cs : list column) (c : cid) : option column :=
  match cs with [] => None | k :: r => if cname k =? c then Some k else find_col r c end.
Definition has_col (t : table) (c : cid) : bool := match find_col (tcols t) c with Some _ => true | None => false end.
Definition col_names (t : table) : list cid := map cname (tcols t).

Definition labels_upto (n : nat) : list Z := map Z.of_nat (seq 0 n).
Definition labels (t : table) : list Z := labels_upto (tn t).
Definition has_label (t : table) (l : Z) : bool := (0 <=? l) && (l <? Z.of_nat (tn t)).
Definition cell_of (k : column) (l : Z) : cell := nth (Z.to_nat l) (ccells k) Null.
Definition cell_at (t : table) (c : cid) (l : Z) : option cell :=
  match find_col (tcols t) c with
  | Some k => if has_label t l then Some (cell_of k l) else None
  | None => None
  end.
Definition dtype_at (t : table) (c : cid) : option dtype :=
  match find_col (tcols t) c with Some k => Some (cdt k) | None => None end.

(* df[c] = series : an existing column is replaced in place, a new one is appended *)
Fixpoint put_col (cs : list column) (k : column) : list column :=
  match cs with
  | [] => [k]
  | x :: r => if cname x =? cname k then k :: r else x :: put_col r k
  end.

(* values[positions] = new.  numpy-backed arrays (bool, int64, float64, object, datetime64) assign left to right, so
   the LAST value wins for a repeated label; the Arrow-backed `str` array keeps the FIRST one (measured, pandas 3.0.6 /
   pyarrow 25).  Either way the cell receives one of the values supplied for it. *)
Fixpoint set_nth (n : nat) (v : cell) (l : list cell) : list cell :=
  match l, n with [], _ => [] | _ :: r, O => v :: r | x :: r, S n' => x :: set_nth n' v r end.
Definition write_pairs (cs : list cell) (ps : list (Z * cell)) : list cell :=
  fold_left (fun acc p => set_nth (Z.to_nat (fst p)) (snd p) acc) ps cs.
Definition first_wins (d : dtype) : bool := match d with DStr => true | _ => false end.
Definition pairs_for (d : dtype) (idx : list Z) (vals : list cell) : list (Z * cell) :=
  if first_wins d then rev (combine idx vals) else combine idx vals.
Definition write_cells (d : dtype) (cs : list cell) (idx : list Z) (vals : list cell) : list cell :=
  write_pairs cs (pairs_for d idx vals).
(* the value that ends up in the cell of label l, if one was supplied (specification of [write_pairs]) *)
Fixpoint last_pair (l : Z) (ps : list (Z * cell)) (acc : option cell) : option cell :=
  match ps with
  | [] => acc
  | (i, v) :: r => last_pair l r (if i =? l then Some v else acc)
  end.
Definition supplied (d : dtype) (l : Z) (idx : list Z) (vals : list cell) : option cell :=
  last_pair l (pairs_for d idx vals) None.

Fixpoint nodupb (l : list Z) : bool := match l with [] => true | x :: r => negb (zmem x r) && nodupb r end.
Fixpoint dedup (l : list Z) : list Z :=
  match l with [] => [] | x :: r => if zmem x r then dedup r else x :: dedup r end.
Definition is_nil {A} (l : list A) : bool := match l with [] => true | _ => false end.

(* ================================================================================================================ *)
(** * Views (only what [update] uses of them: the column list; the query plays no role in an update) *)

Record view := mkview { vcols : list cid (* [] = all columns *) }.

(* PopulationView.columns *)
Definition view_columns (t : table) (v : view) : list cid := match vcols v with [] => col_names t | l => l end.

(* PopulationView.subview: non-empty subset of the parent's columns *)
Definition subview (t : table) (v : view) (cols : list cid) : result view :=
  if is_nil cols || existsb (fun c => negb (zmem c (view_columns t v))) cols then Rejected EPopulation
  else Ok (mkview cols).

(* ================================================================================================================ *)
(** * Updates *)

Record ucol := mkucol { uname : cid; udt : dtype; ucells : list cell }.
Inductive upd :=
  | UNotPandas                                                            (* a list, dict, ndarray, scalar ... *)
  | USeries (name : option cid) (dt : dtype) (idx : list Z) (vals : list cell)
  | UFrame (idx : list Z) (cols : list ucol).

Record flags := mkflags { creating : bool; adding : bool }.
Definition steady : flags := mkflags false false.

Inductive why :=
  | WAssert | WNotPandas | WUnnamed | WExtraCols | WNoCols | WDupCols | WUnknownRows
  | WMissingRows | WNoNewCols | WInitConflict | WNewCols | WAddConflict
  | WDtype | WCast | WDupIndex.
Inductive outcome := Pass | Fail (w : why) | Unmodelled.

Fixpoint find_ucol (us : list ucol) (c : cid) : option ucol :=
  match us with [] => None | u :: r => if uname u =? c then Some u else find_ucol r c end.
Definition unames (us : list ucol) : list cid := map uname us.

(* _coerce_to_dataframe *)
Definition coerce (vc : list cid) (u : upd) : (list Z * list ucol) + why :=
  match u with
  | UNotPandas => inr WNotPandas
  | USeries name dt idx vals =>
      match name with
      | Some c => if zmem c vc then inl (idx, [mkucol c dt vals]) else inr WExtraCols
      | None => match vc with
                | [c] => inl (idx, [mkucol c dt vals])
                | _ => inr WUnnamed
                end
      end
  | UFrame idx cols =>
      if negb (forallb (fun c => zmem c vc) (unames cols)) then inr WExtraCols
      else if is_nil cols then inr WNoCols
      else inl (idx, cols)
  end.

(* the iteration order of list(set(update) <op> state_table): [ord] is what the interpreter did (any list at all may
   be passed); whatever is passed, every relevant column is visited exactly once *)
Definition order_by (ord : list cid) (names : list cid) : list cid :=
  dedup (filter (fun c => zmem c names) ord ++ filter (fun c => negb (zmem c ord)) names).

(* Series.equals(state_table[column]) : same index (labels, order), same dtype, same values (NaN equal to NaN).
   Object arrays are compared element-wise with Python's ==, for which True == 1 == 1.0 and False == 0 == 0.0. *)
Definition py_num (c : cell) : option Z :=
  match c with Bv b => Some (if b then 2 else 0) | Iv z => Some (2 * z) | Fv z => Some z | _ => None end.
Definition cell_pyeqb (a b : cell) : bool :=
  match py_num a, py_num b with
  | Some x, Some y => x =? y
  | _, _ => cell_eqb a b
  end.
Definition values_equal (d : dtype) (a b : list cell) : bool :=
  match d with DObj => list_eqb cell_pyeqb a b | _ => cells_eqb a b end.
Definition series_equals_col (t : table) (idx : list Z) (u : ucol) : bool :=
  match find_col (tcols t) (uname u) with
  | Some k => zlist_eqb idx (labels t) && dtype_eqb (udt u) (cdt k) && values_equal (cdt k) (ucells u) (ccells k)
  | None => false
  end.

(* _ensure_coherent_initialization *)
Definition check_creating (t : table) (idx : list Z) (us : list ucol) : option why :=
  if existsb (fun l => negb (zmem l idx)) (labels t) then Some WMissingRows
  else if forallb (fun u => has_col t (uname u)) us then Some WNoNewCols
  else if existsb (fun u => has_col t (uname u) && negb (series_equals_col t idx u)) us then Some WInitConflict
  else None.

(* lines 325-339: values already present for the addressed rows must be repeated exactly *)
Definition add_conflict (t : table) (idx : list Z) (u : ucol) : bool :=
  match find_col (tcols t) (uname u) with
  | Some k =>
      let cur := map (cell_of k) idx in
      existsb notnull cur && negb (dtype_eqb (udt u) (cdt k) && values_equal (cdt k) (ucells u) cur)
  | None => false
  end.

Definition check_steady (t : table) (f : flags) (idx : list Z) (us : list ucol) : option why :=
  if negb (forallb (fun u => has_col t (uname u)) us) then Some WNewCols
  else if adding f && existsb (add_conflict t idx) us then Some WAddConflict
  else None.

(* int64 -> float64 is round-to-nearest-even: exact up to 2^53 in magnitude, lossy beyond *)
Definition TWO53 : Z := 9007199254740992.
Definition f64_of_int (z : Z) : Z :=
  let a := Z.abs z in
  if a <=? TWO53 then z else
  let m := 2 ^ (Z.log2 a - 52) in
  let q := a / m in let r := a mod m in let h := m / 2 in
  Z.sgn z * ((if (h <? r) || ((r =? h) && Z.odd q) then q + 1 else q) * m).

(* ---- the dtype rule of _update_column_and_ensure_dtype, measured on pandas 3.0.6 / numpy 1.26.4 ---- *)
Definition truthy (c : cell) : option bool :=
  match c with Bv b => Some b | Iv z | Fv z => Some (negb (z =? 0)) | Null => Some true | _ => None end.
Inductive castres := CastOk (c : cell) | CastRaise | CastUnmodelled.
(* ndarray.astype(d) / setitem into an array of dtype d, cell-wise, inside the family bool/int64/float64/object *)
Definition cast_cell (d : dtype) (c : cell) : castres :=
  match d with
  | DBool => match truthy c with Some b => CastOk (Bv b) | None => CastUnmodelled end
  | DInt => match c with
            | Null => CastRaise                                          (* cannot convert NaN to integer *)
            | Bv b => CastOk (Iv (if b then 1 else 0)) | Iv z => CastOk (Iv z) | Fv z => CastOk (Iv (Z.quot z 2))
            | Sv _ => CastRaise                                          (* invalid literal for int() *)
            | _ => CastUnmodelled
            end
  | DFloat => match c with
              | Null => CastOk Null | Bv b => CastOk (Fv (if b then 2 else 0)) | Iv z => CastOk (Fv (2 * f64_of_int z)) | Fv z => CastOk (Fv z)
              | Sv _ => CastRaise                                        (* could not convert string to float *)
              | _ => CastUnmodelled
              end
  | DObj => CastOk c                                                     (* an object array holds anything *)
  | DTime | DTimeNs =>                                                   (* whole days: the unit changes no value *)
      match c with
      | Tv z => CastOk (Tv z) | Null => CastOk Null
      | Bv _ => CastRaise                                                (* <class 'bool'> is not convertible to datetime *)
      | _ => CastUnmodelled                                              (* numbers become offsets from the epoch *)
      end
  | DStr => CastUnmodelled                                               (* str(value) of every cell *)
  end.
Fixpoint cast_cells (d : dtype) (cs : list cell) : list cell + outcome :=
  match cs with
  | [] => inl []
  | c :: r =>
      match cast_cell d c, cast_cells d r with
      | CastOk c', inl r' => inl (c' :: r')
      | CastRaise, _ => inr (Fail WCast)
      | CastUnmodelled, _ => inr Unmodelled
      | _, inr o => inr o
      end
  end.
Definition numeric (d : dtype) : bool := match d with DBool | DInt | DFloat | DObj => true | _ => false end.
Definition is_time (d : dtype) : bool := match d with DTime | DTimeNs => true | _ => false end.
Definition is_sv (c : cell) : bool := match c with Sv _ => true | _ => false end.
Definition str_like (c : cell) : bool := match c with Sv _ | Null => true | _ => false end.
Definition time_like (c : cell) : bool := match c with Tv _ | Null => true | _ => false end.
(* the (column dtype, update dtype) pairs transcribed as coerce - write - cast the whole column *)
Definition cast_family (dc du : dtype) : bool :=
  (numeric dc && (numeric du || is_time du)) || (is_time dc && is_time du).

(* new column for one update column: positional write into a copy, dtype kept or the update rejected; while simulants
   are being added ANY dtype is accepted and the WHOLE column is cast to the update's dtype (finding F-L).  Measured
   (pandas 3.0.6): a str array refuses anything but strings and a datetime array anything but datetimes (TypeError);
   strings do not go into a numeric array (ValueError); datetime64[us] <-> [ns] and object <-> anything are cast. *)
Definition build_col (addingf : bool) (k : column) (idx : list Z) (u : ucol) : column + outcome :=
  if dtype_eqb (udt u) (cdt k) then inl (mkcol (cname k) (cdt k) (write_cells (cdt k) (ccells k) idx (ucells u)))
  else if negb addingf then inr (Fail WDtype)
  else match cdt k, udt u with
       | DStr, _ => if forallb str_like (ucells u) then inr Unmodelled else inr (Fail WDtype)
       | DInt, DStr | DFloat, DStr => if existsb is_sv (ucells u) then inr (Fail WCast) else inr Unmodelled
       | dc, du =>
           if is_time dc && negb (is_time du) then
             (if forallb time_like (ucells u) then inr Unmodelled else inr (Fail WDtype))
           else if cast_family dc du then
             match cast_cells dc (ucells u) with           (* setitem coerces the new values to the array's dtype *)
             | inl vals =>
                 match cast_cells du (write_cells dc (ccells k) idx vals) with   (* .astype(update dtype), whole column *)
                 | inl cs => inl (mkcol (cname k) du cs)
                 | inr o => inr o
                 end
             | inr o => inr o
             end
           else inr Unmodelled
       end.

(* all new columns first (every dtype check), in the iteration order [cs] *)
Fixpoint build_all (addingf : bool) (t : table) (idx : list Z) (us : list ucol) (cs : list cid) : list column + outcome :=
  match cs with
  | [] => inl []
  | c :: r =>
      match find_col (tcols t) c, find_ucol us c with
      | Some k, Some u =>
          match build_col addingf k idx u with
          | inl k' => match build_all addingf t idx us r with inl ks => inl (k' :: ks) | inr o => inr o end
          | inr o => inr o
          end
      | _, _ => build_all addingf t idx us r
      end
  end.

Definition set_cols (t : table) (cs : list column) : table := mktbl (tn t) cs.

(* initial creation: self._manager.population[new_columns] = population_update[new_columns]; each column is aligned
   on the table's index (reindex raises on duplicate labels) *)
Definition align (t : table) (idx : list Z) (vals : list cell) : list cell :=
  map (fun l => match last_pair l (combine idx vals) None with Some v => v | None => Null end) (labels t).
Definition assign_new (t : table) (idx : list Z) (us : list ucol) (cs : list cid) : list column :=
  fold_left (fun acc c => match find_ucol us c with
                          | Some u => put_col acc (mkcol c (udt u) (align t idx (ucells u)))
                          | None => acc end) cs (tcols t).

Definition update_checked (t : table) (v : view) (f : flags) (u : upd) : (list Z * list ucol) + why :=
  if creating f && negb (adding f) then inr WAssert else                                     (* line 300 *)
  match coerce (view_columns t v) u with
  | inr w => inr w
  | inl (idx, us) =>
      if existsb (fun l => negb (has_label t l)) idx then inr WUnknownRows else              (* 307-313 *)
      match (if creating f then check_creating t idx us else check_steady t f idx us) with
      | Some w => inr w
      | None => inl (idx, us)
      end
  end.

(* PopulationView.update as it is now: every column is built (validated) before any is assigned.
   A frame with a repeated column name passes the structural checks and is rejected when its columns are used, always
   before anything is written (update[column] is then a frame, not a series: AttributeError / ValueError): [WDupCols];
   with an empty index in steady state nothing is used and nothing happens. *)
Definition update (t : table) (v : view) (f : flags) (ord : list cid) (u : upd) : table * outcome :=
  match update_checked t v f u with
  | inr w => (t, Fail w)
  | inl (idx, us) =>
      if creating f then
        if negb (nodupb (unames us)) then (t, Fail WDupCols)
        else if negb (nodupb idx) then (t, Fail WDupIndex)
        else (set_cols t (assign_new t idx us (order_by ord (filter (fun c => negb (has_col t c)) (unames us)))), Pass)
      else if is_nil idx then (t, Pass)                                                      (* population_update.empty *)
      else if negb (nodupb (unames us)) then (t, Fail WDupCols)
      else match build_all (adding f) t idx us (order_by ord (filter (has_col t) (unames us))) with
           | inl ks => (set_cols t (fold_left put_col ks (tcols t)), Pass)
           | inr o => (t, o)
           end
  end.

(* ---- the loop before the F-D repair (commit cbcd0839): build a column, assign it immediately, go on ---- *)
Fixpoint loop_interleaved (addingf : bool) (t0 : table) (idx : list Z) (us : list ucol) (cs : list cid)
         (cur : list column) : list column * outcome :=
  match cs with
  | [] => (cur, Pass)
  | c :: r =>
      match find_col (tcols t0) c, find_ucol us c with
      | Some k, Some u =>
          match build_col addingf k idx u with
          | inl k' => loop_interleaved addingf t0 idx us r (put_col cur k')
          | inr o => (cur, o)                          (* the exception leaves the columns assigned so far *)
          end
      | _, _ => loop_interleaved addingf t0 idx us r cur
      end
  end.
Definition update_interleaved (t : table) (v : view) (f : flags) (ord : list cid) (u : upd) : table * outcome :=
  match update_checked t v f u with
  | inr w => (t, Fail w)
  | inl (idx, us) =>
      if creating f then update t v f ord u
      else if is_nil idx then (t, Pass)
      else if negb (nodupb (unames us)) then (t, Fail WDupCols)
      else let '(cs, o) := loop_interleaved (adding f) t idx us (order_by ord (filter (has_col t) (unames us))) (tcols t) in
           (set_cols t cs, o)
  end.

Definition is_pass (o : outcome) : bool := match o with Pass => true | _ => false end.

(* ================================================================================================================ *)
(** * The population manager: creation of simulants *)

Record pstate := mkpstate { ptbl : option table (* None: _population is None *); pflags : flags }.
Definition init_pstate : pstate := mkpstate None steady.
Definition cur_table (st : pstate) : table := match ptbl st with Some t => t | None => empty_table end.
Definition nrows (st : pstate) : nat := tn (cur_table st).

(* DataFrame.reindex(range(n + count)): old rows kept, new rows null; introducing nulls promotes bool -> object and
   int64 -> float64 (count = 0 introduces none and promotes nothing) *)
Definition promote (d : dtype) : dtype := match d with DBool => DObj | DInt => DFloat | d => d end.
Definition promote_cell (d : dtype) (c : cell) : cell :=
  match d, c with DInt, Iv z => Fv (2 * f64_of_int z) | _, _ => c end.
Definition reindex (t : table) (count : nat) : table :=
  match count with
  | O => t
  | _ => mktbl (tn t + count)
               (map (fun k => mkcol (cname k) (promote (cdt k))
                                    (map (promote_cell (cdt k)) (ccells k) ++ repeat Null count)) (tcols t))
  end.

Record simdata := mksimdata { sd_index : list Z; sd_user : Z; sd_time : Z; sd_step : Z }.

(* What an initializer does with the table: view updates, each chosen knowing the table and the outcomes so far (a
   strategy tree: [k] receives the table after the update and its outcome).  An update that raises is caught by the
   initializer itself unless [a_propagate]. *)
Record uaction := mkuaction { a_view : view; a_ord : list cid; a_upd : upd; a_propagate : bool }.
Inductive istrat := IDone | IAct (a : uaction) (k : table -> outcome -> istrat).
Definition initializer := simdata -> table -> istrat.
Fixpoint of_list (acts : list uaction) : istrat :=
  match acts with [] => IDone | a :: r => IAct a (fun _ _ => of_list r) end.

(* run one initializer's updates under the flags; (table, did an exception propagate?) *)
Fixpoint run_strat (f : flags) (t : table) (s : istrat) : table * bool :=
  match s with
  | IDone => (t, false)
  | IAct a k =>
      let '(t', o) := update t (a_view a) f (a_ord a) (a_upd a) in
      if negb (is_pass o) && a_propagate a then (t', true) else run_strat f t' (k t' o)
  end.

Fixpoint run_inits (f : flags) (t : table) (sd : simdata) (inits : list initializer)
  : table * bool * list simdata :=
  match inits with
  | [] => (t, false, [])
  | i :: r =>
      let '(t', raised) := run_strat f t (i sd t) in
      if raised then (t', true, [sd])
      else let '(t'', raised', log) := run_inits f t' sd r in (t'', raised', sd :: log)
  end.

(* PopulationManager._create_simulants.  Result: new state, the returned labels (Rejected: an initializer's exception
   propagated - the rows stay, the flags stay set: they are not cleared in a `finally`), the SimulantData seen by the
   initializers called *)
Definition new_labels (n count : nat) : list Z := map Z.of_nat (seq n count).
Definition create (st : pstate) (count : nat) (user clock step : Z) (inits : list initializer)
  : pstate * result (list Z) * list simdata :=
  let first := match ptbl st with None => true | Some _ => false end in
  let t0 := cur_table st in
  let f := mkflags (first || creating (pflags st)) true in
  let t1 := reindex t0 count in
  let sd := mksimdata (new_labels (tn t0) count) user clock step in
  let '(t2, raised, log) := run_inits f t1 sd inits in
  if raised then (mkpstate (Some t2) f, Rejected EOther, log)
  else (mkpstate (Some t2) steady, Ok (new_labels (tn t0) count), log).

(* the manager's own initializer (on_initialize_simulants): tracked = True for the new simulants, through the
   one-column view ["tracked"], as an UNNAMED bool Series; its exception (if any) propagates *)
Definition tracked_view : view := mkview [TRACKED].
Definition tracked_upd (idx : list Z) : upd := USeries None DBool idx (map (fun _ => Bv true) idx).
Definition tracked_initializer : initializer :=
  fun sd _ => of_list [mkuaction tracked_view [TRACKED] (tracked_upd (sd_index sd)) true].

(* ================================================================================================================ *)
(** * Histories *)

Inductive op :=
  | OpUpdate (v : view) (ord : list cid) (u : upd)
  | OpRead                                            (* get_population / view.get: no effect on the state *)
  | OpCreate (count : nat) (user clock step : Z) (inits : list initializer).

Inductive response :=
  | RUpdate (o : outcome)
  | RRead (t : table)
  | RCreate (r : result (list Z)) (log : list simdata).

Definition step (st : pstate) (o : op) : pstate * response :=
  match o with
  | OpUpdate v ord u =>
      let '(t', out) := update (cur_table st) v (pflags st) ord u in
      (match ptbl st with
       | None => st          (* _population is None: every update is rejected (PopulationProofs.update_none_rejected) *)
       | Some _ => mkpstate (Some t') (pflags st)     (* whatever [update] left behind, accepted or not *)
       end, RUpdate out)
  | OpRead => (st, RRead (cur_table st))
  | OpCreate count user clock stp inits =>
      let '(st', r, log) := create st count user clock stp inits in (st', RCreate r log)
  end.

Fixpoint run (st : pstate) (ops : list op) : pstate :=
  match ops with [] => st | o :: r => run (fst (step st o)) r end.
Fixpoint responses (st : pstate) (ops : list op) : list response :=
  match ops with [] => [] | o :: r => snd (step st o) :: responses (fst (step st o)) r end.

(* the operations that had an effect: successful updates and creations *)
Definition effective_op (st : pstate) (o : op) : bool :=
  match o, snd (step st o) with
  | OpUpdate _ _ _, RUpdate out => is_pass out
  | OpCreate _ _ _ _ _, _ => true
  | _, _ => false
  end.
Fixpoint effective (st : pstate) (ops : list op) : list op :=
  match ops with
  | [] => []
  | o :: r => if effective_op st o then o :: effective (fst (step st o)) r else effective (fst (step st o)) r
  end.

(* the label lists of the creations of a history, in order *)
Fixpoint created (st : pstate) (ops : list op) : list (list Z) :=
  match ops with
  | [] => []
  | o :: r =>
      (match o with
       | OpCreate count _ _ _ _ => [new_labels (nrows st) count]
       | _ => []
       end) ++ created (fst (step st o)) r
  end.

(* ================================================================================================================ *)
(** * Correspondence with the implementation (harness/props/popdrv.py drives a real InteractiveContext) *)

(* views are described by how they were obtained *)
Inductive vspec := VBase (cols : list cid) | VSub (p : vspec) (cols : list cid).
Fixpoint resolve (t : table) (s : vspec) : result view :=
  match s with
  | VBase cols => Ok (mkview cols)
  | VSub p cols => match resolve t p with Ok v => subview t v cols | other => other end
  end.

(* tables are compared up to column order *)
Fixpoint insert_col (k : column) (cs : list column) : list column :=
  match cs with
  | [] => [k]
  | x :: r => if cname k <=? cname x then k :: x :: r else x :: insert_col k r
  end.
Definition sort_cols (cs : list column) : list column := fold_right insert_col [] cs.
Definition table_eqb (a b : table) : bool :=
  Nat.eqb (tn a) (tn b) && list_eqb column_eqb (sort_cols (tcols a)) (sort_cols (tcols b)).

Inductive tobs := TSame | TNew (t : table) | TUnobserved.
Inductive xact :=
  (* observed code: 0 accepted, 1 PopulationError, 2 TypeError, 3 other; [prop]: the exception is NOT caught by the
     initializer issuing the update (it propagates out of _create_simulants) *)
  | AUpdate (s : vspec) (ord : list cid) (u : upd) (prop : bool) (code : Z)
  | ARead                                                            (* a read (or nothing): the table is observed *)
  | AUnobserved (s : vspec) (ord : list cid) (u : upd)                (* the manager's own initializer *)
  | ARefused.     (* the manager's own update is refused by the life cycle (creation requested from a post_setup /
                     simulation_end listener, or after the simulation has ended): it raises before anything is written *)
Definition refused_action : uaction := mkuaction (mkview []) [] UNotPandas true.   (* an update that raises, uncaught *)
Definition act_rec := (xact * tobs)%type.
Inductive xop :=
  | XAct (a : act_rec)
  | XCreate (count : nat) (user clock step : Z) (scripts : list (list act_rec))
            (code : Z) (labels : list Z) (log : list simdata) (after : tobs).

(* the property only says "rejected": the exception class is not compared *)
Definition code_matches (o : outcome) (code : Z) : bool :=
  match o with
  | Pass => code =? 0
  | Fail _ => negb (code =? 0)
  | Unmodelled => false
  end.
Definition rcode {A} (r : result A) : Z :=
  match r with Ok _ => 0 | Rejected EPopulation => 1 | Rejected _ => 3 | OutOfFuel => 4 end.
Definition simdata_eqb (a b : simdata) : bool :=
  zlist_eqb (sd_index a) (sd_index b) && (sd_user a =? sd_user b) && (sd_time a =? sd_time b) && (sd_step a =? sd_step b).

(* compare the model's table with the last observed one *)
Definition obs_ok (t : table) (last : table) (o : tobs) : bool * table :=
  match o with
  | TSame => (table_eqb t last, last)
  | TNew t' => (table_eqb t t', t')
  | TUnobserved => (true, t)
  end.

(* result of replaying one recorded action: agreement, model table, last observation, the resolved update (fed to
   [create] afterwards), did an exception propagate *)
Record act_out := mkout { o_ok : bool; o_tbl : table; o_last : table; o_acts : list uaction; o_raised : bool }.

Definition run_act (f : flags) (t last : table) (a : act_rec) : act_out :=
  let '(x, o) := a in
  match x with
  | AUpdate s ord u prop code =>
      match resolve t s with
      | Ok v =>
          let '(t', out) := update t v f ord u in
          let '(okt, last') := obs_ok t' last o in
          mkout (code_matches out code && okt) t' last' [mkuaction v ord u prop] (negb (is_pass out) && prop)
      | _ => let '(okt, last') := obs_ok t last o in                  (* subview() refused: nothing is updated *)
             mkout (negb (code =? 0) && okt && negb prop) t last' [] false
      end
  | AUnobserved s ord u =>
      match resolve t s with
      | Ok v => let '(t', out) := update t v f ord u in
                let '(okt, last') := obs_ok t' last o in mkout (is_pass out && okt) t' last' [mkuaction v ord u true] false
      | _ => mkout false t last [] false
      end
  | ARead => let '(okt, last') := obs_ok t last o in mkout okt t last' [] false
  | ARefused => let '(okt, last') := obs_ok t last o in mkout okt t last' [refused_action] true
  end.

Fixpoint run_acts (f : flags) (t last : table) (acts : list act_rec) : act_out :=
  match acts with
  | [] => mkout true t last [] false
  | a :: r =>
      let o1 := run_act f t last a in
      if o_raised o1 then mkout (o_ok o1 && is_nil r) (o_tbl o1) (o_last o1) (o_acts o1) true
      else let o2 := run_acts f (o_tbl o1) (o_last o1) r in
           mkout (o_ok o1 && o_ok o2) (o_tbl o2) (o_last o2) (o_acts o1 ++ o_acts o2) (o_raised o2)
  end.
(* the scripts of the initializers, in call order; returns also the resolved action lists, one per initializer *)
Fixpoint run_scripts (f : flags) (t last : table) (scripts : list (list act_rec))
  : bool * table * table * list (list uaction) * bool :=
  match scripts with
  | [] => (true, t, last, [], false)
  | s :: r =>
      let o1 := run_acts f t last s in
      if o_raised o1 then (o_ok o1 && is_nil r, o_tbl o1, o_last o1, [o_acts o1], true)
      else let '(ok2, t2, last2, acts2, raised2) := run_scripts f (o_tbl o1) (o_last o1) r in
           (o_ok o1 && ok2, t2, last2, o_acts o1 :: acts2, raised2)
  end.

(* the history of one real simulation: model state, last observed table.  A creation is replayed twice: action by
   action against the per-action observations, and through [create] (the function the theorems are about) with the
   initializers the scripts denote; both must give the same state.  A top-level action goes through [step]. *)
Fixpoint run_case (st : pstate) (last : table) (ops : list xop) : bool :=
  match ops with
  | [] => true
  | XAct a :: r =>
      let o1 := run_act (pflags st) (cur_table st) last a in
      let st' := fold_left (fun s ua => fst (step s (OpUpdate (a_view ua) (a_ord ua) (a_upd ua)))) (o_acts o1) st in
      o_ok o1 && table_eqb (cur_table st') (o_tbl o1) && run_case st' (o_last o1) r
  | XCreate count user clock stp scripts code labs log after :: r =>
      let first := match ptbl st with None => true | Some _ => false end in
      let f := mkflags (first || creating (pflags st)) true in
      let '(ok1, t2, last1, acts, raised) := run_scripts f (reindex (cur_table st) count) last scripts in
      let '(okt, last2) := obs_ok t2 last1 after in
      let '(st', res, log') := create st count user clock stp (map (fun a => (fun _ _ => of_list a) : initializer) acts) in
      ok1 && okt && table_eqb (cur_table st') t2 && Bool.eqb raised (negb (code =? 0))
      && match res with Ok l => (code =? 0) && zlist_eqb l labs | _ => negb (code =? 0) end
      && list_eqb simdata_eqb log' log
      && run_case st' last2 r
  end.

Definition pop_case := list xop.
Definition check_pop (c : pop_case) : bool := run_case init_pstate empty_table c.
