(* Model of vivarium/framework/lifecycle.py: LifeCycleState / LifeCyclePhase / LifeCycle / LifeCycleManager.set_state
   (DESIGN.md C06).  State and phase names are numbers (the harness interns the strings).

   lifecycle.py anchors:
     LifeCycleState.add_next / valid_next_state   -> [nxt], [lnxt] association lists, [valid_next]
     LifeCyclePhase.__init__ / add_next           -> [chain], loop link, phase link in [add_phase]
     LifeCycle._validate / add_phase / get_state  -> [validate], [add_phase], [known]
     LifeCycleManager.__init__ / set_state        -> [mk_manager], [set_state]                                  *)
From Viv Require Import Common.
Local Open Scope Z_scope.

Definition sid := Z.
Definition amap := list (sid * sid).           (* attribute assignment: the latest binding wins *)

Fixpoint lookup (m : amap) (s : sid) : option sid :=
  match m with [] => None | (a, b) :: r => if a =? s then Some b else lookup r s end.

(* LifeCyclePhase.__init__: states[i]._next = states[i+1] *)
Fixpoint chain (sts : list sid) (m : amap) : amap :=
  match sts with
  | a :: ((b :: _) as r) => chain r ((a, b) :: m)
  | _ => m
  end.

Definition first_of (sts : list sid) : option sid := match sts with [] => None | x :: _ => Some x end.
Definition last_of (sts : list sid) : option sid := first_of (rev sts).

Definition phase := (list sid * bool)%type.     (* states in order, loop flag *)

Record lifecycle := {
  ph_names : list Z;          (* LifeCycle._phase_names *)
  phs : list phase;           (* LifeCycle._phases, in order of addition *)
  nxt : amap;                 (* LifeCycleState._next of every state *)
  lnxt : amap                 (* LifeCycleState._loop_next *)
}.

Definition empty_lc : lifecycle := {| ph_names := []; phs := []; nxt := []; lnxt := [] |}.
Definition states_of (l : lifecycle) : list sid := flat_map fst (phs l).   (* LifeCycle._state_names *)
Definition known (l : lifecycle) (s : sid) : bool := zmem s (states_of l).

Fixpoint nodupb (l : list Z) : bool :=
  match l with [] => true | x :: r => negb (zmem x r) && nodupb r end.

(* LifeCycle._validate; every failure is a LifeCycleError (EUnknownState stands for the base class) *)
Definition validate (l : lifecycle) (name : Z) (sts : list sid) : bool :=
  negb (zmem name (ph_names l)) && nodupb sts && negb (existsb (fun s => known l s) sts).

(* LifeCycle.add_phase.  An empty state list makes LifeCyclePhase.__init__ raise IndexError before anything is
   recorded (EOther). *)
Definition add_phase (l : lifecycle) (name : Z) (sts : list sid) (lp : bool) : result lifecycle :=
  if negb (validate l name sts) then Rejected EUnknownState else
  match sts with
  | [] => Rejected EOther
  | a :: _ =>
    let n1 := chain sts (nxt l) in
    let ln := match lp, last_of sts with true, Some z => (z, a) :: lnxt l | _, _ => lnxt l end in
    let n2 := match last_of (states_of l) with Some z => (z, a) :: n1 | None => n1 end in
    Ok {| ph_names := name :: ph_names l; phs := phs l ++ [(sts, lp)]; nxt := n2; lnxt := ln |}
  end.

(* LifeCycleState.valid_next_state (for a non-None state): identity with _next or _loop_next *)
Definition valid_next (l : lifecycle) (cur new : sid) : bool :=
  match lookup (nxt l) cur with Some x => x =? new | None => false end
  || match lookup (lnxt l) cur with Some x => x =? new | None => false end.

(* ---- manager ---- *)
Record manager := { lc : lifecycle; cur : sid; entered : list sid (* history of states entered, latest first *) }.

Definition count_of (s : sid) (h : list sid) : Z := Z.of_nat (length (filter (Z.eqb s) h)).

Inductive outcome := Accepted | Refused (e : err).

(* LifeCycleManager.set_state: look the name up, validate, only then mutate *)
Definition set_state (m : manager) (s : sid) : manager * outcome :=
  if negb (known (lc m) s) then (m, Refused EUnknownState)
  else if valid_next (lc m) (cur m) s
       then ({| lc := lc m; cur := s; entered := s :: entered m |}, Accepted)
       else (m, Refused EInvalidTransition).

(* LifeCycleManager.add_phase on the manager *)
Definition m_add_phase (m : manager) (name : Z) (sts : list sid) (lp : bool) : manager * outcome :=
  match add_phase (lc m) name sts lp with
  | Ok l' => ({| lc := l'; cur := cur m; entered := entered m |}, Accepted)
  | Rejected e => (m, Refused e)
  | OutOfFuel => (m, Refused EOther)
  end.

(* LifeCycle.__init__ adds phase "initialization" = [initialization]; the manager starts there (not "entered") *)
Definition init_lc (init_phase : Z) (init_state : sid) : lifecycle :=
  match add_phase empty_lc init_phase [init_state] false with Ok l => l | _ => empty_lc end.
Definition mk_manager (init_phase : Z) (init_state : sid) : manager :=
  {| lc := init_lc init_phase init_state; cur := init_state; entered := [] |}.

(* a sequence of add_phase attempts; rejected ones leave the life cycle as it was *)
Fixpoint build_phases (ps : list (Z * list sid * bool)) (l : lifecycle) : lifecycle :=
  match ps with
  | [] => l
  | (n, sts, lp) :: r =>
      match add_phase l n sts lp with Ok l' => build_phases r l' | _ => build_phases r l end
  end.

(* ---- declarative specification of the legal order ---- *)
Definition flat (ps : list phase) : list sid := flat_map fst ps.
Definition follows (l : list sid) (s s' : sid) : Prop := exists l1 l2, l = l1 ++ s :: s' :: l2.
Definition legal_succ (ps : list phase) (s s' : sid) : Prop :=
  follows (flat ps) s s' \/
  exists sts, In (sts, true) ps /\ last_of sts = Some s /\ first_of sts = Some s'.

(* ---- correspondence: stand-alone managers with generated life cycles and request sequences ----
   A case = the add_phase attempts (with the implementation's outcome code) followed by the set_state requests
   (with outcome code, the state current afterwards, and the entrance count of that state afterwards).
   codes: 0 accepted, 1 InvalidTransitionError, 2 other LifeCycleError, 3 anything else                       *)
Definition code_of (o : outcome) : Z :=
  match o with
  | Accepted => 0
  | Refused EInvalidTransition => 1
  | Refused EUnknownState => 2
  | Refused _ => 3
  end.

Definition phase_attempt := (Z * list sid * bool * Z)%type.        (* name, states, loop, observed code *)
Definition request := (sid * Z * sid * Z)%type.                    (* state, observed code, observed current, observed count *)
Definition lc_case := (list phase_attempt * list request)%type.

Fixpoint run_phases (m : manager) (ps : list phase_attempt) : option manager :=
  match ps with
  | [] => Some m
  | (name, sts, lp, code) :: r =>
    let '(m', o) := m_add_phase m name sts lp in
    if code_of o =? code then run_phases m' r else None
  end.

Fixpoint run_requests (m : manager) (rs : list request) : bool :=
  match rs with
  | [] => true
  | (s, code, c, n) :: r =>
    let '(m', o) := set_state m s in
    (code_of o =? code) && (cur m' =? c) && (count_of c (entered m') =? n) && run_requests m' r
  end.

Definition check_lc (c : lc_case) : bool :=
  match run_phases (mk_manager 0 0) (fst c) with
  | Some m => run_requests m (snd c)
  | None => false
  end.
