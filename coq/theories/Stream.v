(* Model of vivarium/framework/randomness/stream.py  RandomnessStream._key / get_draw, of
   randomness/index_map.py IndexMap.__getitem__ and of the seed string built in randomness/manager.py
   (DESIGN.md section 5, C02).

   Anchors (line numbers of /repo/src/vivarium/framework/randomness, see tools/strip.py):
     stream.py 125-137  _key            -> [seed_string] = "_".join([key, str(clock()), str(additional_key), str(seed)])
     manager.py 41-43   setup           -> [manager_seed] = str(random_seed) + str(additional_seed)   (no separator:
                                           open finding F-O, see C02_seed_concat_alias_refuted and the guarded theorem)
     index_map.py 251-258 __getitem__   -> [lookup_label]  (`_map.loc[index]` with CRN, `index.values` without)
     stream.py 196-197  raw_draws[draw_index]  -> [np_index]  (numpy indexing: negative indices wrap, else IndexError)
     stream.py 139-199  get_draw        -> [get_draw]  (166-167 empty index first; 172-173 fresh RandomState per call;
                                           181-182 one block of len(index_map) draws; 184-191 positional opt-out)
     manager.py 122-138 _get_randomness_stream -> every stream of a manager shares ONE IndexMap, clock and seed

   Conventions (DESIGN.md section 4): labels and positions are Z; a draw is the NUMERATOR over 2^53 of the double
   returned by RandomState.random_sample (every such double is k/2^53, 0 <= k < 2^53); a Python str is the list of
   its code points.  The block of raw draws is external: [block k p] is element p of
   RandomState(sha1(k) mod (2^32-1)).random_sample(size) - a Section variable, never unfolded (the first p elements of
   a Mersenne-Twister sample do not depend on the sample size).  The stream has NO state: that the implementation has
   none either (a fresh RandomState per call) is what the history part of the correspondence checks.             *)
From Viv Require Import Common.
Local Open Scope Z_scope.

Definition label := Z.
Definition str := list Z.

(* ------------------------------------------------------------------------------------------------------------
   the seed string
   ------------------------------------------------------------------------------------------------------------ *)
Record seedkey := { sk_key : str; sk_clock : str; sk_addl : str; sk_seed : str }.

Definition underscore : Z := 95.
Definition join4 (s : Z) (k : seedkey) : str := sk_key k ++ s :: sk_clock k ++ s :: sk_addl k ++ s :: sk_seed k.
Definition seed_string (k : seedkey) : str := join4 underscore k.

(* RandomnessManager.setup: self._seed = str(random_seed); if additional_seed is not None: += str(additional_seed) *)
Definition manager_seed (random_seed : str) (additional_seed : option str) : str :=
  match additional_seed with None => random_seed | Some a => random_seed ++ a end.

Definition str_eqb : str -> str -> bool := zlist_eqb.
Definition seedkey_eqb (a b : seedkey) : bool :=
  str_eqb (sk_key a) (sk_key b) && str_eqb (sk_clock a) (sk_clock b) &&
  str_eqb (sk_addl a) (sk_addl b) && str_eqb (sk_seed a) (sk_seed b).

(* ------------------------------------------------------------------------------------------------------------
   the index map as seen by __getitem__ (its update logic is C03's model, IndexMap.v)
   ------------------------------------------------------------------------------------------------------------ *)
Inductive imap :=
  | NoCRN (size : Z)                                   (* key_columns empty: _use_crn = False *)
  | CRN (size : Z) (m : option (list (label * Z))).    (* _map : None before the first registration *)

Definition size_of (im : imap) : Z := match im with NoCRN s => s | CRN s _ => s end.

(* numpy integer indexing into an array of length [size] *)
Definition np_index (size p : Z) : result Z :=
  if (0 <=? p) && (p <? size) then Ok p
  else if (- size <=? p) && (p <? 0) then Ok (p + size)
  else Rejected EOther.                                (* IndexError *)

(* IndexMap.__getitem__ for one label *)
Definition lookup_label (im : imap) (l : label) : result Z :=
  match im with
  | NoCRN _ => Ok l                                    (* index.values *)
  | CRN _ None => Rejected ERandomness                 (* "IndexMap is empty" *)
  | CRN _ (Some m) => match zassoc l m with Some p => Ok p | None => Rejected EOther (* KeyError *) end
  end.

Definition bind {A B} (r : result A) (f : A -> result B) : result B :=
  match r with Ok a => f a | Rejected e => Rejected e | OutOfFuel => OutOfFuel end.

(* position in the raw block used for label l *)
Definition pos (im : imap) (l : label) : result Z := bind (lookup_label im l) (np_index (size_of im)).

Fixpoint mapM {A B} (f : A -> result B) (l : list A) : result (list B) :=
  match l with
  | [] => Ok []
  | x :: r => bind (f x) (fun y => bind (mapM f r) (fun ys => Ok (y :: ys)))
  end.

Fixpoint zseq (start : Z) (n : nat) : list Z :=
  match n with O => [] | S k => start :: zseq (start + 1) k end.

Definition two53 : Z := 9007199254740992.

Section Draws.
  Variable K : Type.                       (* what identifies a block: the seed string (theorems) / an id (cases) *)
  Variable block : K -> Z -> Z.

  Definition draw1 (im : imap) (k : K) (l : label) : result Z := bind (pos im l) (fun p => Ok (block k p)).

  (* get_draw, stream.py 139-199 *)
  Definition get_draw (crn_init : bool) (im : imap) (k : K) (idx : list label) : result (list Z) :=
    match idx with
    | [] => Ok []                                                         (* 166-167: before anything else *)
    | _ =>
      if crn_init
      then (* 191: pd.Series(raw_draws[:len(index)], index=index); a block shorter than the index: ValueError *)
           if Z.of_nat (length idx) <=? size_of im then Ok (map (block k) (zseq 0 (length idx)))
           else Rejected EOther
      else mapM (draw1 im k) idx                                          (* 196-197 *)
    end.

  (* sample_from_distribution, stream.py 320-359: ppf applied to ONE get_draw (the quantile function is external) *)
  Definition sample_from (ppf : Z -> Z) (crn_init : bool) (im : imap) (k : K) (idx : list label) : result (list Z) :=
    bind (get_draw crn_init im k idx) (fun ds => Ok (map ppf ds)).

  (* ---- histories: what a manager's randomness state is, and what calls do to it ----
     The only state is the shared IndexMap.  Every stream call (get_draw, filter_for_probability, filter_for_rate,
     choice, sample_from_distribution - each performs exactly one get_draw and nothing else on the stream) leaves
     it alone; register_simulants replaces the map (IndexMap.update, modelled in IndexMap.v; here ANY new map). *)
  Inductive op :=
    | OCall (crn_init : bool) (k : K) (idx : list label)
    | ORegister (m' : list (label * Z)).

  Definition step (w : imap) (o : op) : imap :=
    match o, w with
    | OCall _ _ _, _ => w
    | ORegister _, NoCRN s => NoCRN s                  (* index_map.py 50: nothing to do without CRN *)
    | ORegister m', CRN s _ => CRN s (Some m')
    end.

  Definition run (w : imap) (h : list op) : imap := fold_left step h w.

  (* positions once assigned never change (that registrations satisfy this is C03_stable) *)
  Definition extends (m m' : list (label * Z)) : Prop := forall l p, zassoc l m = Some p -> zassoc l m' = Some p.

  Fixpoint stable_history (w : imap) (h : list op) : Prop :=
    match h with
    | [] => True
    | o :: r => match o, w with ORegister m', CRN _ (Some m) => extends m m' | _, _ => True end
                /\ stable_history (step w o) r
    end.
End Draws.

Arguments OCall {K}.
Arguments ORegister {K}.

(* ------------------------------------------------------------------------------------------------------------
   correspondence stream `req`: one manager (world) and a history of calls, with the implementation's answers
   ------------------------------------------------------------------------------------------------------------
   The block is a table filled by the harness from single-element requests to a real stream WITHOUT CRN that has
   the same key, clock, additional key and seed (the real stream as its own oracle for block): seed-key id ->
   position -> draw numerator.  The model must then predict every request of the history.
   obs = (code, draws): code 0 = returned, 1 = RandomnessError, 2 = any other exception.                        *)
Definition obs := (Z * list Z)%type.

Inductive cop :=
  | CCall (crn_init : bool) (sk : Z) (idx : list label) (o : obs)
  | CRegister (m' : list (label * Z)).

Definition req_case := (imap * list (Z * list (Z * Z)) * list cop)%type.

Definition tbl_block (tbl : list (Z * list (Z * Z))) (sk p : Z) : Z :=
  match zassoc sk tbl with
  | Some t => match zassoc p t with Some d => d | None => -1 end
  | None => -1
  end.

Definition code_of {A} (r : result A) : Z :=
  match r with Ok _ => 0 | Rejected ERandomness => 1 | Rejected _ => 2 | OutOfFuel => 3 end.

Definition in_unit (d : Z) : bool := (0 <=? d) && (d <? two53).

Definition agrees (r : result (list Z)) (o : obs) : bool :=
  (code_of r =? fst o) &&
  match r with Ok ds => zlist_eqb ds (snd o) && forallb in_unit ds | _ => match snd o with [] => true | _ => false end end.

(* boolean form of [extends] (every binding visible in m is visible, unchanged, in m') *)
Definition extends_b (m m' : list (label * Z)) : bool :=
  forallb (fun lp => option_eqb Z.eqb (zassoc (fst lp) m') (zassoc (fst lp) m)) m.

(* a registered map is well formed: every position is a valid index of the block and no two simulants share one - the
   hypotheses of C02_distinct_positions (conclusions of C03_in_range / C03_injective), validated on EVERY map the
   correspondence sees *)
Fixpoint nodup_z (l : list Z) : bool := match l with [] => true | x :: r => negb (zmem x r) && nodup_z r end.
Definition map_wf (size : Z) (m : list (label * Z)) : bool :=
  forallb (fun lp => (0 <=? snd lp) && (snd lp <? size)) m && nodup_z (map snd m).
Definition imap_wf (w : imap) : bool := match w with CRN s (Some m) => map_wf s m | _ => true end.

Fixpoint run_cops (blk : Z -> Z -> Z) (w : imap) (ops : list cop) : bool :=
  match ops with
  | [] => true
  | CCall crn_init sk idx o :: r => agrees (get_draw Z blk crn_init w sk idx) o && run_cops blk w r
  | CRegister m' :: r =>
      match w with CRN _ (Some m) => extends_b m m' | _ => true end
      && imap_wf (step Z w (ORegister m'))
      && run_cops blk (step Z w (ORegister m')) r
  end.

Definition check_req (c : req_case) : bool :=
  let '(w, tbl, ops) := c in imap_wf w && run_cops (tbl_block tbl) w ops.

(* ------------------------------------------------------------------------------------------------------------
   correspondence stream `unrel`: two requests for the same simulants, together with the seed strings the
   implementation built.  kind 0: the four strings (decision point, str(clock), str(additional key), seed) are equal
   -> identical draws.  kind 1: exactly one of the four strings differs -> different seed strings and at most 2
   coinciding draws.  kind 2 (open finding F-O, modelled as the code is): the CONFIGURED (random_seed,
   additional_seed) pairs differ but their concatenations are equal -> the manager hands out the same seed, the seed
   strings are equal and so are all draws.
   ------------------------------------------------------------------------------------------------------------ *)
Fixpoint count_eq (a b : list Z) : Z :=
  match a, b with
  | x :: r, y :: s => (if x =? y then 1 else 0) + count_eq r s
  | _, _ => 0
  end.

Definition differ_in_one (a b : seedkey) : bool :=
  let d (x y : str) := if str_eqb x y then 0 else 1 in
  d (sk_key a) (sk_key b) + d (sk_clock a) (sk_clock b) + d (sk_addl a) (sk_addl b) + d (sk_seed a) (sk_seed b) =? 1.

(* (random_seed, additional_seed) as configured, and the seed the stream carries *)
Definition seedcfg := (str * option str)%type.
Definition seedcfg_eqb (a b : seedcfg) : bool := str_eqb (fst a) (fst b) && option_eqb str_eqb (snd a) (snd b).

Definition unrel_case :=
  (Z * (seedkey * seedcfg * str * list Z) * (seedkey * seedcfg * str * list Z))%type.

Definition side_ok (s : seedkey * seedcfg * str * list Z) : bool :=
  let '(k, cfg, observed, ds) := s in
  str_eqb (seed_string k) observed && str_eqb (manager_seed (fst cfg) (snd cfg)) (sk_seed k) && forallb in_unit ds.

Definition check_unrel (c : unrel_case) : bool :=
  let '(kind, s1, s2) := c in
  let '(k1, c1, o1, d1) := s1 in
  let '(k2, c2, o2, d2) := s2 in
  side_ok s1 && side_ok s2 && (Nat.eqb (length d1) (length d2)) &&
  if kind =? 0 then seedkey_eqb k1 k2 && zlist_eqb d1 d2
  else if kind =? 1 then differ_in_one k1 k2 && negb (str_eqb o1 o2) && (count_eq d1 d2 <=? 2)
  else negb (seedcfg_eqb c1 c2) && seedkey_eqb k1 k2 && str_eqb o1 o2 && zlist_eqb d1 d2.

(* ------------------------------------------------------------------------------------------------------------
   the manager layer (randomness/manager.py): a registry state machine
     manager.py 40-50   setup                     -> initial state: seed string, ONE IndexMap, no decision points
     manager.py 67-120  get_randomness_stream     -> [RGet]: duplicates rejected (125-129), else a stream carrying the
                                                     manager's seed, clock and index map (130-136)
     manager.py 157-176 register_simulants        -> [RReg]: IndexMap.update on the shared map (its logic: IndexMap.v / C03)
     stream.get_draw on a registered stream       -> [RDraw]: the block key is built from the decision point, the call's
                                                     (clock, additional key) and the MANAGER's seed
     manager.py 140-155 get_seed                  -> hash of (decision point, clock, seed): checked for consistency only
   Decision points are identified by numbers (DESIGN.md section 4).  [mk] builds the block key.
   ------------------------------------------------------------------------------------------------------------ *)
Record mgr := { g_seed : str; g_map : imap; g_dps : list (Z * bool) }.

Section Manager.
  Variable K : Type.
  Variable C : Type.                                  (* what a call contributes to the key: clock and additional key *)
  Variable mk : Z -> C -> str -> K.
  Variable block : K -> Z -> Z.

  Inductive mreq :=
    | RGet (dp : Z) (crn_init : bool)
    | RReg (m' : list (label * Z))
    | RDraw (dp : Z) (ca : C) (idx : list label).

  Inductive mout :=
    | OStream (seed : str)
    | ODraws (r : result (list Z))
    | ORefused (e : err)
    | ODone.

  Definition mgr_draw (g : mgr) (dp : Z) (ca : C) (idx : list label) : result (list Z) :=
    match zassoc dp (g_dps g) with
    | Some crn => get_draw K block crn (g_map g) (mk dp ca (g_seed g)) idx
    | None => Rejected EOther                          (* no such stream object exists *)
    end.

  Definition mstep (g : mgr) (r : mreq) : mgr * mout :=
    match r with
    | RGet dp crn =>
        match zassoc dp (g_dps g) with
        | Some _ => (g, ORefused ERandomness)                                         (* 125-129 *)
        | None => ({| g_seed := g_seed g; g_map := g_map g; g_dps := (dp, crn) :: g_dps g |}, OStream (g_seed g))
        end
    | RReg m' => ({| g_seed := g_seed g; g_map := step K (g_map g) (ORegister m'); g_dps := g_dps g |}, ODone)
    | RDraw dp ca idx => (g, ODraws (mgr_draw g dp ca idx))
    end.

  Definition mrun (g : mgr) (rs : list mreq) : mgr := fold_left (fun g r => fst (mstep g r)) rs g.

  (* the map-relevant part of a request history (the registrations), for C02_history_invariant *)
  Definition map_ops (rs : list mreq) : list (op K) :=
    flat_map (fun r => match r with RReg m' => [ORegister m'] | _ => [] end) rs.
End Manager.

Arguments RGet {C}.
Arguments RReg {C}.
Arguments RDraw {C}.

(* correspondence stream `mgr`: a real RandomnessManager (set up through its public setup(builder)) driven by a request
   history; the implementation's answers are attached.  MSeed: an observed get_seed(dp) at clock id [clock]. *)
Inductive mop :=
  | MGet (dp : Z) (crn_init : bool) (code : Z) (seed : str)
  | MReg (m' : list (label * Z))
  | MCall (dp : Z) (sk : Z) (idx : list label) (o : obs)
  | MSeed (dp clock : Z) (v : Z).

Definition mgr_case := (seedcfg * imap * list (Z * list (Z * Z)) * list mop)%type.

(* get_seed values seen so far must be a function of (dp, clock), injective (the seed is fixed), and valid numpy seeds *)
Definition seed_consistent (seen : list (Z * Z * Z)) (dp clock v : Z) : bool :=
  (0 <=? v) && (v <? 4294967295) &&
  forallb (fun t => let '(d, c, x) := t in Bool.eqb ((d =? dp) && (c =? clock)) (x =? v)) seen.

Fixpoint run_mops (blk : Z -> Z -> Z) (g : mgr) (seen : list (Z * Z * Z)) (ops : list mop) : bool :=
  match ops with
  | [] => true
  | MGet dp crn code seed :: r =>
      match mstep Z Z (fun _ sk _ => sk) blk g (RGet dp crn) with
      | (g', OStream s) => (code =? 0) && str_eqb s seed && run_mops blk g' seen r
      | (g', ORefused ERandomness) => (code =? 1) && run_mops blk g' seen r
      | _ => false
      end
  | MReg m' :: r =>
      match g_map g with CRN _ (Some m) => extends_b m m' | _ => true end
      && imap_wf (g_map (fst (mstep Z Z (fun _ sk _ => sk) blk g (RReg m'))))
      && run_mops blk (fst (mstep Z Z (fun _ sk _ => sk) blk g (RReg m'))) seen r
  | MCall dp sk idx o :: r =>
      match mstep Z Z (fun _ sk _ => sk) blk g (RDraw dp sk idx) with
      | (g', ODraws res) => agrees res o && run_mops blk g' seen r
      | _ => false
      end
  | MSeed dp clock v :: r => seed_consistent seen dp clock v && run_mops blk g ((dp, clock, v) :: seen) r
  end.

Definition check_mgr (c : mgr_case) : bool :=
  let '(cfg, w, tbl, ops) := c in
  imap_wf w &&
  run_mops (tbl_block tbl) {| g_seed := manager_seed (fst cfg) (snd cfg); g_map := w; g_dps := [] |} [] ops.
