(* Lemmas about the randomness-stream model (DESIGN.md C02). *)
From Viv Require Import Common Stream.
From Coq Require Import Permutation.
Local Open Scope Z_scope.

(* ---------- mapM ---------- *)
Lemma mapM_Forall2 {A B} (f : A -> result B) l : forall ys,
  mapM f l = Ok ys <-> Forall2 (fun x y => f x = Ok y) l ys.
Proof.
  induction l as [|x r IH]; intros ys; simpl.
  - split.
    + intros [= <-]. constructor.
    + intros H. inversion H. reflexivity.
  - destruct (f x) as [y| |] eqn:Ex; simpl.
    + destruct (mapM f r) as [zs| |] eqn:Er; simpl.
      * split.
        { intros [= <-]. constructor; [assumption | now apply IH]. }
        { intros H. inversion H as [|? y' ? zs' Hy Hr]; subst. rewrite Ex in Hy. injection Hy as <-.
          apply IH in Hr. injection Hr as <-. reflexivity. }
      * split; [discriminate|]. intros H. inversion H as [|? y' ? zs' Hy Hr]; subst. apply IH in Hr. discriminate.
      * split; [discriminate|]. intros H. inversion H as [|? y' ? zs' Hy Hr]; subst. apply IH in Hr. discriminate.
    + split; [discriminate|]. intros H. inversion H as [|? y' ? zs' Hy Hr]; subst. rewrite Ex in Hy. discriminate.
    + split; [discriminate|]. intros H. inversion H as [|? y' ? zs' Hy Hr]; subst. rewrite Ex in Hy. discriminate.
Qed.

Section Draws.
  Variable K : Type.
  Variable block : K -> Z -> Z.
  Notation draw1 := (draw1 K block).
  Notation get_draw := (get_draw K block).

  (* the draw attached to a label (meaningful where draw1 succeeds) *)
  Definition dr (im : imap) (k : K) (l : label) : Z := match draw1 im k l with Ok d => d | _ => 0 end.

  Lemma get_draw_Forall2 im k idx ds :
    get_draw false im k idx = Ok ds <-> Forall2 (fun l d => draw1 im k l = Ok d) idx ds.
  Proof.
    unfold Stream.get_draw. destruct idx as [|l r].
    - split; [intros [= <-]; constructor | intros H; inversion H; reflexivity].
    - apply mapM_Forall2.
  Qed.

  Lemma Forall2_functional im k idx ds :
    Forall2 (fun l d => draw1 im k l = Ok d) idx ds <->
    Forall (fun l => draw1 im k l = Ok (dr im k l)) idx /\ ds = map (dr im k) idx.
  Proof.
    split.
    - induction 1 as [|l d idx ds H _ [IH1 IH2]]; [split; [constructor | reflexivity]|].
      assert (Hd : dr im k l = d) by (unfold dr; now rewrite H).
      split; [constructor; [now rewrite Hd | assumption] | simpl; now rewrite Hd, IH2].
    - intros [HF ->]. induction HF as [|l idx H _ IH]; simpl; constructor; assumption.
  Qed.

  (* the working characterisation: a request succeeds iff every label has a draw, and then the answer is the
     label-wise map of ONE function of (map, seed key, label) *)
  Lemma get_draw_map im k idx ds :
    get_draw false im k idx = Ok ds <->
    Forall (fun l => draw1 im k l = Ok (dr im k l)) idx /\ ds = map (dr im k) idx.
  Proof. rewrite get_draw_Forall2. apply Forall2_functional. Qed.

  Lemma combine_map_self {A B} (f : A -> B) l : combine l (map f l) = map (fun x => (x, f x)) l.
  Proof. induction l as [|x r IH]; simpl; [reflexivity | now rewrite IH]. Qed.

  (* ---- pointwise ---- *)
  Lemma pointwise im k idx ds : get_draw false im k idx = Ok ds ->
    length ds = length idx /\
    forall j, (j < length idx)%nat -> exists p, pos im (nth j idx 0) = Ok p /\ nth j ds 0 = block k p.
  Proof.
    intros H. apply get_draw_map in H as [HF ->]. split; [apply map_length|].
    intros j Hj. rewrite Forall_forall in HF. specialize (HF (nth j idx 0) (nth_In _ _ Hj)).
    rewrite (nth_indep (map (dr im k) idx) 0 (dr im k 0)) by (now rewrite map_length). rewrite map_nth.
    unfold dr. unfold Stream.draw1 in *. destruct (pos im (nth j idx 0)) as [p| |]; simpl in *; try discriminate.
    exists p. split; reflexivity.
  Qed.

  (* the draw a label gets inside any request is the draw of the single-element request *)
  Lemma single im k idx ds : get_draw false im k idx = Ok ds ->
    forall l d, In (l, d) (combine idx ds) -> get_draw false im k [l] = Ok [d].
  Proof.
    intros H l d Hin. apply get_draw_map in H as [HF ->]. rewrite combine_map_self in Hin.
    apply in_map_iff in Hin as [x [[= -> <-] Hx]]. rewrite Forall_forall in HF.
    apply get_draw_map. split; [constructor; [now apply HF | constructor] | reflexivity].
  Qed.

  Lemma subset_invariant im k idx idx' ds : incl idx' idx -> get_draw false im k idx = Ok ds ->
    exists ds', get_draw false im k idx' = Ok ds' /\ incl (combine idx' ds') (combine idx ds).
  Proof.
    intros Hi H. apply get_draw_map in H as [HF ->]. exists (map (dr im k) idx'). split.
    - apply get_draw_map. split; [|reflexivity]. rewrite Forall_forall in *. intros l Hl. apply HF, Hi, Hl.
    - rewrite !combine_map_self. intros [l d] Hin. apply in_map_iff in Hin as [x [[= -> <-] Hx]].
      apply in_map_iff. exists l. split; [reflexivity | now apply Hi].
  Qed.

  Lemma perm_invariant im k idx idx' ds : Permutation idx idx' -> get_draw false im k idx = Ok ds ->
    exists ds', get_draw false im k idx' = Ok ds' /\ Permutation (combine idx ds) (combine idx' ds').
  Proof.
    intros Hp H. apply get_draw_map in H as [HF ->]. exists (map (dr im k) idx'). split.
    - apply get_draw_map. split; [|reflexivity]. eapply Permutation_Forall; eassumption.
    - rewrite !combine_map_self. now apply Permutation_map.
  Qed.

  (* one label, one draw: inside a request (repeated labels) and across requests *)
  Lemma repeat_invariant im k idx idx' ds ds' l d d' :
    get_draw false im k idx = Ok ds -> get_draw false im k idx' = Ok ds' ->
    In (l, d) (combine idx ds) -> In (l, d') (combine idx' ds') -> d = d'.
  Proof.
    intros H H' Hin Hin'. apply get_draw_map in H as [_ ->]. apply get_draw_map in H' as [_ ->].
    rewrite combine_map_self in Hin, Hin'.
    apply in_map_iff in Hin as [x [[= -> <-] _]]. apply in_map_iff in Hin' as [x' [[= -> <-] _]]. reflexivity.
  Qed.

  (* ---- sample_from_distribution: the sample of a label is ppf of the label's own draw ---- *)
  Lemma sample_single ppf im k idx ds : get_draw false im k idx = Ok ds ->
    sample_from K block ppf false im k idx = Ok (map ppf ds) /\
    forall l d, In (l, d) (combine idx ds) -> sample_from K block ppf false im k [l] = Ok [ppf d].
  Proof.
    intros H. unfold sample_from. rewrite H. split; [reflexivity|].
    intros l d Hin. now rewrite (single im k idx ds H l d Hin).
  Qed.

  (* ---- [0,1) ---- *)
  Lemma zseq_length s n : length (zseq s n) = n.
  Proof. revert s; induction n as [|n IH]; intros s; simpl; [reflexivity | now rewrite IH]. Qed.

  Lemma block_map_range (block_range : forall k p, 0 <= block k p < two53) k xs :
    Forall (fun d => 0 <= d < two53) (map (block k) xs).
  Proof. apply Forall_forall. intros d Hd. apply in_map_iff in Hd as [p [<- _]]. apply block_range. Qed.

  Lemma unit_interval (block_range : forall k p, 0 <= block k p < two53) c im k idx ds :
    get_draw c im k idx = Ok ds -> Forall (fun d => 0 <= d < two53) ds.
  Proof.
    destruct c.
    - unfold Stream.get_draw. destruct idx as [|l r]; [intros [= <-]; constructor|].
      destruct (Z.of_nat (length (l :: r)) <=? size_of im); [|discriminate].
      intros [= <-]. apply (block_map_range block_range k (zseq 0 (length (l :: r)))).
    - intros H. apply get_draw_map in H as [HF ->]. apply Forall_forall. intros d Hd.
      apply in_map_iff in Hd as [l [<- Hl]]. rewrite Forall_forall in HF. specialize (HF l Hl).
      unfold Stream.draw1 in HF. unfold dr, Stream.draw1. destruct (pos im l); simpl in *; try discriminate.
      apply block_range.
  Qed.

  (* ---- positional streams (initializes_crn_attributes=True) ---- *)
  Lemma crn_init_positional im k idx ds : get_draw true im k idx = Ok ds ->
    ds = map (block k) (zseq 0 (length idx)).
  Proof.
    unfold Stream.get_draw. destruct idx as [|l r]; [intros [= <-]; reflexivity|].
    destruct (Z.of_nat (length (l :: r)) <=? size_of im); [|discriminate]. intros [= <-]. reflexivity.
  Qed.

  Lemma crn_init_labels_irrelevant im k idx idx' : length idx = length idx' ->
    get_draw true im k idx = get_draw true im k idx'.
  Proof.
    intros HL. unfold Stream.get_draw. destruct idx as [|l r], idx' as [|l' r']; try discriminate; [reflexivity|].
    now rewrite HL.
  Qed.

  (* ---- histories ---- *)
  Lemma size_step w o : size_of (step K w o) = size_of w.
  Proof. destruct o, w; reflexivity. Qed.

  Lemma size_run h : forall w, size_of (run K w h) = size_of w.
  Proof. unfold run. induction h as [|o r IH]; intros w; simpl; [reflexivity|]. now rewrite IH, size_step. Qed.

  Lemma pos_step w o l p :
    match o, w with ORegister m', CRN _ (Some m) => extends m m' | _, _ => True end ->
    pos w l = Ok p -> pos (step K w o) l = Ok p.
  Proof.
    destruct o as [c k idx|m']; [trivial|]. destruct w as [s|s [m|]]; simpl; try trivial.
    - intros He. unfold pos. simpl. destruct (zassoc l m) as [q|] eqn:E; [|discriminate].
      rewrite (He l q E). trivial.
    - intros _. unfold pos. simpl. discriminate.
  Qed.

  Lemma pos_run h : forall w l p, stable_history K w h -> pos w l = Ok p -> pos (run K w h) l = Ok p.
  Proof.
    unfold run. induction h as [|o r IH]; intros w l p Hs Hp; simpl; [assumption|].
    destruct Hs as [Ho Hr]. apply IH; [assumption|]. now apply pos_step.
  Qed.

  Lemma history_invariant c w h k idx ds : stable_history K w h ->
    get_draw c w k idx = Ok ds -> get_draw c (run K w h) k idx = Ok ds.
  Proof.
    intros Hs. destruct c.
    - unfold Stream.get_draw. now rewrite size_run.
    - rewrite !get_draw_Forall2. intros H. induction H as [|l d idx ds H _ IH]; constructor; [|assumption].
      unfold Stream.draw1 in *. destruct (pos w l) as [p| |] eqn:E; simpl in H; try discriminate.
      now rewrite (pos_run h w l p Hs E).
  Qed.

  (* calls alone (any number, on any stream, with any arguments) change nothing at all *)
  Definition is_call (o : op K) : Prop := match o with OCall _ _ _ => True | ORegister _ => False end.
  Lemma calls_inert h : forall w, Forall is_call h -> run K w h = w.
  Proof.
    unfold run. induction h as [|o r IH]; intros w HF; simpl; [reflexivity|].
    inversion HF as [|? ? Ho Hr]; subst. destruct o; [|contradiction]. simpl. now apply IH.
  Qed.
End Draws.

(* ---------- distinct simulants, distinct positions ---------- *)
Lemma distinct_positions_nocrn size l1 l2 p1 p2 : 0 <= l1 -> 0 <= l2 -> l1 <> l2 ->
  pos (NoCRN size) l1 = Ok p1 -> pos (NoCRN size) l2 = Ok p2 -> p1 <> p2.
Proof.
  unfold pos, np_index. simpl. intros H1 H2 Hne.
  destruct (Z.leb_spec 0 l1), (Z.ltb_spec l1 size), (Z.leb_spec 0 l2), (Z.ltb_spec l2 size); simpl; try lia;
    repeat match goal with |- context [(?a <=? ?b) && (?c <? ?d)] =>
      destruct (Z.leb_spec a b), (Z.ltb_spec c d); simpl; try lia end;
    try discriminate; intros [= <-] [= <-]; lia.
Qed.

Lemma zassoc_In {A} l (m : list (Z * A)) p : zassoc l m = Some p -> In (l, p) m.
Proof.
  induction m as [|[a v] r IH]; simpl; [discriminate|]. destruct (Z.eqb_spec a l) as [->|Hne].
  - intros [= ->]. now left.
  - intros H. right. now apply IH.
Qed.

Lemma nodup_snd_inj (m : list (Z * Z)) : NoDup (map snd m) ->
  forall l1 l2 p, In (l1, p) m -> In (l2, p) m -> l1 = l2.
Proof.
  induction m as [|[a v] r IH]; intros Hn l1 l2 p H1 H2; [contradiction|].
  simpl in Hn. inversion Hn as [|? ? Hv Hr]; subst. simpl in H1, H2.
  destruct H1 as [H1|H1], H2 as [H2|H2].
  - congruence.
  - exfalso. apply Hv. apply in_map_iff. exists (l2, p). split; [simpl; congruence | assumption].
  - exfalso. apply Hv. apply in_map_iff. exists (l1, p). split; [simpl; congruence | assumption].
  - eapply IH; eassumption.
Qed.

(* with CRN: from an injective, in-range map - exactly what C03_injective and C03_in_range provide *)
Lemma distinct_positions_crn size m l1 l2 p1 p2 :
  NoDup (map snd m) -> (forall l p, In (l, p) m -> 0 <= p < size) -> l1 <> l2 ->
  pos (CRN size (Some m)) l1 = Ok p1 -> pos (CRN size (Some m)) l2 = Ok p2 -> p1 <> p2.
Proof.
  intros Hn Hr Hne. unfold pos. simpl.
  destruct (zassoc l1 m) as [q1|] eqn:E1; [|discriminate]. destruct (zassoc l2 m) as [q2|] eqn:E2; [|discriminate].
  apply zassoc_In in E1, E2. pose proof (Hr _ _ E1) as R1. pose proof (Hr _ _ E2) as R2.
  simpl. unfold np_index.
  destruct (Z.leb_spec 0 q1), (Z.ltb_spec q1 size), (Z.leb_spec 0 q2), (Z.ltb_spec q2 size); simpl; try lia.
  intros [= <-] [= <-] Heq. subst q2. apply Hne. eapply nodup_snd_inj; eassumption.
Qed.

(* ---------- the seed string ---------- *)
Lemma split_at_sep (s : Z) x : forall x' y y', ~ In s x -> ~ In s x' ->
  x ++ s :: y = x' ++ s :: y' -> x = x' /\ y = y'.
Proof.
  induction x as [|a x IH]; intros [|a' x'] y y' H1 H2 E; simpl in *.
  - injection E as <-. auto.
  - injection E as -> _. exfalso. apply H2. now left.
  - injection E as <- _. exfalso. apply H1. now left.
  - injection E as <- E. destruct (IH x' y y') as [-> ->]; auto.
Qed.

Lemma seedkey_injective a b :
  ~ In underscore (sk_key a) -> ~ In underscore (sk_clock a) -> ~ In underscore (sk_addl a) ->
  ~ In underscore (sk_key b) -> ~ In underscore (sk_clock b) -> ~ In underscore (sk_addl b) ->
  seed_string a = seed_string b -> a = b.
Proof.
  destruct a as [k c d s], b as [k' c' d' s']. unfold seed_string, join4. simpl.
  intros A1 A2 A3 B1 B2 B3 E.
  apply split_at_sep in E as [-> E]; [|assumption..].
  apply split_at_sep in E as [-> E]; [|assumption..].
  apply split_at_sep in E as [-> ->]; [|assumption..]. reflexivity.
Qed.

Lemma str_eqb_eq a b : str_eqb a b = true <-> a = b.
Proof. apply zlist_eqb_eq. Qed.

Lemma str_eqb_neq a b : str_eqb a b = false <-> a <> b.
Proof.
  split.
  - intros H E. apply str_eqb_eq in E. congruence.
  - intros H. destruct (str_eqb a b) eqn:E; [|reflexivity]. apply str_eqb_eq in E. contradiction.
Qed.

(* changing exactly one of decision point / clock / additional key / seed always changes the string that reaches
   SHA-1 (no guard needed: the other three components cancel as common prefix and suffix) *)
Lemma single_change a b : differ_in_one a b = true -> seed_string a <> seed_string b.
Proof.
  destruct a as [k c d s], b as [k' c' d' s']. unfold differ_in_one, seed_string, join4. simpl.
  destruct (str_eqb k k') eqn:E1, (str_eqb c c') eqn:E2, (str_eqb d d') eqn:E3, (str_eqb s s') eqn:E4;
    simpl; try discriminate; intros _;
    repeat match goal with H : str_eqb _ _ = true |- _ => apply str_eqb_eq in H; subst end;
    match goal with H : str_eqb _ _ = false |- _ => apply str_eqb_neq in H; intros E; apply H; clear H end.
  - (* seed *) repeat (apply app_inv_head in E; injection E as E). exact E.
  - (* additional key *) apply app_inv_head in E. injection E as E. apply app_inv_head in E. injection E as E.
    change (d ++ underscore :: s') with (d ++ (underscore :: s')) in E.
    now apply app_inv_tail in E.
  - (* clock *) apply app_inv_head in E. injection E as E. now apply app_inv_tail in E.
  - (* decision point *) now apply app_inv_tail in E.
Qed.

Lemma check_unrel_sound kind k1 c1 o1 d1 k2 c2 o2 d2 :
  check_unrel (kind, (k1, c1, o1, d1), (k2, c2, o2, d2)) = true ->
  o1 = seed_string k1 /\ o2 = seed_string k2.
Proof.
  unfold check_unrel, side_ok. intros H.
  repeat (apply andb_true_iff in H as [H ?]).
  repeat match goal with X : _ && _ = true |- _ => apply andb_true_iff in X as [X ?] end.
  repeat match goal with X : str_eqb _ _ = true |- _ => apply str_eqb_eq in X end. split; congruence.
Qed.

(* ---------- the manager's seed: str(random_seed) ++ str(additional_seed), finding F-O ---------- *)
Definition optstr (a : option str) : str := match a with Some x => x | None => [] end.

Lemma manager_seed_app r a : manager_seed r a = r ++ optstr a.
Proof. destruct a; simpl; [reflexivity | now rewrite app_nil_r]. Qed.

Lemma app_same_length_inj {A} (x x' y y' : list A) : length x = length x' -> x ++ y = x' ++ y' -> x = x' /\ y = y'.
Proof.
  revert x'. induction x as [|a x IH]; intros [|a' x'] L E; simpl in *; try discriminate.
  - now split.
  - injection L as L. injection E as -> E. destruct (IH x' L E) as [-> ->]. now split.
Qed.

(* the concatenation is injective exactly on configurations whose random seeds have equally long decimal strings:
   the guard that excludes the class of finding F-O ((1, 23) vs (12, 3)) *)
Lemma manager_seed_injective_guarded r1 a1 r2 a2 : length r1 = length r2 ->
  manager_seed r1 a1 = manager_seed r2 a2 -> r1 = r2 /\ optstr a1 = optstr a2.
Proof. rewrite !manager_seed_app. apply app_same_length_inj. Qed.

(* conversely, two different random seeds alias only if one string is a proper prefix of the other *)
Lemma manager_seed_alias_prefix r1 a1 r2 a2 : manager_seed r1 a1 = manager_seed r2 a2 -> (length r1 <= length r2)%nat ->
  exists t, r2 = r1 ++ t /\ optstr a1 = t ++ optstr a2.
Proof.
  rewrite !manager_seed_app. revert r2. induction r1 as [|c r1 IH]; intros r2 E L; simpl in *.
  - exists r2. split; [reflexivity | assumption].
  - destruct r2 as [|c' r2]; simpl in *; [lia|]. injection E as -> E.
    destruct (IH r2 E ltac:(lia)) as [t [-> Ht]]. exists t. split; [reflexivity | assumption].
Qed.

(* ---------- the manager layer: a registry state machine, theorems over ALL request histories ---------- *)
Lemma zassoc_none_notin {A} k (l : list (Z * A)) : zassoc k l = None <-> ~ In k (map fst l).
Proof.
  induction l as [|[a v] l IH]; simpl; [tauto|]. destruct (Z.eqb_spec a k) as [->|Hne].
  - split; [discriminate | intros H; exfalso; apply H; now left].
  - rewrite IH. split; intros H; [intros [E|E]; [contradiction | now apply H] | intros E; apply H; now right].
Qed.

Lemma zassoc_perm_nodup {A} k (l l' : list (Z * A)) : Permutation l l' -> NoDup (map fst l) -> zassoc k l = zassoc k l'.
Proof.
  induction 1 as [|[a v] l l' _ IH|[a v] [b w] l|l l' l'' H1 IH1 H2 IH2]; intros Hn; simpl in *.
  - reflexivity.
  - inversion Hn; subst. destruct (a =? k); [reflexivity | now apply IH].
  - inversion Hn as [|? ? Hb Hr]; subst. destruct (Z.eqb_spec a k) as [->|]; destruct (Z.eqb_spec b k) as [->|]; try reflexivity.
    exfalso. apply Hb. now left.
  - rewrite IH1 by assumption. apply IH2. eapply Permutation_NoDup; [|exact Hn]. now apply Permutation_map.
Qed.

Section ManagerProofs.
  Variable K : Type.
  Variable C : Type.
  Variable mk : Z -> C -> str -> K.
  Variable block : K -> Z -> Z.
  Notation mstep := (mstep K C mk block).
  Notation mrun := (mrun K C mk block).
  Notation mgr_draw := (mgr_draw K C mk block).

  Lemma mrun_cons g r rs : mrun g (r :: rs) = mrun (fst (mstep g r)) rs.
  Proof. reflexivity. Qed.

  (* the seed every stream carries is the manager's, for ever *)
  Lemma mstep_seed g r : g_seed (fst (mstep g r)) = g_seed g.
  Proof. destruct r as [dp c|m'|dp ca idx]; simpl; try reflexivity. now destruct (zassoc dp (g_dps g)). Qed.

  Lemma mrun_seed rs : forall g, g_seed (mrun g rs) = g_seed g.
  Proof. induction rs as [|r rs IH]; intros g; [reflexivity|]. now rewrite mrun_cons, IH, mstep_seed. Qed.

  (* each decision point has at most one stream *)
  Lemma mstep_nodup g r : NoDup (map fst (g_dps g)) -> NoDup (map fst (g_dps (fst (mstep g r)))).
  Proof.
    intros H. destruct r as [dp c|m'|dp ca idx]; simpl; try assumption.
    destruct (zassoc dp (g_dps g)) eqn:E; simpl; [assumption|]. constructor; [|assumption]. now apply zassoc_none_notin.
  Qed.

  Lemma mrun_nodup rs : forall g, NoDup (map fst (g_dps g)) -> NoDup (map fst (g_dps (mrun g rs))).
  Proof. induction rs as [|r rs IH]; intros g H; [assumption|]. rewrite mrun_cons. now apply IH, mstep_nodup. Qed.

  (* a second request for an existing decision point is refused and changes nothing *)
  Lemma mstep_duplicate g dp c c' : zassoc dp (g_dps g) = Some c -> mstep g (RGet dp c') = (g, ORefused ERandomness).
  Proof. intros H. simpl. now rewrite H. Qed.

  Lemma mstep_new g dp c : zassoc dp (g_dps g) = None ->
    mstep g (RGet dp c) = ({| g_seed := g_seed g; g_map := g_map g; g_dps := (dp, c) :: g_dps g |}, OStream (g_seed g)).
  Proof. intros H. simpl. now rewrite H. Qed.

  (* a stream keeps the kind it was created with *)
  Lemma mstep_flag_stable g r dp c : zassoc dp (g_dps g) = Some c -> zassoc dp (g_dps (fst (mstep g r))) = Some c.
  Proof.
    intros H. destruct r as [dp' c'|m'|dp' ca idx]; simpl; try assumption.
    destruct (zassoc dp' (g_dps g)) eqn:E; simpl; [assumption|].
    destruct (Z.eqb_spec dp' dp) as [->|]; [congruence | assumption].
  Qed.

  Lemma mrun_flag_stable rs : forall g dp c, zassoc dp (g_dps g) = Some c -> zassoc dp (g_dps (mrun g rs)) = Some c.
  Proof. induction rs as [|r rs IH]; intros g dp c H; [assumption|]. rewrite mrun_cons. now apply IH, mstep_flag_stable. Qed.

  (* draws of a stream are a function of the seed, the map and the stream's own kind - nothing else in the registry *)
  Lemma mgr_draw_depends g1 g2 dp ca idx : g_seed g1 = g_seed g2 -> g_map g1 = g_map g2 ->
    zassoc dp (g_dps g1) = zassoc dp (g_dps g2) -> mgr_draw g1 dp ca idx = mgr_draw g2 dp ca idx.
  Proof. intros Hs Hm Hd. unfold Stream.mgr_draw. now rewrite Hs, Hm, Hd. Qed.

  Definition creations (h : list (Z * bool)) : list (mreq C) := map (fun x => RGet (fst x) (snd x)) h.

  Lemma mrun_map rs : forall g, g_map (mrun g rs) = run K (g_map g) (map_ops K C rs).
  Proof.
    induction rs as [|r rs IH]; intros g; [reflexivity|]. rewrite mrun_cons, IH.
    destruct r as [dp c|m'|dp ca idx]; simpl; try reflexivity. now destruct (zassoc dp (g_dps g)).
  Qed.

  Lemma creations_map h : forall g, g_map (mrun g (creations h)) = g_map g.
  Proof.
    induction h as [|[a b] h IH]; intros g; [reflexivity|]. unfold creations. simpl map. rewrite mrun_cons.
    fold (creations h). rewrite IH. simpl. now destruct (zassoc a (g_dps g)).
  Qed.

  (* after any list of creation requests the first request for a decision point decides *)
  Lemma creations_lookup dp h : forall g,
    zassoc dp (g_dps (mrun g (creations h))) =
    match zassoc dp (g_dps g) with Some c => Some c | None => zassoc dp h end.
  Proof.
    induction h as [|[a b] h IH]; intros g.
    - simpl. now destruct (zassoc dp (g_dps g)).
    - unfold creations. simpl map. rewrite mrun_cons. fold (creations h). rewrite IH. simpl mstep.
      destruct (zassoc a (g_dps g)) eqn:Ea; simpl.
      + destruct (zassoc dp (g_dps g)) eqn:Ed; [reflexivity|].
        destruct (Z.eqb_spec a dp) as [->|]; [congruence | reflexivity].
      + destruct (Z.eqb_spec a dp) as [->|]; [now rewrite Ea | reflexivity].
  Qed.

  (* which other streams exist, and the order of creation, are irrelevant *)
  Lemma creations_irrelevant g h1 h2 dp ca idx : g_dps g = [] -> zassoc dp h1 = zassoc dp h2 ->
    mgr_draw (mrun g (creations h1)) dp ca idx = mgr_draw (mrun g (creations h2)) dp ca idx.
  Proof.
    intros Hg Hd. apply mgr_draw_depends.
    - now rewrite !mrun_seed.
    - now rewrite !creations_map.
    - rewrite !creations_lookup, Hg. simpl. exact Hd.
  Qed.

  Lemma creation_order_irrelevant g h1 h2 dp ca idx : g_dps g = [] -> NoDup (map fst h1) -> Permutation h1 h2 ->
    mgr_draw (mrun g (creations h1)) dp ca idx = mgr_draw (mrun g (creations h2)) dp ca idx.
  Proof. intros Hg Hn Hp. apply creations_irrelevant; [assumption|]. now apply zassoc_perm_nodup. Qed.

  (* any later history (creations, draws on any stream, position-preserving registrations) leaves a stream's answers alone *)
  Lemma mgr_history_invariant g rs dp ca idx ds : stable_history K (g_map g) (map_ops K C rs) ->
    mgr_draw g dp ca idx = Ok ds -> mgr_draw (mrun g rs) dp ca idx = Ok ds.
  Proof.
    intros Hs. unfold Stream.mgr_draw. destruct (zassoc dp (g_dps g)) as [c|] eqn:E; [|discriminate].
    rewrite (mrun_flag_stable rs g dp c E), mrun_seed, mrun_map. intros H.
    exact (history_invariant K block c (g_map g) (map_ops K C rs) _ idx ds Hs H).
  Qed.
End ManagerProofs.


(* ---------- what the map check of the correspondence establishes ---------- *)
Lemma nodup_z_NoDup l : nodup_z l = true -> NoDup l.
Proof.
  induction l as [|x r IH]; simpl; [constructor|]. intros H. apply andb_true_iff in H as [H1 H2].
  constructor; [|now apply IH]. intros Hin. apply zmem_In in Hin. now rewrite Hin in H1.
Qed.

Lemma map_wf_sound size m : map_wf size m = true ->
  NoDup (map snd m) /\ forall l p, In (l, p) m -> 0 <= p < size.
Proof.
  unfold map_wf. intros H. apply andb_true_iff in H as [H1 H2]. split; [now apply nodup_z_NoDup|].
  intros l p Hin. rewrite forallb_forall in H1. specialize (H1 (l, p) Hin). simpl in H1. lia.
Qed.

(* every map accepted by the correspondence gives distinct simulants distinct block elements *)
Lemma map_wf_distinct size m l1 l2 p1 p2 : map_wf size m = true -> l1 <> l2 ->
  pos (CRN size (Some m)) l1 = Ok p1 -> pos (CRN size (Some m)) l2 = Ok p2 -> p1 <> p2.
Proof. intros H. destruct (map_wf_sound size m H) as [Hn Hr]. now apply distinct_positions_crn. Qed.
