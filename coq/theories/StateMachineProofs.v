(* Lemmas about the model of vivarium/framework/state_machine.py (StateMachine.v) - DESIGN.md C17.
   Everything is proved for ALL machines, probability functions, draws, state assignments and request sets. *)
From Viv Require Import Common StateMachine.
From Coq Require Import Permutation.
Local Open Scope Z_scope.

(* ================================================================================================================
   inverse-CDF choice
   ================================================================================================================ *)
Definition nonneg (ws : list Z) : Prop := Forall (fun w => 0 <= w) ws.

Lemma sumL_nonneg ws : nonneg ws -> 0 <= sumL ws.
Proof. induction 1; simpl; lia. Qed.

Lemma sumL_app l1 l2 : sumL (l1 ++ l2) = sumL l1 + sumL l2.
Proof. induction l1; simpl; lia. Qed.

Lemma nonneg_app l1 l2 : nonneg l1 -> nonneg l2 -> nonneg (l1 ++ l2).
Proof. intros H1 H2. apply Forall_app. now split. Qed.

Lemma nonneg_nth ws k : nonneg ws -> 0 <= nth k ws 0.
Proof.
  intros H. destruct (Nat.lt_ge_cases k (length ws)) as [Hk|Hk].
  - unfold nonneg in H. rewrite Forall_forall in H. apply H. now apply nth_In.
  - rewrite nth_overflow; [lia|assumption].
Qed.

(* once the draw is not above a bin it is not above any later bin *)
Lemma count_below_zero a b W : 0 <= b -> forall ws acc, nonneg ws -> a * W <= acc * b -> count_below a b W acc ws = O.
Proof.
  intros Hb. induction ws as [|w r IH]; intros acc Hn Hle; simpl; [reflexivity|].
  inversion Hn; subst.
  assert (a * W <= (acc + w) * b) by nia.
  destruct (a * W >? (acc + w) * b) eqn:E; [apply Z.gtb_lt in E; lia|].
  simpl. apply IH; auto.
Qed.

Lemma count_below_lt a b W : forall ws acc, ws <> [] -> a * W <= (acc + sumL ws) * b ->
  (count_below a b W acc ws < length ws)%nat.
Proof.
  induction ws as [|w r IH]; intros acc Hne Hle; [congruence|]. simpl.
  destruct r as [|w' r'].
  - simpl in *. destruct (a * W >? (acc + w) * b) eqn:E; [apply Z.gtb_lt in E; lia|]. simpl. lia.
  - assert (Hr : (count_below a b W (acc + w) (w' :: r') < length (w' :: r'))%nat).
    { apply IH; [discriminate|]. simpl in *. rewrite <- Z.add_assoc. exact Hle. }
    destruct (a * W >? (acc + w) * b); simpl in *; lia.
Qed.

(* the decided option exists: IndexError in `np.array(choices)[choice_index]` cannot happen for a draw in [0, 1) *)
Lemma choice_in_range a b ws : 0 <= a < b -> nonneg ws -> ws <> [] -> (choice a b ws < length ws)%nat.
Proof.
  intros Ha Hn Hne. unfold choice. apply count_below_lt; [assumption|]. simpl.
  pose proof (sumL_nonneg ws Hn). nia.
Qed.

Definition cum (ws : list Z) (k : nat) : Z := sumL (firstn (S k) ws).

(* interval characterisation: choice = k  ->  cum_{k-1} < draw * W <= cum_k *)
Lemma count_below_spec a b W : 0 < b -> forall ws acc k, nonneg ws ->
  count_below a b W acc ws = k -> (k < length ws)%nat ->
  a * W <= (acc + cum ws k) * b /\ (forall j, (j < k)%nat -> a * W > (acc + cum ws j) * b).
Proof.
  intros Hb. induction ws as [|w r IH]; intros acc k Hn Hc Hk; simpl in *; [lia|].
  pose proof (Forall_inv Hn) as Hw. pose proof (Forall_inv_tail Hn) as Hr. simpl in Hw.
  destruct (Z.gtb_spec (a * W) ((acc + w) * b)) as [E|E].
  - destruct k as [|k]; [discriminate|]. simpl in Hc. injection Hc as Hc.
    destruct (IH (acc + w) k Hr Hc ltac:(lia)) as [A B].
    unfold cum in *. cbn [firstn sumL] in *. split.
    + rewrite Z.add_assoc. exact A.
    + intros j Hj. destruct j as [|j]; cbn [firstn sumL].
      * destruct r; simpl; lia.
      * specialize (B j ltac:(lia)). rewrite Z.add_assoc. exact B.
  - simpl in Hc.
    assert (Hz : count_below a b W (acc + w) r = O) by (apply count_below_zero; auto; lia).
    rewrite Hz in Hc. subst k. unfold cum. cbn [firstn sumL]. split; [destruct r; simpl; lia|intros; lia].
Qed.

Lemma choice_interval a b ws k : 0 < b -> nonneg ws -> choice a b ws = k -> (k < length ws)%nat ->
  a * sumL ws <= cum ws k * b /\ (forall j, (j < k)%nat -> a * sumL ws > cum ws j * b).
Proof. intros Hb Hn Hc Hk. exact (count_below_spec a b (sumL ws) Hb ws 0 k Hn Hc Hk). Qed.

Lemma cum_S ws k : (S k < length ws)%nat -> cum ws (S k) = cum ws k + nth (S k) ws 0.
Proof.
  unfold cum. revert k. induction ws as [|w r IH]; intros k Hk; simpl in *; [lia|].
  destruct r as [|w' r']; simpl in *; [lia|].
  destruct k as [|k]; simpl.
  - destruct r'; simpl; lia.
  - specialize (IH k ltac:(lia)). simpl in IH. lia.
Qed.

(* a zero-weight option is chosen only in the F-G corner: it is option 0 and the draw is exactly 0 *)
Lemma choice_nonzero a b ws k : 0 < b -> 0 <= a -> nonneg ws -> (k < length ws)%nat ->
  choice a b ws = k -> nth k ws 0 = 0 -> k = O /\ a * sumL ws = 0.
Proof.
  intros Hb Ha Hn Hk Hc Hz.
  destruct (choice_interval a b ws k Hb Hn Hc Hk) as [A B].
  destruct k as [|k].
  - split; [reflexivity|]. unfold cum in A. destruct ws as [|w r]; simpl in *; [lia|]. subst w.
    assert (0 <= sumL r) by (apply sumL_nonneg; now apply Forall_inv_tail in Hn).
    destruct r; simpl in *; nia.
  - exfalso. specialize (B k ltac:(lia)). rewrite (cum_S ws k Hk), Hz in A. lia.
Qed.

Lemma choice_positive a b ws k : 0 < b -> 0 <= a -> nonneg ws -> 0 < sumL ws -> (k < length ws)%nat ->
  choice a b ws = k -> (0 < a \/ 0 < nth 0 ws 0) -> 0 < nth k ws 0.
Proof.
  intros Hb Ha Hn HW Hk Hc Hg. pose proof (nonneg_nth ws k Hn) as H0.
  destruct (Z.eq_dec (nth k ws 0) 0) as [E|E]; [|lia]. exfalso.
  destruct (choice_nonzero a b ws k Hb Ha Hn Hk Hc E) as [-> Hz]. destruct Hg as [Hg|Hg]; [nia|lia].
Qed.

(* a sole positive weight is always chosen (guard: the draw is not exactly 0, or it is the first option) *)
Lemma choice_sole a b ws j : 0 < b -> 0 <= a < b -> nonneg ws -> (j < length ws)%nat -> 0 < nth j ws 0 ->
  (forall i, i <> j -> nth i ws 0 = 0) -> (0 < a \/ j = O) -> choice a b ws = j.
Proof.
  intros Hb Ha Hn Hj Hpos Hz Hg.
  assert (Hne : ws <> []) by (destruct ws; simpl in Hj; [lia|discriminate]).
  pose proof (choice_in_range a b ws Ha Hn Hne) as Hk.
  destruct (Nat.eq_dec (choice a b ws) j) as [E|E]; [assumption|]. exfalso.
  destruct (choice_nonzero a b ws _ Hb ltac:(lia) Hn Hk eq_refl (Hz _ E)) as [H0 HW].
  assert (HWpos : 0 < sumL ws).
  { clear -Hn Hj Hpos. revert j Hj Hpos. induction ws as [|w r IH]; intros j Hj Hpos; simpl in *; [lia|].
    inversion Hn; subst. pose proof (sumL_nonneg r H2). destruct j; [lia|]. specialize (IH H2 j ltac:(lia) Hpos). lia. }
  destruct Hg as [Hg|Hg]; [nia|]. subst j. rewrite H0 in E. now apply E.
Qed.

(* ================================================================================================================
   _normalize_probabilities
   ================================================================================================================ *)
Lemma count_ones_In D r : (1 <= count_ones D r)%nat -> In D r.
Proof.
  unfold count_ones. induction r as [|x r' IH]; simpl; [lia|]. destruct (D =? x) eqn:E.
  - apply Z.eqb_eq in E. now left.
  - intros H. right. now apply IH.
Qed.

Lemma In_le_sumL x r : nonneg r -> In x r -> x <= sumL r.
Proof.
  induction r as [|y r' IH]; simpl; intros Hn Hin; [contradiction|]. inversion Hn; subst.
  pose proof (sumL_nonneg r' H2). destruct Hin as [->|Hin]; [lia|]. specialize (IH H2 Hin). lia.
Qed.

Lemma weights_shape D null r ws : weights D null r = Ok ws ->
  exists x, 0 <= x /\ ws = r ++ (if null then [x] else []).
Proof.
  unfold weights. destruct (1 <? count_ones D r)%nat; [discriminate|].
  destruct null.
  - destruct (count_ones D r =? 1)%nat.
    + intros H. inversion H. exists 0. split; [lia|reflexivity].
    + destruct (tol_den * sumL r >? tol_num * D); [discriminate|]. intros H. inversion H.
      exists (Z.max 0 (D - sumL r)). split; [lia|reflexivity].
  - exists 0. split; [lia|]. rewrite app_nil_r.
    destruct (count_ones D r =? 1)%nat; [now inversion H|]. destruct (sumL r =? 0); [discriminate|now inversion H].
Qed.

Lemma weights_nonneg D null r ws : nonneg r -> weights D null r = Ok ws -> nonneg ws.
Proof.
  intros Hn H. destruct (weights_shape _ _ _ _ H) as [x [Hx ->]]. apply nonneg_app; [assumption|].
  destruct null; repeat constructor. exact Hx.
Qed.

Lemma weights_length D null r ws : weights D null r = Ok ws ->
  length ws = (length r + (if null then 1 else 0))%nat.
Proof.
  intros H. destruct (weights_shape _ _ _ _ H) as [x [_ ->]]. rewrite app_length. now destruct null.
Qed.

Lemma weights_positive D null r ws : 0 < D -> nonneg r -> weights D null r = Ok ws -> 0 < sumL ws.
Proof.
  intros HD Hn. unfold weights. destruct (1 <? count_ones D r)%nat; [discriminate|].
  pose proof (sumL_nonneg r Hn) as HT.
  assert (Hone : (count_ones D r =? 1)%nat = true -> D <= sumL r).
  { intros E. apply Nat.eqb_eq in E. apply In_le_sumL; [assumption|]. apply count_ones_In. lia. }
  destruct null.
  - destruct (count_ones D r =? 1)%nat eqn:E.
    + intros H. inversion H. rewrite sumL_app. simpl. specialize (Hone eq_refl). lia.
    + destruct (tol_den * sumL r >? tol_num * D); [discriminate|]. intros H. inversion H.
      rewrite sumL_app. simpl. lia.
  - destruct (count_ones D r =? 1)%nat eqn:E.
    + intros H. inversion H. subst. specialize (Hone eq_refl). lia.
    + destruct (sumL r =? 0) eqn:E0; [discriminate|]. apply Z.eqb_neq in E0. intros H. inversion H. subst. lia.
Qed.

(* the three refusals *)
Lemma weights_two_ones D null r : (1 < count_ones D r)%nat -> weights D null r = Rejected EOther.
Proof. intros H. unfold weights. apply Nat.ltb_lt in H. now rewrite H. Qed.

Lemma weights_zero_total D r : count_ones D r = O -> sumL r = 0 -> weights D false r = Rejected EOther.
Proof. intros Hc HT. unfold weights. rewrite Hc, HT. reflexivity. Qed.

Lemma weights_over D r : count_ones D r <> 1%nat -> tol_den * sumL r > tol_num * D -> weights D true r = Rejected EOther.
Proof.
  intros Hc HT. unfold weights. destruct (1 <? count_ones D r)%nat; [reflexivity|].
  apply Nat.eqb_neq in Hc. rewrite Hc.
  assert (Hgt : (tol_den * sumL r >? tol_num * D) = true) by (apply Z.gtb_lt; lia). now rewrite Hgt.
Qed.

Lemma weights_rejected_other D null r e : weights D null r = Rejected e -> e = EOther.
Proof.
  unfold weights. destruct (1 <? count_ones D r)%nat; [intros H; now inversion H|].
  destruct null; destruct (count_ones D r =? 1)%nat; try discriminate.
  - destruct (tol_den * sumL r >? tol_num * D); [intros H; now inversion H|discriminate].
  - destruct (sumL r =? 0); [intros H; now inversion H|discriminate].
Qed.

Lemma weights_never_oof D null r : weights D null r <> OutOfFuel.
Proof.
  unfold weights. destruct (1 <? count_ones D r)%nat; [discriminate|].
  destruct null; destruct (count_ones D r =? 1)%nat; try discriminate.
  - destruct (tol_den * sumL r >? tol_num * D); discriminate.
  - destruct (sumL r =? 0); discriminate.
Qed.

(* a sole 1 among zeros *)
Lemma sole_row_count D r j : 0 < D -> (j < length r)%nat -> nth j r 0 = D -> (forall i, i <> j -> nth i r 0 = 0) ->
  count_ones D r = 1%nat.
Proof.
  intros HD. unfold count_ones. revert j. induction r as [|x r' IH]; intros j Hj Hx Hz; simpl in *; [lia|].
  destruct j as [|j].
  - subst x. rewrite Z.eqb_refl. simpl. f_equal.
    assert (Hall : forall y, In y r' -> y = 0).
    { intros y Hy. destruct (In_nth _ _ 0 Hy) as [i [Hi <-]]. exact (Hz (S i) ltac:(lia)). }
    clear -Hall HD. induction r' as [|y r'' IH]; simpl; [reflexivity|].
    rewrite (Hall y (or_introl eq_refl)). destruct (D =? 0) eqn:E; [apply Z.eqb_eq in E; lia|].
    apply IH. intros z Hz. apply Hall. now right.
  - pose proof (Hz O ltac:(lia)) as H0. simpl in H0. subst x.
    destruct (D =? 0) eqn:E; [apply Z.eqb_eq in E; lia|].
    apply (IH j); [lia|assumption|]. intros i Hi. exact (Hz (S i) ltac:(lia)).
Qed.

Lemma weights_sole D null r j : 0 < D -> (j < length r)%nat -> nth j r 0 = D -> (forall i, i <> j -> nth i r 0 = 0) ->
  weights D null r = Ok (r ++ (if null then [0] else [])).
Proof.
  intros HD Hj Hx Hz. unfold weights. rewrite (sole_row_count D r j HD Hj Hx Hz). simpl.
  destruct null; [reflexivity|now rewrite app_nil_r].
Qed.

(* ================================================================================================================
   one simulant's decision
   ================================================================================================================ *)
Definition valid_draw (b : Z) (draw : sid -> label -> Z) : Prop := 0 < b /\ forall s i, 0 <= draw s i < b.
Definition valid_probs (m : machine) : Prop :=
  0 < m_den m /\ forall s t i, In s (m_states m) -> In t (s_trans s) -> 0 <= t_prob t i.

Lemma eff_nonneg t i : 0 <= t_prob t i -> 0 <= eff t i.
Proof. unfold eff. destruct (t_trigger t) as [act|]; [destruct (zmem i act)|]; lia. Qed.

Lemma eff_inactive t i act : t_trigger t = Some act -> ~ In i act -> eff t i = 0.
Proof.
  intros Ht Hn. unfold eff. rewrite Ht. destruct (zmem i act) eqn:E; [|reflexivity]. apply zmem_In in E. contradiction.
Qed.

Lemma row_nonneg s i : (forall t, In t (s_trans s) -> 0 <= t_prob t i) -> nonneg (row s i).
Proof.
  intros H. unfold row, nonneg. apply Forall_forall. intros x Hx. apply in_map_iff in Hx as [t [<- Ht]].
  apply eff_nonneg. now apply H.
Qed.

Lemma outputs_length s : length (outputs s) = (length (s_trans s) + (if s_null s then 1 else 0))%nat.
Proof. unfold outputs. rewrite app_length, map_length. now destruct (s_null s). Qed.

Lemma decide_in_range D b draw s i k : 0 < D -> valid_draw b draw -> nonneg (row s i) ->
  outputs s <> [] -> decide D b draw s i = Ok k -> (k < length (outputs s))%nat.
Proof.
  intros HD [Hb Hd] Hn Hne. unfold decide. destruct (weights D (s_null s) (row s i)) as [ws| |] eqn:E; try discriminate.
  intros H. inversion H; subst. rewrite outputs_length.
  assert (Hl : length ws = (length (s_trans s) + (if s_null s then 1 else 0))%nat).
  { rewrite (weights_length _ _ _ _ E). unfold row. now rewrite map_length. }
  rewrite <- Hl. apply choice_in_range; [apply Hd|now apply (weights_nonneg D (s_null s) (row s i))|].
  intros ->. simpl in Hl. apply Hne. apply length_zero_iff_nil. rewrite outputs_length. lia.
Qed.

(* C17_zero_never, at the level of the weights handed to the choice *)
Lemma decide_positive D b draw s i k ws : 0 < D -> valid_draw b draw -> nonneg (row s i) -> outputs s <> [] ->
  weights D (s_null s) (row s i) = Ok ws -> decide D b draw s i = Ok k ->
  (0 < draw (s_id s) i \/ 0 < nth 0 ws 0) -> 0 < nth k ws 0.
Proof.
  intros HD Hv Hn Hne Hw Hdec Hg. pose proof (decide_in_range D b draw s i k HD Hv Hn Hne Hdec) as Hk.
  destruct Hv as [Hb Hd]. unfold decide in Hdec. rewrite Hw in Hdec. injection Hdec as Hc.
  assert (Hl : length ws = length (outputs s)).
  { rewrite (weights_length _ _ _ _ Hw), outputs_length. unfold row. now rewrite map_length. }
  apply (choice_positive (draw (s_id s) i) b ws k); auto.
  - apply Hd.
  - now apply (weights_nonneg D (s_null s) (row s i)).
  - now apply (weights_positive D (s_null s) (row s i)).
  - lia.
Qed.

Lemma nth_row s i k tr : nth_error (s_trans s) k = Some tr -> nth k (row s i) 0 = eff tr i.
Proof.
  unfold row. revert k. induction (s_trans s) as [|t r IH]; intros k H; destruct k; simpl in *; try discriminate.
  - now inversion H.
  - now apply IH.
Qed.

Lemma nth_app_l_Z (l1 l2 : list Z) k : (k < length l1)%nat -> nth k (l1 ++ l2) 0 = nth k l1 0.
Proof. intros H. now apply app_nth1. Qed.

(* a transition whose probability for the simulant is 0 - in particular an inactive triggered one - is never taken *)
Lemma zero_never D b draw s i k tr : 0 < D -> valid_draw b draw -> nonneg (row s i) ->
  decide D b draw s i = Ok k -> nth_error (s_trans s) k = Some tr ->
  (0 < draw (s_id s) i \/ 0 < nth 0 (row s i) 0) -> 0 < eff tr i.
Proof.
  intros HD Hv Hn Hdec Hk Hg.
  assert (Hklt : (k < length (s_trans s))%nat) by (apply nth_error_Some; congruence).
  assert (Hne : outputs s <> []).
  { intros E. pose proof (outputs_length s) as Hl. rewrite E in Hl. simpl in Hl. lia. }
  pose proof Hdec as Hdec'. unfold decide in Hdec'.
  destruct (weights D (s_null s) (row s i)) as [ws| |] eqn:Hw; try discriminate.
  destruct (weights_shape _ _ _ _ Hw) as [x [Hx Hws]].
  assert (Hrl : length (row s i) = length (s_trans s)) by (unfold row; now rewrite map_length).
  assert (H0 : nth 0 ws 0 = nth 0 (row s i) 0).
  { rewrite Hws. apply nth_app_l_Z. lia. }
  assert (Hkk : nth k ws 0 = eff tr i).
  { rewrite Hws, nth_app_l_Z by lia. now apply nth_row. }
  rewrite <- Hkk. apply (decide_positive D b draw s i k ws); auto. rewrite H0. exact Hg.
Qed.

(* a row (0, ..., 1, ..., 0) always takes that transition *)
Lemma sole_one_always D b draw s i j : 0 < D -> valid_draw b draw -> (j < length (s_trans s))%nat ->
  nth j (row s i) 0 = D -> (forall k, k <> j -> nth k (row s i) 0 = 0) ->
  (0 < draw (s_id s) i \/ j = O) -> decide D b draw s i = Ok j.
Proof.
  intros HD [Hb Hd] Hj Hx Hz Hg.
  assert (Hrl : length (row s i) = length (s_trans s)) by (unfold row; now rewrite map_length).
  unfold decide. rewrite (weights_sole D (s_null s) (row s i) j HD ltac:(lia) Hx Hz). f_equal.
  assert (Hn : nonneg (row s i)).
  { unfold nonneg. apply Forall_forall. intros y Hy. destruct (In_nth _ _ 0 Hy) as [k [Hk <-]].
    destruct (Nat.eq_dec k j) as [->|Hne]; [lia|]. rewrite (Hz k Hne). lia. }
  apply choice_sole; auto.
  - apply nonneg_app; [assumption|]. destruct (s_null s); repeat constructor. lia.
  - rewrite app_length. lia.
  - rewrite nth_app_l_Z by lia. lia.
  - intros k Hk. destruct (Nat.lt_ge_cases k (length (row s i))) as [Hlt|Hge].
    + rewrite nth_app_l_Z by lia. now apply Hz.
    + rewrite app_nth2 by lia. destruct (s_null s); simpl.
      * destruct (k - length (row s i))%nat as [|[|?]]; reflexivity.
      * destruct (k - length (row s i))%nat; reflexivity.
Qed.

(* ================================================================================================================
   groups
   ================================================================================================================ *)
Lemma decisions_spec D b draw s idx ds : decisions D b draw s idx = Ok ds ->
  map fst ds = idx /\ (forall i k, In (i, k) ds -> decide D b draw s i = Ok k) /\
  (forall i, In i idx -> exists k, decide D b draw s i = Ok k /\ In (i, k) ds).
Proof.
  revert ds. induction idx as [|i r IH]; intros ds H; simpl in H.
  - inversion H; subst. simpl. repeat split; intros; contradiction.
  - destruct (decide D b draw s i) as [k| |] eqn:Ed; try discriminate.
    destruct (decisions D b draw s r) as [ds'| |] eqn:Er; try discriminate.
    inversion H; subst. destruct (IH ds' eq_refl) as [A [B C]]. simpl. split; [now rewrite A|]. split.
    + intros i' k' [E|Hin]; [inversion E; now subst|now apply B].
    + intros i' [->|Hin]; [exists k; split; [assumption|now left]|].
      destruct (C i' Hin) as [k' [E1 E2]]. exists k'. split; [assumption|now right].
Qed.

Lemma decisions_rejected D b draw s idx i e : In i idx -> decide D b draw s i = Rejected e ->
  exists e', decisions D b draw s idx = Rejected e'.
Proof.
  induction idx as [|j r IH]; intros Hin Hd; [contradiction|]. simpl.
  destruct (decide D b draw s j) as [k| |] eqn:Ej.
  - destruct Hin as [->|Hin]; [congruence|]. destruct (IH Hin Hd) as [e' ->]. now exists e'.
  - now exists e0.
  - exfalso. unfold decide in Ej. destruct (weights D (s_null s) (row s j)) eqn:Ew; try discriminate.
    now apply (weights_never_oof D (s_null s) (row s j)).
Qed.

Lemma group_of_In ds j l : In l (group_of ds j) <-> In (l, j) ds.
Proof.
  unfold group_of. rewrite in_map_iff. split.
  - intros [[l' k] [E Hin]]. simpl in E. subst l'. apply filter_In in Hin as [Hin Hk]. simpl in Hk.
    apply Nat.eqb_eq in Hk. now subst.
  - intros Hin. exists (l, j). split; [reflexivity|]. apply filter_In. split; [assumption|]. simpl. apply Nat.eqb_refl.
Qed.

Lemma insert_group_perm rk g l : Permutation (g :: l) (insert_group rk g l).
Proof.
  induction l as [|h r IH]; simpl; [apply Permutation_refl|].
  destruct (rk (fst g) <? rk (fst h)); [apply Permutation_refl|].
  eapply perm_trans; [apply perm_swap|]. now apply perm_skip.
Qed.

Lemma sort_groups_perm rk l : Permutation l (sort_groups rk l).
Proof.
  induction l as [|g r IH]; simpl; [constructor|].
  eapply perm_trans; [apply perm_skip, IH|apply insert_group_perm].
Qed.

Lemma groups_tags n ds : map fst (groups n ds) = seq 0 n.
Proof. unfold groups. rewrite map_map. simpl. apply map_id. Qed.

Lemma groups_In n ds g : In g (groups n ds) <-> exists j, (j < n)%nat /\ g = (j, group_of ds j).
Proof.
  unfold groups. rewrite in_map_iff. split.
  - intros [j [<- Hj]]. apply in_seq in Hj. exists j. split; [lia|reflexivity].
  - intros [j [Hj ->]]. exists j. split; [reflexivity|]. apply in_seq. lia.
Qed.

(* ================================================================================================================
   sequencing with early exit: disjoint steps commute into a closed form
   ================================================================================================================ *)
Section Seq.
  Context {G T : Type}.
  Variable f : G -> column -> column * outcome.
  Variable tag : G -> T.
  Variable mem : G -> label -> bool.
  Variable E : G -> label -> sid -> sid.
  Variable kof : label -> T.
  Variable Q : G -> Prop.

  Lemma run_seq_spec (gs : list G) :
    (forall g col col1, In g gs -> f g col = (col1, Done) ->
        (forall l, col1 l = if mem g l then E g l (col l) else col l) /\ Q g) ->
    NoDup (map tag gs) ->
    (forall g l, In g gs -> mem g l = true -> kof l = tag g) ->
    forall col col', run_seq f gs col = (col', Done) ->
    (forall l, (forall g, In g gs -> mem g l = true -> col' l = E g l (col l)) /\
               ((forall g, In g gs -> mem g l = false) -> col' l = col l)) /\
    (forall g, In g gs -> Q g).
  Proof.
    induction gs as [|g r IH]; intros Hf Hnd Hk col col' Hrun; simpl in Hrun.
    - inversion Hrun; subst. split; [|intros g []]. intros l. split; [intros g []|reflexivity].
    - destruct (f g col) as [col1 o] eqn:Eg. destruct o; try (inversion Hrun; fail).
      destruct (Hf g col col1 (or_introl eq_refl) Eg) as [Hstep HQ].
      inversion Hnd as [|? ? Hnotin Hnd']; subst.
      assert (Hf' : forall g0 c c1, In g0 r -> f g0 c = (c1, Done) ->
                    (forall l, c1 l = if mem g0 l then E g0 l (c l) else c l) /\ Q g0)
        by (intros g0 c c1 Hin; apply Hf; now right).
      assert (Hk' : forall g0 l, In g0 r -> mem g0 l = true -> kof l = tag g0)
        by (intros g0 l Hin; apply Hk; now right).
      destruct (IH Hf' Hnd' Hk' col1 col' Hrun) as [Hrest HQr].
      split.
      + intros l. destruct (Hrest l) as [Hin Hout]. split.
        * intros g0 [<-|Hg0] Hm.
          -- (* l belongs to the head group: no later group contains it *)
             rewrite Hout; [rewrite Hstep, Hm; reflexivity|].
             intros g1 Hg1. destruct (mem g1 l) eqn:Em1; [|reflexivity]. exfalso.
             apply Hnotin. rewrite <- (Hk g l (or_introl eq_refl) Hm), (Hk' g1 l Hg1 Em1). now apply in_map.
          -- rewrite (Hin g0 Hg0 Hm). f_equal. rewrite Hstep.
             destruct (mem g l) eqn:Em; [|reflexivity]. exfalso.
             apply Hnotin. rewrite <- (Hk g l (or_introl eq_refl) Em), (Hk' g0 l Hg0 Hm). now apply in_map.
        * intros Hnone. rewrite Hout; [|intros g1 Hg1; apply Hnone; now right].
          rewrite Hstep, (Hnone g (or_introl eq_refl)). reflexivity.
      + intros g0 [<-|Hg0]; [assumption|now apply HQr].
  Qed.
End Seq.

(* ================================================================================================================
   the batch computes every simulant's own walk
   ================================================================================================================ *)
Definition settle (r : result (option sid)) (c : sid) : sid := match r with Ok (Some t) => t | _ => c end.

Definition rec_ok (rec : state -> list label -> column -> column * outcome)
                  (W : state -> label -> result (option sid)) : Prop :=
  forall st aff col col2, rec st aff col = (col2, Done) ->
    (forall l, col2 l = if zmem l aff then settle (W st l) (col l) else col l) /\
    (forall l, In l aff -> exists r, W st l = Ok r).

Definition group_effect (W : state -> label -> result (option sid)) (m : machine) (outs : list output)
                        (j : nat) (l : label) (c : sid) : sid :=
  match nth_error outs j with
  | Some (OState t) => match find_state t (m_states m) with
                       | Some st => if s_transient st then settle (W st l) t else t
                       | None => t
                       end
  | _ => c
  end.

Definition group_total (W : state -> label -> result (option sid)) (m : machine) (outs : list output)
                       (g : nat * list label) : Prop :=
  forall l t st, In l (snd g) -> nth_error outs (fst g) = Some (OState t) -> find_state t (m_states m) = Some st ->
                 s_transient st = true -> exists r, W st l = Ok r.

Lemma is_nil_false_mem {A} (l : list A) : is_nil l = true -> l = [].
Proof. destruct l; [reflexivity|discriminate]. Qed.

Lemma do_group_spec rec W m outs g col col1 : rec_ok rec W -> do_group rec m outs g col = (col1, Done) ->
  (forall l, col1 l = if zmem l (snd g) then group_effect W m outs (fst g) l (col l) else col l) /\
  group_total W m outs g.
Proof.
  intros Hrec. destruct g as [j aff]. unfold do_group, group_total. simpl.
  destruct (is_nil aff) eqn:En.
  - intros H. inversion H; subst. apply is_nil_false_mem in En. subst aff. split; [reflexivity|]. intros l t st [].
  - unfold group_effect. destruct (nth_error outs j) as [[|t]|] eqn:Eo.
    + intros H. inversion H; subst. split; [intros l; now destruct (zmem l aff)|]. intros; discriminate.
    + destruct (find_state t (m_states m)) as [st|] eqn:Ef.
      * destruct (s_transient st) eqn:Et.
        -- intros H. destruct (Hrec _ _ _ _ H) as [A B]. split.
           ++ intros l. rewrite A. unfold write. now destruct (zmem l aff).
           ++ intros l t' st' Hl Ht' Hf' _. inversion Ht'; subst. rewrite Ef in Hf'. inversion Hf'; subst. now apply B.
        -- intros H. inversion H; subst. split; [intros l; unfold write; now destruct (zmem l aff)|].
           intros l t' st' _ Ht' Hf' Htr. inversion Ht'; subst. rewrite Ef in Hf'. inversion Hf'; subst. congruence.
      * intros H. inversion H; subst. split; [intros l; unfold write; now destruct (zmem l aff)|].
        intros l t' st' _ Ht' Hf' _. inversion Ht'; subst. congruence.
    + intros H. inversion H; subst. split; [intros l; now destruct (zmem l aff)|]. intros; discriminate.
Qed.

Lemma nth_error_outputs s k t : nth_error (outputs s) k = Some (OState t) ->
  exists tr, nth_error (s_trans s) k = Some tr /\ t_target tr = t.
Proof.
  unfold outputs. intros H. destruct (Nat.lt_ge_cases k (length (s_trans s))) as [Hlt|Hge].
  - rewrite nth_error_app1 in H by (now rewrite map_length). rewrite nth_error_map in H.
    destruct (nth_error (s_trans s) k) as [tr|]; [|discriminate]. simpl in H. inversion H. now exists tr.
  - rewrite nth_error_app2 in H by (now rewrite map_length). rewrite map_length in H.
    destruct (s_null s); destruct (k - length (s_trans s))%nat as [|[|?]]; simpl in H; discriminate.
Qed.

Lemma nth_error_outputs_null s k : nth_error (outputs s) k = Some ONull -> s_null s = true.
Proof.
  unfold outputs. intros H. destruct (s_null s); [reflexivity|]. rewrite app_nil_r, nth_error_map in H.
  destruct (nth_error (s_trans s) k); discriminate.
Qed.

(* soundness of State.next_state against the per-simulant walk, for every fuel *)
Lemma next_state_ok m b draw : forall fuel, rec_ok (next_state fuel m b draw) (walk fuel m b draw).
Proof.
  induction fuel as [|f IH]; intros s idx col col2 H; simpl in H; [discriminate|].
  destruct (is_nil (s_trans s)) eqn:Ent; simpl in H.
  { inversion H; subst. simpl. rewrite Ent. split; [intros l; now destruct (zmem l idx)|]. intros l _. now exists None. }
  destruct (is_nil idx) eqn:Eni; simpl in H.
  { inversion H; subst. apply is_nil_false_mem in Eni. subst idx. split; [reflexivity|intros l []]. }
  destruct (decisions (m_den m) b draw s idx) as [ds| |] eqn:Eds; try discriminate.
  destruct (existsb (fun d => (length (outputs s) <=? snd d)%nat) ds) eqn:Eov; [discriminate|].
  destruct (znodup (map t_target (s_trans s))) eqn:End; simpl in H; [|discriminate].
  destruct (decisions_spec _ _ _ _ _ _ Eds) as [Dfst [Dsound Dcompl]].
  set (outs := outputs s) in *.
  set (rk := fun j => match nth_error outs j with Some o => rank_of m o | None => 0 end) in *.
  set (gs := sort_groups rk (groups (length outs) ds)) in *.
  set (kof := fun l => match decide (m_den m) b draw s l with Ok k => k | _ => O end).
  assert (Hperm : Permutation (groups (length outs) ds) gs) by apply sort_groups_perm.
  assert (Hin : forall g, In g gs <-> In g (groups (length outs) ds)).
  { intros g. split; [apply Permutation_in, Permutation_sym, Hperm|apply Permutation_in, Hperm]. }
  assert (Hnd : NoDup (map fst gs)).
  { apply (Permutation_NoDup (Permutation_map fst Hperm)). rewrite groups_tags. apply seq_NoDup. }
  assert (Hk : forall g l, In g gs -> zmem l (snd g) = true -> kof l = fst g).
  { intros g l Hg Hm. apply Hin, groups_In in Hg as [j [Hj ->]]. simpl in *. apply zmem_In, group_of_In in Hm.
    unfold kof. now rewrite (Dsound _ _ Hm). }
  destruct (run_seq_spec (do_group (next_state f m b draw) m outs) fst (fun g l => zmem l (snd g))
              (fun g l c => group_effect (walk f m b draw) m outs (fst g) l c) kof
              (group_total (walk f m b draw) m outs) gs
              (fun g c c1 _ Hd => do_group_spec _ _ m outs g c c1 IH Hd) Hnd Hk col col2 H) as [Hcols Htot].
  (* the walk of a requested simulant, unfolded *)
  assert (Hwalk : forall l, In l idx ->
            (exists r, walk (S f) m b draw s l = Ok r) /\
            col2 l = settle (walk (S f) m b draw s l) (col l)).
  { intros l Hl. destruct (Dcompl l Hl) as [k [Hdk Hlk]].
    assert (Hkr : (k < length outs)%nat).
    { destruct (Nat.lt_ge_cases k (length outs)) as [Hlt|Hge]; [assumption|]. exfalso.
      assert (existsb (fun d => (length outs <=? snd d)%nat) ds = true); [|congruence].
      apply existsb_exists. exists (l, k). split; [assumption|]. simpl. now apply Nat.leb_le. }
    assert (Hg : In (k, group_of ds k) gs) by (apply Hin, groups_In; now exists k).
    assert (Hlg : In l (group_of ds k)) by (apply group_of_In; assumption).
    assert (Hm : zmem l (group_of ds k) = true) by (now apply zmem_In).
    destruct (Hcols l) as [Hc _]. specialize (Hc _ Hg Hm). simpl in Hc.
    pose proof (Htot _ Hg) as Hgt. unfold group_total in Hgt. simpl in Hgt.
    simpl. rewrite Ent, Hdk, End. simpl. fold outs.
    unfold group_effect in Hc.
    destruct (nth_error outs k) as [[|t]|] eqn:Eo.
    - split; [now exists None|exact Hc].
    - destruct (find_state t (m_states m)) as [st|] eqn:Ef.
      + destruct (s_transient st) eqn:Et.
        * destruct (Hgt l t st Hlg eq_refl Ef Et) as [r Hr].
          rewrite Hr in *. destruct r as [t'|]; simpl in *; split; eauto.
        * split; [now exists (Some t)|exact Hc].
      + split; [now exists (Some t)|exact Hc].
    - apply nth_error_None in Eo. lia. }
  split.
  - intros l. destruct (zmem l idx) eqn:Ez.
    + apply zmem_In in Ez. now apply Hwalk.
    + destruct (Hcols l) as [_ Hout]. apply Hout. intros g Hg. apply Hin, groups_In in Hg as [j [Hj ->]]. simpl.
      destruct (zmem l (group_of ds j)) eqn:Em; [|reflexivity]. exfalso.
      apply zmem_In, group_of_In in Em. assert (In l idx) by (rewrite <- Dfst; apply (in_map fst _ _ Em)).
      apply zmem_In in H0. congruence.
  - intros l Hl. now apply Hwalk.
Qed.

(* ================================================================================================================
   Machine.transition: closed form
   ================================================================================================================ *)
Lemma find_state_some t l s : find_state t l = Some s -> In s l /\ s_id s = t.
Proof.
  induction l as [|s' r IH]; simpl; [discriminate|]. destruct (s_id s' =? t) eqn:E.
  - intros H. inversion H; subst. split; [now left|now apply Z.eqb_eq].
  - intros H. destruct (IH H). split; [now right|assumption].
Qed.

Lemma find_state_none t l : find_state t l = None -> forall s, In s l -> s_id s <> t.
Proof.
  induction l as [|s' r IH]; simpl; intros H s Hin; [contradiction|]. destruct (s_id s' =? t) eqn:E; [discriminate|].
  apply Z.eqb_neq in E. destruct Hin as [<-|Hin]; [assumption|now apply IH].
Qed.

Lemma find_state_unique l s : NoDup (map s_id l) -> In s l -> find_state (s_id s) l = Some s.
Proof.
  induction l as [|s' r IH]; simpl; intros Hnd Hin; [contradiction|]. inversion Hnd; subst.
  destruct Hin as [->|Hin]; [now rewrite Z.eqb_refl|].
  destruct (s_id s' =? s_id s) eqn:E; [|now apply IH]. apply Z.eqb_eq in E. exfalso. apply H1. rewrite E. now apply in_map.
Qed.

Definition do_state (fuel : nat) (m : machine) (b : Z) (draw : sid -> label -> Z) (tracked : label -> bool)
                    (col0 : column) (idx : list label) (s : state) (c : column) : column * outcome :=
  let aff := affected_of tracked col0 idx s in
  if is_nil aff then (c, Done) else next_state fuel m b draw s aff c.

Lemma transition_unfold fuel m b draw tracked col idx :
  transition fuel m b draw tracked col idx = run_seq (do_state fuel m b draw tracked col idx) (m_states m) col.
Proof. reflexivity. Qed.

Lemma affected_In tracked col0 idx s l :
  In l (affected_of tracked col0 idx s) <-> In l idx /\ tracked l = true /\ col0 l = s_id s.
Proof.
  unfold affected_of. rewrite filter_In, andb_true_iff, Z.eqb_eq. tauto.
Qed.

(* the whole call: every simulant stands where its own walk leads; the walk of every moved simulant is defined *)
Lemma transition_closed_form fuel m b draw tracked col idx col' :
  NoDup (map s_id (m_states m)) ->
  transition fuel m b draw tracked col idx = (col', Done) ->
  (forall l, col' l = own_destination fuel m b draw tracked col idx l) /\
  (forall l s, In l idx -> tracked l = true -> find_state (col l) (m_states m) = Some s ->
               exists r, walk fuel m b draw s l = Ok r).
Proof.
  intros Hnd H. rewrite transition_unfold in H.
  pose proof (next_state_ok m b draw fuel) as Hrec.
  destruct (run_seq_spec (do_state fuel m b draw tracked col idx) s_id
              (fun s l => zmem l (affected_of tracked col idx s))
              (fun s l c => settle (walk fuel m b draw s l) c) col
              (fun s => forall l, In l (affected_of tracked col idx s) -> exists r, walk fuel m b draw s l = Ok r)
              (m_states m)) with (col := col) (col' := col') as [Hcols Htot]; auto.
  - intros s c c1 _ Hd. unfold do_state in Hd. destruct (is_nil (affected_of tracked col idx s)) eqn:En.
    + inversion Hd; subst. apply is_nil_false_mem in En. rewrite En. split; [reflexivity|intros l []].
    + exact (Hrec _ _ _ _ Hd).
  - intros s l _ Hm. apply zmem_In, affected_In in Hm. tauto.
  - split.
    + intros l. unfold own_destination. destruct (Hcols l) as [Hin Hout].
      destruct (zmem l idx && tracked l) eqn:Ez.
      * apply andb_true_iff in Ez as [Ez Et]. apply zmem_In in Ez.
        destruct (find_state (col l) (m_states m)) as [s|] eqn:Ef.
        -- destruct (find_state_some _ _ _ Ef) as [Hs Hid]. apply (Hin s Hs).
           apply zmem_In, affected_In. auto.
        -- apply Hout. intros s Hs. destruct (zmem l (affected_of tracked col idx s)) eqn:Em; [|reflexivity].
           apply zmem_In, affected_In in Em as [_ [_ Hc]]. exfalso. now apply (find_state_none _ _ Ef s Hs).
      * apply Hout. intros s Hs. destruct (zmem l (affected_of tracked col idx s)) eqn:Em; [|reflexivity].
        apply zmem_In, affected_In in Em as [Hi [Ht _]]. apply zmem_In in Hi. rewrite Hi, Ht in Ez. discriminate.
    + intros l s Hl Ht Hf. destruct (find_state_some _ _ _ Hf) as [Hs Hid]. apply (Htot s Hs). apply affected_In. auto.
Qed.

(* ================================================================================================================
   the other direction, for one simulant: if its walk is defined, transitioning it alone succeeds
   ================================================================================================================ *)
Lemma run_seq_single {G} (f : G -> column -> column * outcome) (live : G -> bool) (gs : list G) :
  (forall g col, In g gs -> live g = false -> f g col = (col, Done)) ->
  (forall g col, In g gs -> live g = true -> exists col1, f g col = (col1, Done)) ->
  forall col, exists col', run_seq f gs col = (col', Done).
Proof.
  induction gs as [|g r IH]; intros Hdead Hlive col; simpl; [now exists col|].
  destruct (live g) eqn:El.
  - destruct (Hlive g col (or_introl eq_refl) El) as [col1 ->].
    apply IH; intros g0 c Hin; [apply Hdead|apply Hlive]; now right.
  - rewrite (Hdead g col (or_introl eq_refl) El).
    apply IH; intros g0 c Hin; [apply Hdead|apply Hlive]; now right.
Qed.

Lemma next_state_single m b draw : forall fuel s l col r, walk fuel m b draw s l = Ok r ->
  exists col', next_state fuel m b draw s [l] col = (col', Done).
Proof.
  induction fuel as [|f IH]; intros s l col r Hw; simpl in Hw; [discriminate|]. simpl.
  destruct (is_nil (s_trans s)) eqn:Ent; simpl; [now exists col|].
  destruct (decide (m_den m) b draw s l) as [k| |] eqn:Ed; try discriminate.
  destruct (znodup (map t_target (s_trans s))) eqn:End; simpl in Hw; [|discriminate]. simpl.
  destruct (nth_error (outputs s) k) as [o|] eqn:Eo; [|discriminate].
  assert (Hkr : (k < length (outputs s))%nat) by (apply nth_error_Some; congruence).
  assert (Hov : (length (outputs s) <=? k)%nat = false) by (apply Nat.leb_gt; lia).
  rewrite Hov. simpl.
  set (outs := outputs s) in *.
  set (rk := fun j => match nth_error outs j with Some o => rank_of m o | None => 0 end).
  apply (run_seq_single _ (fun g => negb (is_nil (snd g)))).
  - intros [j aff] c _ Hl. simpl in Hl. unfold do_group. apply negb_false_iff in Hl. now rewrite Hl.
  - intros [j aff] c Hin Hl. simpl in Hl. apply negb_true_iff in Hl.
    apply (Permutation_in _ (Permutation_sym (sort_groups_perm rk _))) in Hin.
    apply groups_In in Hin as [j' [Hj' Hg]]. inversion Hg; subst j' aff. clear Hg.
    (* the only non-empty group is the decided one *)
    assert (Hjk : j = k /\ group_of [(l, k)] j = [l]).
    { unfold group_of in *. simpl in *. destruct (Nat.eqb k j) eqn:E; [|discriminate].
      apply Nat.eqb_eq in E. now subst. }
    destruct Hjk as [-> Hgrp]. rewrite Hgrp. unfold do_group. simpl. rewrite Eo.
    destruct o as [|t]; [now exists c|].
    destruct (find_state t (m_states m)) as [st|] eqn:Ef; [|eexists; reflexivity].
    destruct (s_transient st) eqn:Et; [|eexists; reflexivity].
    destruct (walk f m b draw st l) as [r'| |] eqn:Ew; try discriminate.
    exact (IH st l _ r' Ew).
Qed.

Lemma transition_single fuel m b draw tracked col l s r :
  NoDup (map s_id (m_states m)) ->
  (tracked l = true -> find_state (col l) (m_states m) = Some s -> walk fuel m b draw s l = Ok r) ->
  (tracked l = true -> find_state (col l) (m_states m) <> None -> find_state (col l) (m_states m) = Some s) ->
  exists col', transition fuel m b draw tracked col [l] = (col', Done).
Proof.
  intros Hnd Hw Hs. rewrite transition_unfold.
  apply (run_seq_single _ (fun s0 => negb (is_nil (affected_of tracked col [l] s0)))).
  - intros s0 c _ Hl. unfold do_state. apply negb_false_iff in Hl. now rewrite Hl.
  - intros s0 c Hin Hl. unfold do_state. apply negb_true_iff in Hl. rewrite Hl.
    assert (Haff : affected_of tracked col [l] s0 = [l] /\ tracked l = true /\ col l = s_id s0).
    { unfold affected_of in *. simpl in *. destruct (tracked l && (col l =? s_id s0)) eqn:E; [|discriminate].
      apply andb_true_iff in E as [E1 E2]. apply Z.eqb_eq in E2. auto. }
    destruct Haff as [-> [Ht Hc]].
    assert (Hf : find_state (col l) (m_states m) = Some s0) by (rewrite Hc; now apply find_state_unique).
    assert (s = s0) by (specialize (Hs Ht ltac:(congruence)); congruence). subst s0.
    exact (next_state_single m b draw fuel s l c r (Hw Ht Hf)).
Qed.

(* ================================================================================================================
   declared successors
   ================================================================================================================ *)
(* [reach m s t]: t is the target of a declared transition out of s, possibly followed through transient states *)
Inductive reach (m : machine) : state -> sid -> Prop :=
  | reach_direct s tr : In tr (s_trans s) -> reach m s (t_target tr)
  | reach_through s tr st t : In tr (s_trans s) -> find_state (t_target tr) (m_states m) = Some st ->
                              s_transient st = true -> reach m st t -> reach m s t.

Lemma walk_reach m b draw : forall fuel s l t, walk fuel m b draw s l = Ok (Some t) -> reach m s t.
Proof.
  induction fuel as [|f IH]; intros s l t H; simpl in H; [discriminate|].
  destruct (is_nil (s_trans s)); [discriminate|].
  destruct (decide (m_den m) b draw s l) as [k| |]; try discriminate.
  destruct (negb (znodup (map t_target (s_trans s)))); [discriminate|].
  destruct (nth_error (outputs s) k) as [[|t1]|] eqn:Eo; try discriminate.
  destruct (nth_error_outputs _ _ _ Eo) as [tr [Htr <-]]. apply nth_error_In in Htr.
  destruct (find_state (t_target tr) (m_states m)) as [st|] eqn:Ef.
  - destruct (s_transient st) eqn:Et.
    + destruct (walk f m b draw st l) as [[t'|]| |] eqn:Ew; try discriminate.
      * inversion H; subst. eapply reach_through; eauto.
      * inversion H; subst. now apply reach_direct.
    + inversion H; subst. now apply reach_direct.
  - inversion H; subst. now apply reach_direct.
Qed.

Lemma walk_stays m b draw fuel s l : walk fuel m b draw s l = Ok None -> s_trans s = [] \/ s_null s = true.
Proof.
  destruct fuel as [|f]; simpl; [discriminate|].
  destruct (is_nil (s_trans s)) eqn:En; [intros _; left; now apply is_nil_false_mem|].
  destruct (decide (m_den m) b draw s l) as [k| |]; try discriminate.
  destruct (negb (znodup (map t_target (s_trans s)))); [discriminate|].
  destruct (nth_error (outputs s) k) as [[|t1]|] eqn:Eo; try discriminate.
  - intros _. right. now apply (nth_error_outputs_null s k).
  - destruct (find_state t1 (m_states m)) as [st|]; [|discriminate].
    destruct (s_transient st); [|discriminate]. destruct (walk f m b draw st l) as [[?|]| |]; discriminate.
Qed.

(* the first step of a defined walk: the decision of the simulant's own transition set *)
Lemma walk_first_step m b draw fuel s l r : walk fuel m b draw s l = Ok r -> s_trans s <> [] ->
  exists k, decide (m_den m) b draw s l = Ok k /\ (k < length (outputs s))%nat /\
            znodup (map t_target (s_trans s)) = true.
Proof.
  destruct fuel as [|f]; simpl; [discriminate|]. intros H Hne.
  destruct (is_nil (s_trans s)) eqn:En; [apply is_nil_false_mem in En; contradiction|].
  destruct (decide (m_den m) b draw s l) as [k| |]; try discriminate.
  destruct (znodup (map t_target (s_trans s))); simpl in H; [|discriminate].
  destruct (nth_error (outputs s) k) eqn:Eo; [|discriminate].
  exists k. repeat split. apply nth_error_Some. congruence.
Qed.

(* a simulant sent to a non-transient state stops there, whatever transitions that state has *)
Lemma walk_stops_at_plain m b draw fuel s l r k t st :
  walk fuel m b draw s l = Ok r -> decide (m_den m) b draw s l = Ok k ->
  nth_error (outputs s) k = Some (OState t) -> find_state t (m_states m) = Some st -> s_transient st = false ->
  r = Some t.
Proof.
  destruct fuel as [|f]; simpl; [discriminate|]. intros H Hd Ho Hf Ht.
  destruct (is_nil (s_trans s)) eqn:En.
  { apply is_nil_false_mem in En. destruct (nth_error_outputs _ _ _ Ho) as [tr [Htr _]]. rewrite En in Htr.
    destruct k; discriminate. }
  rewrite Hd in H. destruct (negb (znodup (map t_target (s_trans s)))); [discriminate|].
  rewrite Ho, Hf, Ht in H. now inversion H.
Qed.

(* ================================================================================================================
   refusals
   ================================================================================================================ *)
Lemma decide_rejected D b draw s i e : weights D (s_null s) (row s i) = Rejected e -> decide D b draw s i = Rejected e.
Proof. unfold decide. now intros ->. Qed.

(* a group with an unnormalisable row is refused before anything is written *)
Lemma next_state_rejected fuel m b draw s idx col i e :
  s_trans s <> [] -> In i idx -> weights (m_den m) (s_null s) (row s i) = Rejected e ->
  next_state (S fuel) m b draw s idx col = (col, Fail EOther).
Proof.
  intros Hne Hin Hw. simpl.
  destruct (is_nil (s_trans s)) eqn:En; [apply is_nil_false_mem in En; contradiction|].
  destruct (is_nil idx) eqn:Ei; [apply is_nil_false_mem in Ei; subst; contradiction|]. simpl.
  destruct (decisions_rejected _ b draw s idx i e Hin (decide_rejected _ b draw s i e Hw)) as [e' He']. rewrite He'.
  f_equal. f_equal.
  (* every refusal of a row is a ValueError *)
  clear -He'. revert e' He'. induction idx as [|j r IH]; intros e' H; simpl in H; [discriminate|].
  destruct (decide (m_den m) b draw s j) as [k| |] eqn:Ed.
  - destruct (decisions (m_den m) b draw s r) as [ds|e0|]; try discriminate. inversion H; subst. now apply IH.
  - inversion H; subst. unfold decide in Ed. destruct (weights (m_den m) (s_null s) (row s j)) eqn:Ew; try discriminate.
    inversion Ed; subst. now apply (weights_rejected_other _ _ _ _ Ew).
  - discriminate.
Qed.

Lemma walk_rejected_row m b draw fuel s l e : s_trans s <> [] ->
  weights (m_den m) (s_null s) (row s l) = Rejected e -> forall r, walk fuel m b draw s l <> Ok r.
Proof.
  intros Hne Hw r. destruct fuel as [|f]; simpl; [discriminate|].
  destruct (is_nil (s_trans s)) eqn:En; [apply is_nil_false_mem in En; contradiction|].
  rewrite (decide_rejected _ b draw s l e Hw). discriminate.
Qed.

(* ================================================================================================================
   fuel: acyclic chains of transient states never exhaust it
   ================================================================================================================ *)
(* [d] measures how many transient states can follow a state: every transient target is strictly lower *)
Definition transient_depth (m : machine) (d : state -> nat) : Prop :=
  forall s tr st, In s (m_states m) -> In tr (s_trans s) -> find_state (t_target tr) (m_states m) = Some st ->
                  s_transient st = true -> (d st < d s)%nat.

Lemma run_seq_oof {G} (f : G -> column -> column * outcome) (gs : list G) : forall col c,
  run_seq f gs col = (c, OOF) -> exists g c0 c1, In g gs /\ f g c0 = (c1, OOF).
Proof.
  induction gs as [|g r IH]; intros col c H; simpl in H; [discriminate|].
  destruct (f g col) as [c1 o] eqn:E. destruct o.
  - destruct (IH _ _ H) as [g' [c0 [c2 [Hin Hf]]]]. exists g', c0, c2. split; [now right|assumption].
  - discriminate.
  - exists g, col, c1. split; [now left|assumption].
Qed.

Lemma decisions_never_oof D b draw s idx : decisions D b draw s idx <> OutOfFuel.
Proof.
  induction idx as [|i r IH]; simpl; [discriminate|].
  destruct (decide D b draw s i) as [k| |] eqn:Ed; try discriminate.
  - destruct (decisions D b draw s r); try discriminate. contradiction.
  - unfold decide in Ed. destruct (weights D (s_null s) (row s i)) eqn:Ew; try discriminate.
    exfalso. now apply (weights_never_oof D (s_null s) (row s i)).
Qed.

Lemma next_state_enough_fuel m b draw d : transient_depth m d ->
  forall fuel s idx col, In s (m_states m) -> (d s < fuel)%nat -> snd (next_state fuel m b draw s idx col) <> OOF.
Proof.
  intros Hd. induction fuel as [|f IH]; intros s idx col Hs Hlt; [lia|]. simpl.
  destruct (is_nil (s_trans s) || is_nil idx); [discriminate|].
  destruct (decisions (m_den m) b draw s idx) as [ds|e|] eqn:Eds; [|discriminate|now apply decisions_never_oof in Eds].
  destruct (existsb _ ds); [discriminate|]. destruct (negb (znodup (map t_target (s_trans s)))); [discriminate|].
  match goal with |- snd (run_seq ?F ?GS col) <> OOF => destruct (run_seq F GS col) as [c o] eqn:Er end.
  simpl. intros ->. destruct (run_seq_oof _ _ _ _ Er) as [[j aff] [c0 [c1 [_ Hg]]]].
  unfold do_group in Hg. destruct (is_nil aff); [discriminate|].
  destruct (nth_error (outputs s) j) as [[|t]|] eqn:Eo; try discriminate.
  destruct (find_state t (m_states m)) as [st|] eqn:Ef; [|discriminate].
  destruct (s_transient st) eqn:Et; [|discriminate].
  destruct (nth_error_outputs _ _ _ Eo) as [tr [Htr Htt]]. apply nth_error_In in Htr. subst t.
  pose proof (Hd s tr st Hs Htr Ef Et) as Hlt'. destruct (find_state_some _ _ _ Ef) as [Hst _].
  apply (IH st aff (write c0 aff (t_target tr)) Hst ltac:(lia)). now rewrite Hg.
Qed.

Lemma transition_enough_fuel m b draw d tracked col idx fuel : transient_depth m d ->
  (forall s, In s (m_states m) -> (d s < fuel)%nat) -> snd (transition fuel m b draw tracked col idx) <> OOF.
Proof.
  intros Hd Hf. rewrite transition_unfold.
  destruct (run_seq (do_state fuel m b draw tracked col idx) (m_states m) col) as [c o] eqn:Er. simpl. intros ->.
  destruct (run_seq_oof _ _ _ _ Er) as [s [c0 [c1 [Hs Hg]]]]. unfold do_state in Hg.
  destruct (is_nil (affected_of tracked col idx s)); [discriminate|].
  apply (next_state_enough_fuel m b draw d Hd fuel s (affected_of tracked col idx s) c0 Hs (Hf s Hs)). now rewrite Hg.
Qed.

(* ================================================================================================================
   hooks: the log-threading loops project onto the plain ones, and the log of a normal call is [effects]
   ================================================================================================================ *)
Lemma map_write_members col aff t : map (write col aff t) aff = map (fun _ => t) aff.
Proof.
  apply map_ext_in. intros l Hl. unfold write. now rewrite (proj2 (zmem_In l aff) Hl).
Qed.

Definition sim_ok (recw : state -> list label -> world -> world * outcome)
                  (rec : state -> list label -> column -> column * outcome)
                  (eff : state -> list label -> list entry) : Prop :=
  forall st aff w w' o, recw st aff w = (w', o) ->
    rec st aff (fst w) = (fst w', o) /\ (o = Done -> snd w' = snd w ++ eff st aff).

Lemma do_group_sim recw rec eff m outs g w w' o : sim_ok recw rec eff ->
  do_group_w recw m outs g w = (w', o) ->
  do_group rec m outs g (fst w) = (fst w', o) /\ (o = Done -> snd w' = snd w ++ group_entries eff m outs g).
Proof.
  intros Hs. destruct g as [j aff]. unfold do_group_w, do_group, group_entries.
  destruct (is_nil aff).
  { intros H. inversion H; subst. split; [reflexivity|intros _; now rewrite app_nil_r]. }
  destruct (nth_error outs j) as [[|t]|].
  - intros H. inversion H; subst. split; [reflexivity|intros _; now rewrite app_nil_r].
  - destruct (find_state t (m_states m)) as [st|].
    + destruct (s_transient st).
      * intros H. destruct (Hs _ _ _ _ _ H) as [A B]. simpl in A. split; [exact A|].
        intros Ho. rewrite (B Ho). simpl. rewrite map_write_members, <- app_assoc. reflexivity.
      * intros H. inversion H; subst. simpl. split; [reflexivity|]. intros _. now rewrite map_write_members.
    + intros H. inversion H; subst. simpl. split; [reflexivity|]. intros _. now rewrite map_write_members.
  - intros H. inversion H; subst. split; [reflexivity|intros _; now rewrite app_nil_r].
Qed.

Lemma run_seq_sim {G} (fw : G -> world -> world * outcome) (f : G -> column -> column * outcome) (E : G -> list entry) gs :
  (forall g w w' o, In g gs -> fw g w = (w', o) -> f g (fst w) = (fst w', o) /\ (o = Done -> snd w' = snd w ++ E g)) ->
  forall w w' o, run_seq fw gs w = (w', o) ->
  run_seq f gs (fst w) = (fst w', o) /\ (o = Done -> snd w' = snd w ++ flat_map E gs).
Proof.
  induction gs as [|g r IH]; intros H w w' o Hr; simpl in *.
  - inversion Hr; subst. split; [reflexivity|intros _; now rewrite app_nil_r].
  - destruct (fw g w) as [w1 o1] eqn:Eg. destruct (H g w w1 o1 (or_introl eq_refl) Eg) as [A B]. rewrite A.
    destruct o1.
    + destruct (IH (fun g0 a b c Hin => H g0 a b c (or_intror Hin)) w1 w' o Hr) as [C D]. split; [exact C|].
      intros Ho. rewrite (D Ho), (B eq_refl), <- app_assoc. reflexivity.
    + inversion Hr; subst. split; [reflexivity|discriminate].
    + inversion Hr; subst. split; [reflexivity|discriminate].
Qed.

Lemma next_state_sim m b draw : forall fuel,
  sim_ok (next_state_w fuel m b draw) (next_state fuel m b draw) (effects fuel m b draw).
Proof.
  induction fuel as [|f IH]; intros s idx w w' o H; simpl in *.
  - inversion H; subst. split; [reflexivity|discriminate].
  - destruct (is_nil (s_trans s) || is_nil idx).
    { inversion H; subst. split; [reflexivity|intros _; now rewrite app_nil_r]. }
    destruct (decisions (m_den m) b draw s idx) as [ds|e|].
    + destruct (existsb (fun d => (length (outputs s) <=? snd d)%nat) ds).
      { inversion H; subst. split; [reflexivity|discriminate]. }
      destruct (negb (znodup (map t_target (s_trans s)))).
      { inversion H; subst. split; [reflexivity|discriminate]. }
      apply (run_seq_sim _ _ (group_entries (effects f m b draw) m (outputs s)) _
               (fun g a c d _ Hd => do_group_sim _ _ _ m (outputs s) g a c d IH Hd) w w' o H).
    + inversion H; subst. split; [reflexivity|discriminate].
    + inversion H; subst. split; [reflexivity|discriminate].
Qed.

Lemma transition_sim fuel m b draw tracked col idx w' o :
  transition_w fuel m b draw tracked col idx = (w', o) ->
  transition fuel m b draw tracked col idx = (fst w', o) /\
  (o = Done -> snd w' = transition_effects fuel m b draw tracked col idx).
Proof.
  unfold transition_w, transition, transition_effects. intros H.
  apply (run_seq_sim _ (fun s c => let aff := affected_of tracked col idx s in
                                   if is_nil aff then (c, Done) else next_state fuel m b draw s aff c)
                     (fun s => effects fuel m b draw s (affected_of tracked col idx s))) in H.
  - exact H.
  - intros s w w1 o1 _ Hs. cbv zeta in *. destruct (is_nil (affected_of tracked col idx s)) eqn:En.
    + inversion Hs; subst. split; [reflexivity|]. intros _. apply is_nil_false_mem in En. rewrite En.
      destruct fuel; simpl; [now rewrite app_nil_r|]. rewrite orb_true_r. now rewrite app_nil_r.
    + exact (next_state_sim m b draw fuel s _ w w1 o1 Hs).
Qed.

(* every hook sees its whole group already in the new state; groups are never empty *)
Definition entry_ok (e : entry) : Prop := e_members e <> [] /\ e_seen e = map (fun _ => e_state e) (e_members e).

Lemma effects_entries_ok m b draw : forall fuel s idx e, In e (effects fuel m b draw s idx) -> entry_ok e.
Proof.
  induction fuel as [|f IH]; intros s idx e H; simpl in H; [contradiction|].
  destruct (is_nil (s_trans s) || is_nil idx); [contradiction|].
  destruct (decisions (m_den m) b draw s idx) as [ds| |]; try contradiction.
  apply in_flat_map in H as [[j aff] [_ H]]. unfold group_entries in H.
  destruct (is_nil aff) eqn:En; [contradiction|].
  destruct (nth_error (outputs s) j) as [[|t]|]; try contradiction.
  destruct H as [<-|H].
  - split; simpl; [intros ->; discriminate|reflexivity].
  - destruct (find_state t (m_states m)) as [st|]; [|contradiction].
    destruct (s_transient st); [|contradiction]. exact (IH _ _ _ H).
Qed.

Lemma effects_members m b draw : forall fuel s idx e l, In e (effects fuel m b draw s idx) -> In l (e_members e) -> In l idx.
Proof.
  induction fuel as [|f IH]; intros s idx e l H Hl; simpl in H; [contradiction|].
  destruct (is_nil (s_trans s) || is_nil idx); [contradiction|].
  destruct (decisions (m_den m) b draw s idx) as [ds| |] eqn:Eds; try contradiction.
  destruct (decisions_spec _ _ _ _ _ _ Eds) as [Dfst _].
  apply in_flat_map in H as [[j aff] [Hg H]].
  apply (Permutation_in _ (Permutation_sym (sort_groups_perm _ _))), groups_In in Hg as [j' [_ Hg]].
  inversion Hg; subst j' aff. clear Hg.
  assert (Hsub : forall x, In x (group_of ds j) -> In x idx).
  { intros x Hx. apply group_of_In in Hx. rewrite <- Dfst. apply (in_map fst _ _ Hx). }
  unfold group_entries in H. destruct (is_nil (group_of ds j)); [contradiction|].
  destruct (nth_error (outputs s) j) as [[|t]|]; try contradiction.
  destruct H as [<-|H]; [now apply Hsub|].
  destruct (find_state t (m_states m)) as [st|]; [|contradiction].
  destruct (s_transient st); [|contradiction]. apply Hsub. exact (IH _ _ _ _ H Hl).
Qed.

(* ================================================================================================================
   per simulant: the hooks that saw it are exactly the states it was written into, in that order
   ================================================================================================================ *)
Lemma seen_by_app l l1 l2 : seen_by l (l1 ++ l2) = seen_by l l1 ++ seen_by l l2.
Proof. unfold seen_by. now rewrite filter_app, map_app. Qed.

Lemma seen_by_flat_map {G} l (F : G -> list entry) gs : seen_by l (flat_map F gs) = flat_map (fun g => seen_by l (F g)) gs.
Proof. induction gs as [|g r IH]; simpl; [reflexivity|]. now rewrite seen_by_app, IH. Qed.

Lemma flat_map_all_nil {G A} (P : G -> list A) gs : (forall g, In g gs -> P g = []) -> flat_map P gs = [].
Proof.
  induction gs as [|g r IH]; intros H; simpl; [reflexivity|].
  rewrite (H g (or_introl eq_refl)), IH; [reflexivity|]. intros g0 Hg0. apply H. now right.
Qed.

Lemma flat_map_single {G A} (P : G -> list A) gs g0 :
  NoDup gs -> In g0 gs -> (forall g, In g gs -> g <> g0 -> P g = []) -> flat_map P gs = P g0.
Proof.
  induction gs as [|g r IH]; intros Hnd Hin Hz; simpl; [contradiction|]. inversion Hnd; subst.
  destruct Hin as [->|Hin].
  - rewrite (flat_map_all_nil P r); [now rewrite app_nil_r|].
    intros g1 Hg1. apply Hz; [now right|]. intros ->. contradiction.
  - rewrite (Hz g (or_introl eq_refl)); [|intros ->; contradiction]. simpl.
    apply IH; auto. intros g1 Hg1. apply Hz. now right.
Qed.

Lemma all_decide_ok D b draw s idx : (forall i, In i idx -> exists k, decide D b draw s i = Ok k) ->
  exists ds, decisions D b draw s idx = Ok ds.
Proof.
  induction idx as [|i r IH]; intros H; simpl; [now exists []|].
  destruct (H i (or_introl eq_refl)) as [k ->].
  destruct (IH (fun j Hj => H j (or_intror Hj))) as [ds ->]. now eexists.
Qed.

Lemma walk_ok_decide m b draw f s l r : walk (S f) m b draw s l = Ok r -> is_nil (s_trans s) = false ->
  exists k, decide (m_den m) b draw s l = Ok k.
Proof.
  simpl. intros H En. rewrite En in H. destruct (decide (m_den m) b draw s l) as [k| |]; try discriminate. now exists k.
Qed.

Lemma walk_ok_inner m b draw f s l r k t st : walk (S f) m b draw s l = Ok r -> is_nil (s_trans s) = false ->
  decide (m_den m) b draw s l = Ok k -> nth_error (outputs s) k = Some (OState t) ->
  find_state t (m_states m) = Some st -> s_transient st = true -> exists r', walk f m b draw st l = Ok r'.
Proof.
  simpl. intros H En Hd Ho Hf Ht. rewrite En, Hd in H.
  destruct (negb (znodup (map t_target (s_trans s)))); [discriminate|]. rewrite Ho, Hf, Ht in H.
  destruct (walk f m b draw st l) as [r'| |]; try discriminate. now exists r'.
Qed.

Lemma groups_NoDup n ds : NoDup (groups n ds).
Proof.
  apply (NoDup_map_inv fst). rewrite groups_tags. apply seq_NoDup.
Qed.

Lemma effects_seen_by m b draw : forall fuel s idx,
  (forall l, In l idx -> exists r, walk fuel m b draw s l = Ok r) ->
  forall l, seen_by l (effects fuel m b draw s idx) = if zmem l idx then trail fuel m b draw s l else [].
Proof.
  induction fuel as [|f IH]; intros s idx Hw l; simpl.
  { now destruct (zmem l idx). }
  destruct (is_nil (s_trans s)) eqn:Ent; simpl; [now destruct (zmem l idx)|].
  destruct (is_nil idx) eqn:Eni; simpl.
  { apply is_nil_false_mem in Eni. now subst. }
  destruct (all_decide_ok (m_den m) b draw s idx) as [ds Eds].
  { intros i Hi. destruct (Hw i Hi) as [r Hr]. exact (walk_ok_decide m b draw f s i r Hr Ent). }
  rewrite Eds. destruct (decisions_spec _ _ _ _ _ _ Eds) as [Dfst [Dsound Dcompl]].
  set (outs := outputs s) in *.
  set (gs := sort_groups (group_rank m outs) (groups (length outs) ds)).
  assert (Hperm : Permutation (groups (length outs) ds) gs) by apply sort_groups_perm.
  assert (Hnd : NoDup gs) by (apply (Permutation_NoDup Hperm), groups_NoDup).
  rewrite seen_by_flat_map.
  (* what one group contributes to l *)
  assert (Hone : forall j, seen_by l (group_entries (effects f m b draw) m outs (j, group_of ds j)) =
                           if zmem l (group_of ds j)
                           then match nth_error outs j with
                                | Some (OState t) =>
                                    t :: match find_state t (m_states m) with
                                         | Some st => if s_transient st then trail f m b draw st l else []
                                         | None => []
                                         end
                                | _ => []
                                end
                           else []).
  { intros j. unfold group_entries. destruct (is_nil (group_of ds j)) eqn:En.
    - apply is_nil_false_mem in En. rewrite En. reflexivity.
    - destruct (nth_error outs j) as [[|t]|] eqn:Eo; try (now destruct (zmem l (group_of ds j))).
      unfold seen_by at 1. simpl filter. simpl e_members.
      assert (Hrest : seen_by l (match find_state t (m_states m) with
                                 | Some st => if s_transient st then effects f m b draw st (group_of ds j) else []
                                 | None => [] end) =
                      if zmem l (group_of ds j)
                      then match find_state t (m_states m) with
                           | Some st => if s_transient st then trail f m b draw st l else []
                           | None => [] end
                      else []).
      { destruct (find_state t (m_states m)) as [st|] eqn:Ef; [|now destruct (zmem l (group_of ds j))].
        destruct (s_transient st) eqn:Et; [|now destruct (zmem l (group_of ds j))].
        apply IH. intros l' Hl'. apply group_of_In in Hl'.
        assert (Hl'i : In l' idx) by (rewrite <- Dfst; apply (in_map fst _ _ Hl')).
        destruct (Hw l' Hl'i) as [r Hr].
        exact (walk_ok_inner m b draw f s l' r j t st Hr Ent (Dsound _ _ Hl') Eo Ef Et). }
      unfold seen_by in Hrest. destruct (zmem l (group_of ds j)); simpl; [now rewrite Hrest|exact Hrest]. }
  destruct (zmem l idx) eqn:Ez.
  - apply zmem_In in Ez. destruct (Dcompl l Ez) as [k [Hdk Hlk]]. rewrite Hdk.
    destruct (Hw l Ez) as [r Hr].
    assert (Hkr : (k < length outs)%nat).
    { simpl in Hr. rewrite Ent, Hdk in Hr. destruct (negb (znodup (map t_target (s_trans s)))); [discriminate|].
      apply nth_error_Some. fold outs in Hr. destruct (nth_error outs k); [discriminate|discriminate]. }
    rewrite (flat_map_single _ gs (k, group_of ds k) Hnd).
    + rewrite Hone. rewrite (proj2 (zmem_In l _) (proj2 (group_of_In ds k l) Hlk)). reflexivity.
    + apply (Permutation_in _ Hperm), groups_In. now exists k.
    + intros g Hg Hne. apply (Permutation_in _ (Permutation_sym Hperm)), groups_In in Hg as [j [Hj ->]].
      rewrite Hone. destruct (zmem l (group_of ds j)) eqn:Em; [|reflexivity]. exfalso.
      apply zmem_In, group_of_In in Em. rewrite (Dsound _ _ Em) in Hdk. inversion Hdk; subst. now apply Hne.
  - apply flat_map_all_nil. intros g Hg.
    apply (Permutation_in _ (Permutation_sym Hperm)), groups_In in Hg as [j [Hj ->]]. rewrite Hone.
    destruct (zmem l (group_of ds j)) eqn:Em; [|reflexivity]. exfalso.
    apply zmem_In, group_of_In in Em. assert (In l idx) by (rewrite <- Dfst; apply (in_map fst _ _ Em)).
    apply zmem_In in H. congruence.
Qed.

(* the trail of a defined walk ends where the walk ends; an unmoved simulant has an empty trail *)
Lemma trail_walk m b draw : forall fuel s l r, walk fuel m b draw s l = Ok r ->
  match r with
  | Some t => trail fuel m b draw s l <> [] /\ last (trail fuel m b draw s l) 0 = t
  | None => trail fuel m b draw s l = []
  end.
Proof.
  induction fuel as [|f IH]; intros s l r H; simpl in *; [discriminate|].
  destruct (is_nil (s_trans s)); [now inversion H|].
  destruct (decide (m_den m) b draw s l) as [k| |]; try discriminate.
  destruct (negb (znodup (map t_target (s_trans s)))); [discriminate|].
  destruct (nth_error (outputs s) k) as [[|t]|]; try discriminate; [now inversion H|].
  destruct (find_state t (m_states m)) as [st|].
  - destruct (s_transient st).
    + destruct (walk f m b draw st l) as [[t'|]| |] eqn:Ew; try discriminate; inversion H; subst.
      * destruct (IH _ _ _ Ew) as [Hne Hl]. split; [discriminate|].
        destruct (trail f m b draw st l); [congruence|exact Hl].
      * rewrite (IH _ _ _ Ew). split; [discriminate|reflexivity].
    + inversion H; subst. split; [discriminate|reflexivity].
  - inversion H; subst. split; [discriminate|reflexivity].
Qed.

Lemma transition_seen_by fuel m b draw tracked col idx col' l :
  NoDup (map s_id (m_states m)) ->
  transition fuel m b draw tracked col idx = (col', Done) ->
  seen_by l (transition_effects fuel m b draw tracked col idx) = own_trail fuel m b draw tracked col idx l.
Proof.
  intros Hnd H. destruct (transition_closed_form _ _ _ _ _ _ _ _ Hnd H) as [_ Htot].
  unfold transition_effects, own_trail. rewrite seen_by_flat_map.
  assert (Hone : forall s, In s (m_states m) ->
            seen_by l (effects fuel m b draw s (affected_of tracked col idx s)) =
            if zmem l (affected_of tracked col idx s) then trail fuel m b draw s l else []).
  { intros s Hs. apply effects_seen_by. intros l' Hl'. apply affected_In in Hl' as [Hi [Ht Hc]].
    apply (Htot l' s Hi Ht). rewrite Hc. now apply find_state_unique. }
  assert (Hndl : NoDup (m_states m)) by (apply (NoDup_map_inv s_id); assumption).
  destruct (zmem l idx && tracked l) eqn:Ez.
  - apply andb_true_iff in Ez as [Ez Et]. apply zmem_In in Ez.
    destruct (find_state (col l) (m_states m)) as [s|] eqn:Ef.
    + destruct (find_state_some _ _ _ Ef) as [Hs Hid].
      rewrite (flat_map_single _ (m_states m) s Hndl Hs).
      * rewrite (Hone s Hs). rewrite (proj2 (zmem_In l _)); [reflexivity|]. apply affected_In. auto.
      * intros s' Hs' Hne. rewrite (Hone s' Hs'). destruct (zmem l (affected_of tracked col idx s')) eqn:Em; [|reflexivity].
        exfalso. apply zmem_In, affected_In in Em as [_ [_ Hc]]. apply Hne.
        pose proof (find_state_unique _ _ Hnd Hs') as H1. rewrite <- Hc, Ef in H1. now inversion H1.
    + apply flat_map_all_nil. intros s Hs. rewrite (Hone s Hs).
      destruct (zmem l (affected_of tracked col idx s)) eqn:Em; [|reflexivity]. exfalso.
      apply zmem_In, affected_In in Em as [_ [_ Hc]]. now apply (find_state_none _ _ Ef s Hs).
  - apply flat_map_all_nil. intros s Hs. rewrite (Hone s Hs).
    destruct (zmem l (affected_of tracked col idx s)) eqn:Em; [|reflexivity]. exfalso.
    apply zmem_In, affected_In in Em as [Hi [Ht _]]. apply zmem_In in Hi. rewrite Hi, Ht in Ez. discriminate.
Qed.

(* Machine.cleanup *)
Lemma map_filter_flat_map {A B C} (p : B -> bool) (h : B -> C) (F : A -> list B) l :
  map h (filter p (flat_map F l)) = flat_map (fun a => map h (filter p (F a))) l.
Proof. induction l as [|a r IH]; simpl; [reflexivity|]. now rewrite filter_app, map_app, IH. Qed.

Lemma cleanup_seen m tracked col idx l : NoDup (map s_id (m_states m)) ->
  map fst (filter (fun c => zmem l (snd c)) (cleanup_calls m tracked col idx)) =
  if zmem l idx && tracked l
  then match find_state (col l) (m_states m) with Some s => [s_id s] | None => [] end
  else [].
Proof.
  intros Hnd. unfold cleanup_calls. rewrite map_filter_flat_map.
  pose (P := fun s : state => map fst (filter (fun c : sid * list label => zmem l (snd c))
                (let aff := affected_of tracked col idx s in if is_nil aff then [] else [(s_id s, aff)]))).
  match goal with |- flat_map ?F _ = _ => change F with P end.
  assert (Hone : forall s, P s = if zmem l (affected_of tracked col idx s) then [s_id s] else []).
  { intros s. unfold P. cbv zeta. destruct (is_nil (affected_of tracked col idx s)) eqn:En.
    - apply is_nil_false_mem in En. now rewrite En.
    - simpl. now destruct (zmem l (affected_of tracked col idx s)). }
  assert (Hndl : NoDup (m_states m)) by (apply (NoDup_map_inv s_id); assumption).
  destruct (zmem l idx && tracked l) eqn:Ez.
  - apply andb_true_iff in Ez as [Ez Et]. apply zmem_In in Ez.
    destruct (find_state (col l) (m_states m)) as [s|] eqn:Ef.
    + destruct (find_state_some _ _ _ Ef) as [Hs Hid].
      rewrite (flat_map_single P (m_states m) s Hndl Hs).
      * rewrite Hone, (proj2 (zmem_In l _)); [reflexivity|]. apply affected_In. auto.
      * intros s' Hs' Hne. rewrite Hone. destruct (zmem l (affected_of tracked col idx s')) eqn:Em; [|reflexivity].
        exfalso. apply zmem_In, affected_In in Em as [_ [_ Hc]]. apply Hne.
        pose proof (find_state_unique _ _ Hnd Hs') as H1. rewrite <- Hc, Ef in H1. now inversion H1.
    + apply flat_map_all_nil. intros s Hs. rewrite Hone.
      destruct (zmem l (affected_of tracked col idx s)) eqn:Em; [|reflexivity]. exfalso.
      apply zmem_In, affected_In in Em as [_ [_ Hc]]. now apply (find_state_none _ _ Ef s Hs).
  - apply flat_map_all_nil. intros s Hs. rewrite Hone.
    destruct (zmem l (affected_of tracked col idx s)) eqn:Em; [|reflexivity]. exfalso.
    apply zmem_In, affected_In in Em as [Hi [Ht _]]. apply zmem_In in Hi. rewrite Hi, Ht in Ez. discriminate.
Qed.

(* ================================================================================================================
   packaged statements about hooks (exposed by props/C17.v)
   ================================================================================================================ *)
Lemma hooks_after_write fuel m b draw tracked col idx col' log :
  transition_w fuel m b draw tracked col idx = ((col', log), Done) ->
  transition fuel m b draw tracked col idx = (col', Done) /\
  log = transition_effects fuel m b draw tracked col idx /\
  forall e, In e log -> e_members e <> [] /\ e_seen e = map (fun _ => e_state e) (e_members e) /\
                        forall l, In l (e_members e) -> In l idx /\ tracked l = true.
Proof.
  intros H. destruct (transition_sim _ _ _ _ _ _ _ _ _ H) as [A B]. simpl in *.
  split; [exact A|]. specialize (B eq_refl). split; [exact B|]. subst log.
  intros e He. unfold transition_effects in He. apply in_flat_map in He as [s [_ He]].
  destruct (effects_entries_ok m b draw _ _ _ _ He) as [E1 E2]. split; [exact E1|]. split; [exact E2|].
  intros l Hl. pose proof (effects_members m b draw _ _ _ _ l He Hl) as Hin. apply affected_In in Hin. tauto.
Qed.

Lemma hooks_exactly_once fuel m b draw tracked col idx col' :
  NoDup (map s_id (m_states m)) ->
  transition fuel m b draw tracked col idx = (col', Done) ->
  forall l, seen_by l (transition_effects fuel m b draw tracked col idx) = own_trail fuel m b draw tracked col idx l /\
            (own_trail fuel m b draw tracked col idx l = [] -> col' l = col l) /\
            (own_trail fuel m b draw tracked col idx l <> [] ->
               last (own_trail fuel m b draw tracked col idx l) 0 = col' l).
Proof.
  intros Hnd H l. split; [now apply (transition_seen_by fuel m b draw tracked col idx col')|].
  destruct (transition_closed_form _ _ _ _ _ _ _ _ Hnd H) as [Hcf Htot]. rewrite (Hcf l).
  unfold own_trail, own_destination. destruct (zmem l idx && tracked l) eqn:Ez; [|split; [reflexivity|congruence]].
  apply andb_true_iff in Ez as [Ez Et]. apply zmem_In in Ez.
  destruct (find_state (col l) (m_states m)) as [s|] eqn:Ef; [|split; [reflexivity|congruence]].
  destruct (Htot l s Ez Et Ef) as [r Hr]. rewrite Hr. pose proof (trail_walk m b draw fuel s l r Hr) as Ht.
  destruct r as [t|]; simpl.
  - destruct Ht as [Hne Hl]. split; [congruence|intros _; exact Hl].
  - rewrite Ht. split; [reflexivity|congruence].
Qed.
