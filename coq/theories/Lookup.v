(* Model of vivarium/framework/lookup (DESIGN.md C15): ScalarTable / CategoricalTable / InterpolatedTable.call,
   Interpolation.__init__/__call__, Order0Interp.__init__/__call__, check_data_complete.

   Everything is over Z.  Key categories are numbers (the harness interns the category strings in sorted order),
   bin edges / attribute values are scaled integers (the harness multiplies every value of a parameter by one common
   denominator: 8 for ordinary parameters - all generated values are multiples of 1/8 - and 8*1461 for `year`, whose
   value year + yday/365.25 has denominator 1461), data values are integers.  Comparisons of the floats are
   comparisons of these integers (DESIGN.md section 4).

   anchors (line numbers of /repo/src/vivarium/framework/lookup/...):
     table.py         ScalarTable.call 276-300           -> [scalar_call]
                      CategoricalTable.call 228-261      -> [cat_group], [cat_call]
                      InterpolatedTable.call 161-182     -> [gather], [with_year], [year_value], [table_call]
     interpolation.py Interpolation.__init__ 69-92       -> [group] (one Order0Interp per key tuple present in the data)
                      Interpolation.__call__ 94-132      -> [run_groups], [by_groups], [interp_call]
                                                            (result.loc[labels] = df.loc[labels])
                      Order0Interp.__init__ 309-327      -> [edges] (sorted distinct left edges), [max_right]
                      Order0Interp.__call__ 329-370      -> [digitize], [clamp], [out_of_range], [merge_left], [order0]
                      check_data_complete 193-262        -> [check_sub], [check_complete], [valid]
                      validate_parameters 138-163        -> the non-empty / at-least-one-parameter part of [valid]

   Evaluation cost matters (the correspondence runs this model inside Coq on every case): quantities that the code
   computes once per Order0Interp (the sorted left edges of every parameter) are computed once per group here too
   ([all_edges], passed down), and the validation is run once per key tuple ([keys_of]).  The per-simulant
   specification [lookup_row] / [lookup_one] at the end is written without that sharing; LookupProofs.v proves the
   two agree. *)
From Viv Require Import Common.
Local Open Scope Z_scope.

(* ------------------------------------------------------------------------------------------------------------ *)
(* data                                                                                                         *)
(* ------------------------------------------------------------------------------------------------------------ *)
Record row := mkRow {
  rkeys : list Z;            (* key (categorical) columns, in key_columns order *)
  rbins : list (Z * Z);      (* per parameter, in parameter_columns order: (p_start, p_end) *)
  rvals : list Z             (* value columns, in value_columns order *)
}.
Record simulant := mkSim {
  skeys : list Z;            (* the simulant's attributes for the key columns; a missing value (None / NaN) is [nan_key] *)
  sparams : list Z;          (* ... and for the parameter columns (the slot of `year` is filled in by the table) *)
  snans : list Z;            (* positions (parameter numbers) whose attribute is NaN; the number in [sparams] at such a
                                position is meaningless *)
  sbads : list Z             (* positions whose attribute is not a number at all (a string in an object column) *)
}.
Definition nan_key : Z := -1.

Definition starts (r : row) : list Z := map fst (rbins r).
Definition stops (r : row) : list Z := map snd (rbins r).
Definition start (p : nat) (r : row) : Z := nth p (starts r) 0.
Definition stop (p : nat) (r : row) : Z := nth p (stops r) 0.

(* a returned frame: labels in order, each with its value cells; None = a row of NaN (left merge without a match) *)
Definition cells := option (list Z).
Definition frame := list (Z * cells).

(* ------------------------------------------------------------------------------------------------------------ *)
(* small library                                                                                                *)
(* ------------------------------------------------------------------------------------------------------------ *)
(* Series.drop_duplicates().sort_values(): strictly increasing list of the distinct values *)
Fixpoint insert_u (x : Z) (l : list Z) : list Z :=
  match l with
  | [] => [x]
  | y :: r => if x <? y then x :: l else if x =? y then l else y :: insert_u x r
  end.
Definition sort_u (l : list Z) : list Z := fold_right insert_u [] l.

(* groupby keys: sorted distinct tuples (lexicographic) *)
Fixpoint lex_ltb (a b : list Z) : bool :=
  match a, b with
  | [], [] => false
  | [], _ :: _ => true
  | _ :: _, [] => false
  | x :: a', y :: b' => (x <? y) || ((x =? y) && lex_ltb a' b')
  end.
Fixpoint insert_key (x : list Z) (l : list (list Z)) : list (list Z) :=
  match l with
  | [] => [x]
  | y :: r => if zlist_eqb x y then l else if lex_ltb x y then x :: l else y :: insert_key x r
  end.
Definition sort_keys (l : list (list Z)) : list (list Z) := fold_right insert_key [] l.

(* Series.min() / Series.max() of a non-empty column (0 for the empty column, never used: empty groups are skipped) *)
Definition col_min (xs : list Z) : Z := match xs with [] => 0 | x :: r => fold_left Z.min r x end.
Definition col_max (xs : list Z) : Z := match xs with [] => 0 | x :: r => fold_left Z.max r x end.

Fixpoint set_nth (p : nat) (v : Z) (l : list Z) : list Z :=
  match l, p with
  | [], _ => []
  | _ :: r, O => v :: r
  | x :: r, S q => x :: set_nth q v r
  end.

Definition is_nil {A} (l : list A) : bool := match l with [] => true | _ => false end.

(* ------------------------------------------------------------------------------------------------------------ *)
(* Order0Interp                                                                                                 *)
(* ------------------------------------------------------------------------------------------------------------ *)
(* np.digitize(x, bins) (right=False) on increasing bins = number of bins b with b <= x *)
Fixpoint digitize (x : Z) (bins : list Z) : nat :=
  match bins with [] => O | b :: r => if b <=? x then S (digitize x r) else digitize x r end.
(* bin_indices[bin_indices > 0] -= 1 *)
Definition clamp (i : nat) : nat := match i with O => O | S j => j end.
(* bins.loc[bin_indices] *)
Definition chosen_edge (bins : list Z) (x : Z) : Z := nth (clamp (digitize x bins)) bins 0.

(* Interpolation.__init__: data.groupby(key columns) -> the rows of one key tuple *)
Definition group (d : list row) (key : list Z) : list row := filter (fun r => zlist_eqb (rkeys r) key) d.

(* Order0Interp.__init__: parameter_bins[p] = {bins: sorted distinct left edges, max: largest right edge} *)
Definition edges (G : list row) (p : nat) : list Z := sort_u (map (start p) G).
Definition max_right (G : list row) (p : nat) : Z := col_max (map (stop p) G).
Definition all_edges (G : list row) (k : nat) : list (list Z) := map (edges G) (seq 0 k).

Definition param (p : nat) (s : simulant) : Z := nth p (sparams s) 0.
Definition isnan (p : nat) (s : simulant) : bool := zmem (Z.of_nat p) (snans s).
Definition isbad (p : nat) (s : simulant) : bool := zmem (Z.of_nat p) (sbads s).
Definition any_bad (k : nat) (s : simulant) : bool := existsb (fun p => isbad p s) (seq 0 k).
Definition key_has_nan (key : list Z) : bool := zmem nan_key key.

(* NaN attributes (the code as it is): np.digitize(NaN, bins) = len(bins), so the clamp selects the LAST bin; and
   Series.min() / .max() skip NaN, so a NaN never triggers the range test - not even with extrapolation off. *)
Definition chosen_edge_s (bins : list Z) (p : nat) (s : simulant) : Z :=
  if isnan p s then nth (length bins - 1) bins 0 else chosen_edge bins (param p s).

(* `interpolant_col.min() < bins[0] or interpolant_col.max() >= max_right` for parameter p over the sub-table ss *)
Definition out_of_range (G : list row) (p : nat) (ss : list (Z * simulant)) : bool :=
  let xs := map (fun s => param p (snd s)) (filter (fun s => negb (isnan p (snd s))) ss) in
  if is_nil xs then false                                    (* min / max of an all-NaN column are NaN: both tests False *)
  else (col_min xs <? hd 0 (edges G p)) || (max_right G p <=? col_max xs).

(* the left edges chosen for one simulant, one per parameter; Es = the edge lists of parameters p, p+1, ... *)
Fixpoint chosen_from (p : nat) (Es : list (list Z)) (s : simulant) : list Z :=
  match Es with
  | [] => []
  | E :: r => chosen_edge_s E p s :: chosen_from (S p) r s
  end.
(* rows of the group whose left edges equal the chosen ones: what the merge on the *_start columns pairs up *)
Definition matches (G : list row) (c : list Z) : list row := filter (fun r => zlist_eqb (starts r) c) G.

(* interpolant_bins.merge(self.data, how="left", on=start columns): left order kept, one output row per match,
   a single NaN row when nothing matches *)
Definition merge_left (G : list row) (Es : list (list Z)) (ss : list (Z * simulant)) : list cells :=
  flat_map (fun s => match matches G (chosen_from 0 Es (snd s)) with
                     | [] => [None]
                     | ms => map (fun r => Some (rvals r)) ms
                     end) ss.

(* Order0Interp.__call__ on the non-empty sub-table ss of one key group; ValueError = EConfig.
   `.set_index(index)` is positional and raises (ValueError: Length mismatch) when the merge changed the row count *)
Definition order0 (ext : bool) (G : list row) (k : nat) (ss : list (Z * simulant)) : result frame :=
  (* a non-numeric attribute anywhere in the sub-table: Series.min() / np.digitize raise TypeError *)
  if existsb (fun s => any_bad k (snd s)) ss then Rejected EOther else
  if negb ext && existsb (fun p => out_of_range G p ss) (seq 0 k) then Rejected EConfig
  else let m := merge_left G (all_edges G k) ss in
       if (length m =? length ss)%nat then Ok (combine (map fst ss) m) else Rejected EConfig.

(* ------------------------------------------------------------------------------------------------------------ *)
(* Interpolation.__call__ / CategoricalTable.call: the loop over the key groups of the request                  *)
(* ------------------------------------------------------------------------------------------------------------ *)
(* result.loc[labels of df] = df : label-addressed assignment *)
Definition assign (res df : frame) : frame :=
  map (fun lv => match zassoc (fst lv) df with Some v => (fst lv, v) | None => lv end) res.

Definition sub_table (ss : list (Z * simulant)) (key : list Z) : list (Z * simulant) :=
  filter (fun s => zlist_eqb (skeys (snd s)) key) ss.

Section Groups.
  (* what is done with the sub-table of one key tuple *)
  Variable f : list Z -> list (Z * simulant) -> result frame.

  (* for key, sub_table in interpolants.groupby(keys): call it, write its rows into the result by label *)
  Fixpoint run_groups (ss : list (Z * simulant)) (keys : list (list Z)) (res : frame) : result frame :=
    match keys with
    | [] => Ok res
    | key :: rest =>
        match f key (sub_table ss key) with
        | Ok df => run_groups ss rest (assign res df)
        | Rejected e => Rejected e
        | OutOfFuel => OutOfFuel
        end
    end.

  (* result = DataFrame(index=interpolants.index, dtype=float64)  (all NaN), then the groups in sorted key order;
     groupby drops the rows whose key tuple has a missing value (dropna=True): they belong to no group and keep their
     row of NaN *)
  Definition request_keys (ss : list (Z * simulant)) : list (list Z) :=
    sort_keys (filter (fun key => negb (key_has_nan key)) (map (fun s => skeys (snd s)) ss)).
  Definition by_groups (ss : list (Z * simulant)) : result frame :=
    run_groups ss (request_keys ss) (map (fun s => (fst s, None)) ss).
End Groups.

(* self.interpolations[key] (KeyError = EPopulation when the data has no row with that key tuple) *)
Definition interp_group (ext : bool) (d : list row) (k : nat) (key : list Z) (sub : list (Z * simulant)) : result frame :=
  match group d key with
  | [] => Rejected EPopulation
  | G => order0 ext G k sub
  end.

Definition interp_call (ext : bool) (d : list row) (k : nat) (ss : list (Z * simulant)) : result frame :=
  by_groups (interp_group ext d k) ss.

(* ------------------------------------------------------------------------------------------------------------ *)
(* InterpolatedTable.call                                                                                       *)
(* ------------------------------------------------------------------------------------------------------------ *)
(* population_view.get(index): state_table.loc[index] (labels in request order; KeyError for an unknown label);
   the view contains `tracked`, so no tracked filter is applied *)
Fixpoint gather (pop : list (Z * simulant)) (idx : list Z) : option (list (Z * simulant)) :=
  match idx with
  | [] => Some []
  | i :: r => match zassoc i pop, gather pop r with
              | Some s, Some l => Some ((i, s) :: l)
              | _, _ => None
              end
  end.

(* pop["year"] = clock().year + clock().timetuple().tm_yday / 365.25   (table.py 176-180).
   Scaled by 1461*D (365.25 = 1461/4): D * (1461*year + 4*yday). *)
Definition year_value (D y yday : Z) : Z := D * (1461 * y + 4 * yday).

Definition with_year (ypos : option nat) (yv : Z) (s : simulant) : simulant :=
  match ypos with
  | None => s
  | Some p => mkSim (skeys s) (set_nth p yv (sparams s)) (filter (fun q => negb (q =? Z.of_nat p)) (snans s))
                    (filter (fun q => negb (q =? Z.of_nat p)) (sbads s))
  end.
Definition with_year_all (ypos : option nat) (yv : Z) (ss : list (Z * simulant)) : list (Z * simulant) :=
  map (fun s => (fst s, with_year ypos yv (snd s))) ss.

(* ypos = position of `year` among the parameter columns (if any); yv = the value the table puts there *)
Definition table_call (ext : bool) (d : list row) (k : nat) (ypos : option nat) (yv : Z)
                      (pop : list (Z * simulant)) (idx : list Z) : result frame :=
  match gather pop idx with
  | None => Rejected EPopulation
  | Some ss => interp_call ext d k (with_year_all ypos yv ss)
  end.

(* ------------------------------------------------------------------------------------------------------------ *)
(* one simulant on its own: the specification the theorems are about (C15_local ties table_call to it)           *)
(* ------------------------------------------------------------------------------------------------------------ *)
Definition chosen (G : list row) (k : nat) (s : simulant) : list Z :=
  map (fun p => chosen_edge_s (edges G p) p s) (seq 0 k).
Definition low_edge (G : list row) (p : nat) : Z := hd 0 (edges G p).
Definition out_one (G : list row) (p : nat) (x : Z) : bool := (x <? low_edge G p) || (max_right G p <=? x).
Definition out_one_s (G : list row) (p : nat) (s : simulant) : bool := negb (isnan p s) && out_one G p (param p s).

(* a missing key attribute: no group, a row of NaN (silently); an unknown key tuple: KeyError *)
Definition lookup_row (ext : bool) (d : list row) (k : nat) (s : simulant) : result (option row) :=
  if key_has_nan (skeys s) then Ok None else
  match group d (skeys s) with
  | [] => Rejected EPopulation
  | G => if any_bad k s then Rejected EOther
         else if negb ext && existsb (fun p => out_one_s G p s) (seq 0 k) then Rejected EConfig
         else match matches G (chosen G k s) with
              | [] => Ok None
              | [r] => Ok (Some r)
              | _ => Rejected EConfig
              end
  end.

Definition lookup_one (ext : bool) (d : list row) (k : nat) (s : simulant) : result cells :=
  match lookup_row ext d k s with
  | Ok o => Ok (option_map rvals o)
  | Rejected e => Rejected e
  | OutOfFuel => OutOfFuel
  end.

(* "the call on the whole request is the per-simulant function mapped over the request": first failure wins here;
   WHICH error the real code reports when several simulants fail is not local, so results are compared with [agree] *)
Fixpoint map_res (h : simulant -> result cells) (ss : list (Z * simulant)) : result frame :=
  match ss with
  | [] => Ok []
  | s :: r => match h (snd s) with
              | Ok v => match map_res h r with
                        | Ok l => Ok ((fst s, v) :: l)
                        | Rejected e => Rejected e
                        | OutOfFuel => OutOfFuel
                        end
              | Rejected e => Rejected e
              | OutOfFuel => OutOfFuel
              end
  end.

Definition agree {A} (a b : result A) : Prop :=
  match a, b with
  | Ok x, Ok y => x = y
  | Rejected _, Rejected _ => True
  | _, _ => False
  end.

(* ------------------------------------------------------------------------------------------------------------ *)
(* validation: check_data_complete per key group (Order0Interp.__init__ with validate=True)                      *)
(* ------------------------------------------------------------------------------------------------------------ *)
(* a == b on every coordinate except p: "same sub-table of data.groupby(left edges of the OTHER parameters)" *)
Fixpoint eq_except (p : nat) (a b : list Z) : bool :=
  match a, b with
  | [], [] => true
  | x :: a', y :: b' => match p with O => zlist_eqb a' b' | S q => (x =? y) && eq_except q a' b' end
  | _, _ => false
  end.

(* sort_values(by=start) of the (start, end) pairs *)
Fixpoint insert_bin (b : Z * Z) (l : list (Z * Z)) : list (Z * Z) :=
  match l with
  | [] => [b]
  | c :: r => if fst b <=? fst c then b :: l else c :: insert_bin b r
  end.
Definition sort_bins (l : list (Z * Z)) : list (Z * Z) := fold_right insert_bin [] l.

(* for i in 1..: e = end[i-1]; s = start[i];  `e > s or s == start[i-1]` -> ValueError,  `e < s` -> NotImplementedError *)
Fixpoint contiguous (l : list (Z * Z)) : bool :=
  match l with
  | b0 :: ((b1 :: _) as r) => negb (fst b1 =? fst b0) && (snd b0 =? fst b1) && contiguous r
  | _ => true
  end.

(* the sub-table of parameter p that contains row r (rows agreeing with r on the other parameters' left edges):
   it must show every distinct left edge of p (len(set(start)) < n_p_total -> ValueError; n = n_p_total), reach the
   parameter's overall largest right edge (end.max() != data[p_end].max() -> ValueError; mr = that maximum; added by
   fix 1620b43e, finding F-AC) and be contiguous *)
Definition sub_of (G : list row) (p : nat) (r : row) : list row :=
  filter (fun r' => eq_except p (starts r) (starts r')) G.
Definition bins_of (T : list row) (p : nat) : list (Z * Z) := map (fun r' => (start p r', stop p r')) T.
Definition check_sub (G : list row) (p : nat) (n : nat) (mr : Z) (r : row) : bool :=
  let T := sub_of G p r in
  (n <=? length (edges T p))%nat && (col_max (map (stop p) T) =? mr) && contiguous (sort_bins (bins_of T p)).

Definition check_complete (G : list row) (k : nat) : bool :=
  forallb (fun p => let n := length (edges G p) in let mr := max_right G p in forallb (check_sub G p n mr) G) (seq 0 k).

(* the key tuples present in the data: one Order0Interp (and one validation) each *)
Definition keys_of (d : list row) : list (list Z) := sort_keys (map rkeys d).

(* accepted by the validation the code performs when interpolation.validate is on *)
Definition valid (k : nat) (d : list row) : bool :=
  negb (is_nil d) && (0 <? k)%nat && forallb (fun key => check_complete (group d key) k) (keys_of d).

(* representation invariant of a DataFrame: every row has a cell in every parameter column *)
Definition shaped (k : nat) (d : list row) : bool := forallb (fun r => (length (rbins r) =? k)%nat) d.

(* well-formed binned data = a frame (every row has a cell in every parameter column) accepted by the validation.
   (Before fix 1620b43e the validation did not compare the covered ranges of the sub-tables and "rows with the same
   left edge have the same right edge" had to be assumed separately; it is now a consequence - LookupProofs.v,
   [valid_ends_agree].) *)
Definition wf (k : nat) (d : list row) : bool := shaped k d && valid k d.

(* ------------------------------------------------------------------------------------------------------------ *)
(* CategoricalTable.call                                                                                        *)
(* ------------------------------------------------------------------------------------------------------------ *)
(* values = data.loc[joint_mask, value_columns].values ; result.loc[sub_table.index, value_columns] = values
   numpy assignment of a (rows x m) block to (n x m) cells: broadcast when rows = 1, positional when rows = n,
   ValueError otherwise (in particular when no data row has the key).  The positional branch (several data rows with
   one key tuple: malformed data, excluded from the theorems by [nodup_keys]) is modelled for sub-tables with distinct
   labels only; the broadcast branch is label-multiplicity independent. *)
Definition cat_group (rows : list row) (sub : list (Z * simulant)) : result frame :=
  match rows with
  | [r] => Ok (map (fun s => (fst s, Some (rvals r))) sub)
  | _ => if (length rows =? length sub)%nat && negb (length rows =? 0)%nat
         then Ok (combine (map fst sub) (map (fun r => Some (rvals r)) rows))
         else Rejected EConfig
  end.

Definition cat_call (d : list row) (pop : list (Z * simulant)) (idx : list Z) : result frame :=
  match gather pop idx with
  | None => Rejected EPopulation
  | Some ss => by_groups (fun key sub => cat_group (group d key) sub) ss
  end.

(* one simulant on its own: the data row with the simulant's key tuple (exactly one) *)
Definition cat_one (d : list row) (s : simulant) : result cells :=
  if key_has_nan (skeys s) then Ok None else
  match group d (skeys s) with [r] => Ok (Some (rvals r)) | _ => Rejected EConfig end.

Fixpoint nodup_keys (d : list row) : bool :=
  match d with [] => true | r :: t => negb (existsb (fun r' => zlist_eqb (rkeys r') (rkeys r)) t) && nodup_keys t end.

(* ------------------------------------------------------------------------------------------------------------ *)
(* ScalarTable.call: one Series per value, all on the requested index, assembled column-wise into a frame        *)
(* ------------------------------------------------------------------------------------------------------------ *)
Definition series (v : Z) (idx : list Z) : list (Z * Z) := map (fun i => (i, v)) idx.
Definition scalar_call (vs : list Z) (idx : list Z) : list (Z * list Z) :=
  let cols := map (fun v => series v idx) vs in
  map (fun i => (i, map (fun col => match zassoc i col with Some v => v | None => 0 end) cols)) idx.

(* ------------------------------------------------------------------------------------------------------------ *)
(* correspondence                                                                                               *)
(* ------------------------------------------------------------------------------------------------------------ *)
Definition cells_eqb (a b : cells) : bool := option_eqb zlist_eqb a b.
Definition frame_eqb (a b : frame) : bool :=
  list_eqb (fun x y => (fst x =? fst y) && cells_eqb (snd x) (snd y)) a b.

(* observation of one call: code 0 = returned this frame, 1 = raised (the property says "rejected", not which class) *)
Definition obs := (Z * frame)%type.
Definition obs_agrees (r : result frame) (o : obs) : bool :=
  match r with
  | Ok f => (fst o =? 0) && frame_eqb f (snd o)
  | Rejected _ => fst o =? 1
  | OutOfFuel => false
  end.

Definition raw_row := (list Z * list (Z * Z) * list Z)%type.
Definition mk_row (r : raw_row) : row := let '(ks, bs, vs) := r in mkRow ks bs vs.
Definition raw_sim := (Z * (list Z * list Z * list Z * list Z))%type.
Definition mk_sim (s : raw_sim) : Z * simulant :=
  let '(i, (ks, ps, ns, bs)) := s in (i, mkSim ks ps ns bs).

(* one call of an interpolated table: clock (year, day of year) read by the harness, the value the code put into the
   `year` column (captured from the argument of Interpolation.__call__; None when there was none), requested labels,
   observation *)
Definition icall := (Z * Z * option Z * list Z * obs)%type.
(* one table: extrapolate, validate, number of parameters, position of `year`, denominator D of the year scale,
   data, population, build outcome (0 built / 1 rejected), "the data is a complete grid" as decided by the harness'
   independent declarative definition (must equal [wf]), calls *)
Definition itable := (bool * bool * nat * option nat * Z * list raw_row * list raw_sim * Z * bool * list icall)%type.

Definition check_icall (ext : bool) (d : list row) (k : nat) (ypos : option nat) (D : Z)
                       (pop : list (Z * simulant)) (c : icall) : bool :=
  let '(y, yday, yv, idx, o) := c in
  match ypos, yv with
  | Some _, Some v => (v =? year_value D y yday) && obs_agrees (table_call ext d k ypos v pop idx) o
  | _, _ => obs_agrees (table_call ext d k ypos 0 pop idx) o
  end.

Definition check_itable (t : itable) : bool :=
  let '(ext, validate, k, ypos, D, rd, rp, built, grid, calls) := t in
  let d := map mk_row rd in
  let pop := map mk_sim rp in
  Bool.eqb (wf k d) grid &&
  if validate && negb (valid k d)
  then (built =? 1) && is_nil calls
  else (built =? 0) && forallb (check_icall ext d k ypos D pop) calls.

(* a context holds several tables over the same population *)
Definition check_interp (ts : list itable) : bool := forallb check_itable ts.

(* categorical: data (keys, values), population, calls (labels, observation) *)
Definition craw_row := (list Z * list Z)%type.
Definition mk_crow (r : craw_row) : row := mkRow (fst r) [] (snd r).
Definition ctable := (list craw_row * list raw_sim * list (list Z * obs))%type.
Definition check_ctable (t : ctable) : bool :=
  let '(rd, rp, calls) := t in
  let d := map mk_crow rd in
  let pop := map mk_sim rp in
  forallb (fun c => obs_agrees (cat_call d pop (fst c)) (snd c)) calls.
Definition check_cat (ts : list ctable) : bool := forallb check_ctable ts.

(* scalar: values, calls (labels, returned (label, values) rows) *)
Definition stable := (list Z * list (list Z * list (Z * list Z)))%type.
Definition check_stable (t : stable) : bool :=
  let '(vs, calls) := t in
  forallb (fun c => list_eqb (fun x y => (fst x =? fst y) && zlist_eqb (snd x) (snd y))
                             (scalar_call vs (fst c)) (snd c)) calls.
Definition check_scalar (ts : list stable) : bool := forallb check_stable ts.
