(* Model of the decision functions of vivarium/framework/randomness/stream.py and of
   vivarium/framework/utilities.py rate_to_probability (DESIGN.md section 5, C05).

   Anchors (line numbers of /repo/src/vivarium/framework, see tools/strip.py):
     randomness/stream.py 237-274  filter_for_probability  -> [filter_p]   (268-269 empty population first,
                                   273 mask = np.array(draws < probability), 274 population[mask])
     randomness/stream.py 201-235  filter_for_rate         -> [filter_rate] = filter_p after rate_to_probability
     utilities.py 31-39            rate_to_probability     -> [r2p] / [r2p_spec]  (np.array(rate): a Series loses
                                   its labels; rate[rate > 250] = 250; 1 - exp(-rate))
     randomness/stream.py 276-318  choice                  -> [choice]  (one get_draw, then _choice)
     randomness/stream.py 367-417  _choice                 -> [choice]  (406-410 weights, 411 normalise,
                                   413 cumsum, 415 number of bins STRICTLY BELOW the draw, 417 choices[index])
     randomness/stream.py 420-429  _normalize_shape        -> [initial_rows] (1-d weights broadcast to every row)
     randomness/stream.py 432-472  _set_residual_probability -> [set_residual] (a WHOLE-MATRIX function: if any
                                   placeholder occurs, every row must hold exactly one; residual = 1 - sum(others))
     vivarium/__init__.py 3        numpy.seterr(all="raise") -> a weight row summing to 0 raises (0/0)

   Conventions (DESIGN.md section 4).  Floats are the rationals they denote and every number of one case is an
   integer NUMERATOR over one common denominator D > 0 (for draws D is a multiple of 2^53: every double returned
   by random_sample is k/2^53).  So `draw < p` is [d <? p], a probability of 1 is D, `1 - sum(others)` is
   [U - others] (weights may use their own denominator U: only their ratios matter), and `draw > cum_j / W` is [cum_j * D <? d * W] - no division, no rounding.  Arithmetic that rounds
   in the implementation (p / p.sum, cumsum, 1 - exp(-r)) is exact here; the correspondence feeds inputs on which
   binary64 is exact too, or stays 2^-40 away from every decision boundary (harness/props/c05.py).
   The draws are an INPUT: the harness reads them from the real stream by get_draw at the same clock time and
   additional key (the property's own observation point); that they are a function of the simulant only is C02. *)
From Viv Require Import Common.
Local Open Scope Z_scope.

Definition label := Z.

Fixpoint sumZ (l : list Z) : Z := match l with [] => 0 | x :: r => x + sumZ r end.

Definition rbind {A B} (r : result A) (f : A -> result B) : result B :=
  match r with Ok a => f a | Rejected e => Rejected e | OutOfFuel => OutOfFuel end.

Fixpoint rmapM {A B} (f : A -> result B) (l : list A) : result (list B) :=
  match l with
  | [] => Ok []
  | x :: r => rbind (f x) (fun y => rbind (rmapM f r) (fun ys => Ok (y :: ys)))
  end.

(* ------------------------------------------------------------------------------------------------------------
   filter_for_probability
   ------------------------------------------------------------------------------------------------------------ *)
(* the `probability` argument *)
Inductive pspec :=
  | PScalar (p : Z)                                  (* python / numpy scalar, 0-d array: broadcast *)
  | PArray (ps : list Z)                             (* list, tuple, 1-d ndarray: compared POSITIONALLY *)
  | PSeries (labels : list label) (ps : list Z).     (* pandas Series: must be identically labelled *)

(* `draws < probability` as a list of per-row probabilities, or the ValueError pandas raises
   ("Lengths must match to compare" / "Can only compare identically-labeled Series objects") *)
Definition expand_p (idx : list label) (p : pspec) : result (list Z) :=
  match p with
  | PScalar x => Ok (map (fun _ => x) idx)
  | PArray ps => if Nat.eqb (length ps) (length idx) then Ok ps else Rejected EOther
  | PSeries ls ps => if zlist_eqb ls idx && Nat.eqb (length ps) (length ls) then Ok ps else Rejected EOther
  end.

(* population[mask]: a positional Boolean mask - rows keep their order and their content *)
Fixpoint mask_filter {A} (xs : list A) (ds ps : list Z) : list A :=
  match xs, ds, ps with
  | x :: xs', d :: ds', p :: ps' => if d <? p then x :: mask_filter xs' ds' ps' else mask_filter xs' ds' ps'
  | _, _, _ => []
  end.

(* a population is its rows in order: (label, content); an Index has no content (unit / 0) *)
Definition filter_p {A} (pop : list (label * A)) (ds : list Z) (p : pspec) : result (list (label * A)) :=
  match pop with
  | [] => Ok []                                                       (* 268-269: before anything else *)
  | _ => rbind (expand_p (map fst pop) p) (fun ps => Ok (mask_filter pop ds ps))
  end.

(* ------------------------------------------------------------------------------------------------------------
   rate_to_probability / filter_for_rate.   exp is external: [expneg r] is the numerator over D of exp(-r) for a
   rate numerator r (over the rates' own denominator, of which [cap] is 250 times).
   ------------------------------------------------------------------------------------------------------------ *)
Section Rate.
  Variable D : Z.
  Variable cap : Z.
  Variable expneg : Z -> Z.

  Definition r2p (r : Z) : Z := D - expneg (Z.min r cap).

  Definition r2p_spec (r : pspec) : pspec :=
    match r with
    | PScalar x => PScalar (r2p x)
    | PArray rs => PArray (map r2p rs)
    | PSeries _ rs => PArray (map r2p rs)            (* np.array(rate) drops the labels *)
    end.

  Definition filter_rate {A} (pop : list (label * A)) (ds : list Z) (r : pspec) : result (list (label * A)) :=
    filter_p pop ds (r2p_spec r).
End Rate.

(* ------------------------------------------------------------------------------------------------------------
   choice
   ------------------------------------------------------------------------------------------------------------ *)
Inductive wt := Wt (w : Z) | Residual | WNaN | WInf.                 (* a weight, RESIDUAL_CHOICE, nan, +-inf *)
Inductive wspec :=
  | WNone                                                            (* p=None: uniform *)
  | W1 (row : list wt)                                               (* 1-d: the same weights for every simulant *)
  | W2 (rows : list (list wt)).                                      (* 2-d: one row per simulant *)

Definition is_res (x : wt) : bool := match x with Residual => true | _ => false end.
Definition is_nan (x : wt) : bool := match x with WNaN => true | _ => false end.
Definition is_inf (x : wt) : bool := match x with WInf => true | _ => false end.
Definition wval (x : wt) : Z := match x with Wt w => w | _ => 0 end.
Definition count_res (row : list wt) : nat := length (filter is_res row).
Definition others (row : list wt) : Z := sumZ (map wval row).        (* 461-462: p[mask] = 0; sum over the row *)
Definition fill (U : Z) (row : list wt) : list Z :=
  map (fun x => match x with Wt w => w | Residual => U - others row | _ => 0 end) row.

(* _set_residual_probability (U is the numerator of 1) *)
Definition set_residual (U : Z) (rows : list (list wt)) : result (list (list Z)) :=
  if existsb (existsb is_res) rows then                                       (* 453 *)
    if forallb (fun r => Nat.eqb (count_res r) 1) rows then                   (* 454: sum(mask, axis=1) - 1 *)
      if existsb (fun r => U - others r <? 0) rows then Rejected ERandomness  (* 464 *)
      else Ok (map (fill U) rows)
    else Rejected ERandomness
  else Ok (map (fill U) rows).

Definition initial_rows (n c : nat) (p : wspec) : list (list wt) :=
  match p with
  | WNone => repeat (repeat (Wt 1) c) n                                       (* 409 np.ones((n, len(choices))) *)
  | W1 row => repeat row n                                                    (* 428 broadcast_to *)
  | W2 rows => rows
  end.

(* 415: (draw > p_bins).sum() with p_bins = cumsum(w / W):  cum_j / W < d / D  <=>  cum_j * D < d * W *)
Fixpoint count_below (d D W acc : Z) (ws : list Z) : nat :=
  match ws with
  | [] => O
  | w :: r => let c := acc + w in
              Nat.add (if c * D <? d * W then 1%nat else 0%nat) (count_below d D W c r)
  end.
(* 411: p / p.sum - with a NEGATIVE total the normalised weights are (-w_j) / (-W) *)
Definition choice_row (D d : Z) (ws : list Z) : nat :=
  let W := sumZ ws in
  if W <? 0 then count_below d D (- W) 0 (map Z.opp ws) else count_below d D W 0 ws.

(* 415: numpy broadcasting of the (n,1) draws against the (m,k) bins, then Series(values, index) *)
Definition broadcast {A} (n : nat) (rows : list A) : result (list A) :=
  if Nat.eqb (length rows) n then Ok rows
  else match rows with [r] => Ok (repeat r n) | _ => Rejected EOther end.

(* 417: np.array(choices)[choice_index] - IndexError beyond the last option *)
Definition pick (c k : nat) : result nat := if Nat.ltb k c then Ok k else Rejected EOther.

(* D: denominator of the draws; U: denominator of the weights (the numerator of the weight 1) *)
Definition choice (D U : Z) (draws : list Z) (c : nat) (p : wspec) : result (list nat) :=
  let n := length draws in
  rbind (set_residual U (initial_rows n c p)) (fun rows =>
    if existsb (fun ws => sumZ ws =? 0) rows then Rejected EOther             (* 411: 0/0 under seterr(raise) *)
    else rbind (broadcast n rows) (fun rows' =>
      rmapM (fun dr => pick c (choice_row D (fst dr) (snd dr))) (combine draws rows'))).

(* the weight row that decides for simulant number i - a function of the weights argument and i alone *)
Definition row_of (c : nat) (p : wspec) (i : nat) : list wt :=
  match p with
  | WNone => repeat (Wt 1) c
  | W1 row => row
  | W2 [r] => r
  | W2 rows => nth i rows []
  end.

(* ------------------------------------------------------------------------------------------------------------
   the non-finite corner: nan, +inf, -inf as probabilities, rates and weights (what the CURRENT code does).
   IEEE comparisons with nan are false, so a nan probability never selects; +inf always, -inf never.
   rate_to_probability: nan > 250 is false and exp(-nan) = nan -> probability nan; +inf is clipped to 250;
   -inf gives 1 - exp(inf) = -inf (no overflow flag is raised for an exact infinity).
   _choice: a row containing nan has a nan total, every normalised weight and bound is nan, no bound is below the
   draw -> option 0 (other rows are not affected); a row containing an infinity (and no nan) raises (inf/inf is
   invalid under seterr(all="raise")); non-finite weights together with RESIDUAL_CHOICE raise (object arithmetic).
   ------------------------------------------------------------------------------------------------------------ *)
Inductive xnum := Fin (z : Z) | XNaN | XPInf | XNInf.

Definition x_lt (d : Z) (p : xnum) : bool :=
  match p with Fin z => d <? z | XPInf => true | XNaN => false | XNInf => false end.

(* the finite probability a non-finite one behaves as, for draws in [0, D): nan and -inf as 0, +inf as 1 *)
Definition clamp (D : Z) (p : xnum) : Z := match p with Fin z => z | XPInf => D | XNaN => 0 | XNInf => 0 end.

Inductive xpspec :=
  | XScalar (p : xnum)
  | XArray (ps : list xnum)
  | XSeries (labels : list label) (ps : list xnum).

Definition clamp_spec (D : Z) (p : xpspec) : pspec :=
  match p with
  | XScalar x => PScalar (clamp D x)
  | XArray ps => PArray (map (clamp D) ps)
  | XSeries ls ps => PSeries ls (map (clamp D) ps)
  end.

Definition expand_x (idx : list label) (p : xpspec) : result (list xnum) :=
  match p with
  | XScalar x => Ok (map (fun _ => x) idx)
  | XArray ps => if Nat.eqb (length ps) (length idx) then Ok ps else Rejected EOther
  | XSeries ls ps => if zlist_eqb ls idx && Nat.eqb (length ps) (length ls) then Ok ps else Rejected EOther
  end.

Fixpoint mask_filter_x {A} (xs : list A) (ds : list Z) (ps : list xnum) : list A :=
  match xs, ds, ps with
  | x :: xs', d :: ds', p :: ps' => if x_lt d p then x :: mask_filter_x xs' ds' ps' else mask_filter_x xs' ds' ps'
  | _, _, _ => []
  end.

Definition filter_px {A} (pop : list (label * A)) (ds : list Z) (p : xpspec) : result (list (label * A)) :=
  match pop with
  | [] => Ok []
  | _ => rbind (expand_x (map fst pop) p) (fun ps => Ok (mask_filter_x pop ds ps))
  end.

Section RateX.
  Variable D : Z.
  Variable cap : Z.
  Variable expneg : Z -> Z.

  Definition r2p_x (r : xnum) : xnum :=
    match r with
    | Fin z => Fin (r2p D cap expneg z)
    | XNaN => XNaN
    | XPInf => Fin (r2p D cap expneg cap)              (* inf > 250: clipped *)
    | XNInf => XNInf                                   (* 1 - exp(inf) *)
    end.

  Definition r2p_xspec (r : xpspec) : xpspec :=
    match r with
    | XScalar x => XScalar (r2p_x x)
    | XArray rs => XArray (map r2p_x rs)
    | XSeries _ rs => XArray (map r2p_x rs)
    end.

  Definition filter_rate_x {A} (pop : list (label * A)) (ds : list Z) (r : xpspec) : result (list (label * A)) :=
    filter_px pop ds (r2p_xspec r).
End RateX.

(* choice with non-finite weights, on top of [choice] *)
Definition nonfinite (x : wt) : bool := is_nan x || is_inf x.
Definition sanitize_row (row : list wt) : list wt := if existsb is_nan row then map (fun _ => Wt 1) row else row.
Definition sanitize (p : wspec) : wspec :=
  match p with WNone => WNone | W1 row => W1 (sanitize_row row) | W2 rows => W2 (map sanitize_row rows) end.

Fixpoint override (flags : list bool) (ks : list nat) : list nat :=
  match flags, ks with
  | f :: fs, k :: r => (if f then O else k) :: override fs r
  | _, _ => []
  end.

Definition nan_flags (n c : nat) (p : wspec) : list bool := map (fun i => existsb is_nan (row_of c p i)) (seq 0 n).

Definition choice_x (D U : Z) (draws : list Z) (c : nat) (p : wspec) : result (list nat) :=
  let n := length draws in
  let rows0 := initial_rows n c p in
  if existsb (existsb is_res) rows0 && existsb (existsb nonfinite) rows0 then Rejected EOther
  else if existsb (fun r => negb (existsb is_nan r) && existsb is_inf r) rows0 then Rejected EOther
  else rbind (choice D U draws c (sanitize p)) (fun ks => Ok (override (nan_flags n c p) ks)).

(* ------------------------------------------------------------------------------------------------------------
   correspondence streams (harness/props/c05.py).  obs code: 0 returned, 1 raised (the property does not distinguish
   exception classes, so neither does the observation).
   ------------------------------------------------------------------------------------------------------------ *)
Definition code_of {A} (r : result A) : Z :=
  match r with Ok _ => 0 | Rejected _ => 1 | OutOfFuel => 3 end.

Definition row_eqb (a b : label * Z) : bool := (fst a =? fst b) && (snd a =? snd b).
Definition rows_eqb := list_eqb row_eqb.

(* a draw is a numerator over D in [0,1) *)
Definition draws_ok (D : Z) (ds : list Z) : bool := (0 <? D) && forallb (fun d => (0 <=? d) && (d <? D)) ds.

(* label-aligned reading of a Series probability that carries the same labels in another order.  pandas refuses
   the comparison today (model: Rejected); aligning by label would serve the property equally well, applying the
   values positionally would not.  Only consulted for that malformed class. *)
(* stream `filter`: (D, kind of container in/out, rows (label, content), draws, probability, (code, rows kept)) *)
Definition filter_case := (Z * (Z * Z) * list (label * Z) * list Z * xpspec * (Z * list (label * Z)))%type.

Definition aligned_xs (idx ls : list Z) (ps : list xnum) : option (list xnum) :=
  let tbl := combine ls ps in
  let vals := map (fun l => zassoc l tbl) idx in
  if forallb (fun v => match v with Some _ => true | None => false end) vals && Nat.eqb (length ls) (length idx)
  then Some (map (fun v => match v with Some x => x | None => XNaN end) vals) else None.

Definition agrees_filter (pop : list (label * Z)) (ds : list Z) (p : xpspec) (r : result (list (label * Z)))
           (o : Z * list (label * Z)) : bool :=
  match r with
  | Ok sel => (fst o =? 0) && rows_eqb sel (snd o)
  | Rejected _ =>
      (fst o =? 1) && match snd o with [] => true | _ => false end
      || match p with
         | XSeries ls ps =>
             match aligned_xs (map fst pop) ls ps with
             | Some ps' => (fst o =? 0) && rows_eqb (mask_filter_x pop ds ps') (snd o)
             | None => false
             end
         | _ => false
         end
  | OutOfFuel => false
  end.

Definition check_filter (c : filter_case) : bool :=
  let '(D, kinds, pop, ds, p, o) := c in
  draws_ok D ds && Nat.eqb (length ds) (length pop) &&
  ((negb (fst o =? 0)) || (fst kinds =? snd kinds)) &&
  agrees_filter pop ds p (filter_px pop ds p) o.

(* stream `rate`: (D, rate denominator, table clipped-rate -> exp(-rate) numerator, rows, draws, rate, obs) *)
Definition rate_case :=
  (Z * Z * list (Z * Z) * (Z * Z) * list (label * Z) * list Z * xpspec * (Z * list (label * Z)))%type.

Definition tbl_expneg (tbl : list (Z * Z)) (r : Z) : Z := match zassoc r tbl with Some e => e | None => -1 end.

Definition check_rate (c : rate_case) : bool :=
  let '(D, Dr, tbl, kinds, pop, ds, r, o) := c in
  draws_ok D ds && Nat.eqb (length ds) (length pop) && (0 <? Dr) &&
  ((negb (fst o =? 0)) || (fst kinds =? snd kinds)) &&
  agrees_filter pop ds (r2p_xspec D (250 * Dr) (tbl_expneg tbl) r)
                (filter_rate_x D (250 * Dr) (tbl_expneg tbl) pop ds r) o.

(* streams `choice` / `rawchoice`: (D, U, draws, number of options, weights, (code, chosen option per simulant)) *)
Definition choice_case := (Z * Z * list Z * nat * wspec * (Z * list Z))%type.

Definition check_choice (c : choice_case) : bool :=
  let '(D, U, ds, k, p, o) := c in
  draws_ok D ds && (0 <? U) &&
  match choice_x D U ds k p with
  | Ok ks => (fst o =? 0) && zlist_eqb (map Z.of_nat ks) (snd o)
  | r => (code_of r =? fst o) && match snd o with [] => true | _ => false end
  end.
