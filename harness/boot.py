"""Boot shim: make `import vivarium` resolve to /repo/src (NOT the wheel in site-packages).

DESIGN.md F1/F2: the baseline suite imports vivarium 4.1.6 from site-packages; the properties are anchored in
/repo/src (3.0.10), whose `vivarium/_version.py` is a git-ignored setuptools-scm artefact.  We put the source tree
first on sys.path and pre-register a stub `vivarium._version`.  Nothing is written under /repo.
`VERIF_REPO_SRC` overrides the source root (used only for self-tests against scratch worktrees).
"""
import os
import sys
import types
import warnings

REPO_SRC = os.environ.get("VERIF_REPO_SRC", "/repo/src")


def boot():
    if getattr(boot, "_done", False):
        return
    if REPO_SRC in sys.path:
        sys.path.remove(REPO_SRC)
    sys.path.insert(0, REPO_SRC)
    if "vivarium._version" not in sys.modules:
        m = types.ModuleType("vivarium._version")
        m.__version__ = "0+verif"
        m.version = "0+verif"
        sys.modules["vivarium._version"] = m
    warnings.filterwarnings("ignore")
    import vivarium  # noqa

    assert os.path.realpath(vivarium.__file__).startswith(os.path.realpath(REPO_SRC)), vivarium.__file__
    try:
        from loguru import logger

        logger.remove()
    except Exception:
        pass
    boot._done = True


def reset_contexts():
    from vivarium.framework.engine import SimulationContext

    SimulationContext._clear_context_cache()


def quiet_logging():
    """vivarium's logging plugin re-adds loguru sinks per context; drop them again."""
    try:
        from loguru import logger

        logger.remove()
    except Exception:
        pass


boot()
