"""Probe-component library and *program* runner shared by C01 and C18 (DESIGN.md section 3.6b, 5 C01, 5 C18).

Importable by module path (`import probes` with /verif/harness on sys.path) so that dill pickles every class BY REFERENCE:
a backup written by one process can be loaded by a fresh one that has only imported `boot` (and, through dill, this
module).  Nothing here is run as `__main__` (see probes_worker.py for the sub-process entry point).

A *program* is a JSON-serialisable dict

    {"seed": int, "pop": int, "clock": "datetime" | "simple", "step": number (days / plain units),
     "std": number | None, "n_min_steps": int  (duration in minimum steps; end = start + n_min_steps*step, possibly
     "end_frac": 0 | 1   (if 1 the duration is NOT a multiple of the step: half a step is added to the end),
     "crn": bool,
     "components": [ {"kind": <name in KINDS>, ...parameters...}, ... ]}

and `build(program)` turns it into (components, configuration, plugin_configuration).  The components between them use:
CRN on/off (BasePop registers simulants under key columns), births at arbitrary steps (Births), untracking
(Mortality/Untracker), a state machine with rate-driven, triggered and residual transitions (Condition), replace/list
pipelines with rate / union post-processing and a·v+b modifiers (Pipes, RiskEffect), scalar / categorical / binned lookup
tables (Tables), adding and concatenating observers with mapper / binned stratifications (Obs), per-simulant step
modifiers and snoozing (StepMod, Snoozer), and a component that keeps the RESIDUAL_CHOICE sentinel in its own state
(ResidualUser: regression for finding F-M), and a component that keeps per-simulant state in plain attributes filled only by
a column-less initializer (PrivateState), and error-swallowing user code (Swallower: rejected multi-column updates, service
calls in forbidden life-cycle states, duplicate registrations, a creation with conflicting initialiser data - each caught
and survived; rejections must be atomic and the same in every environment).  Births can be scheduled at EVERY step, so that simulants are created after any
interruption point.  Optional traits feed the framework the unusual-but-legal inputs real models
produce: NaN / inf / zero / above-the-clip rates and NaN probabilities for some simulants (Mortality through
stream.filter_for_rate / filter_for_probability / plain exp; Condition's incidence transition), a NaN cell in a lookup
table, NaN pipeline values (unknown exposure), calls with an empty index.  heap_churn() fills freed numpy buffers with
garbage (level set per environment) so that reads of uninitialised memory differ between environments.  Every component logs the *reactions* it performs (births, untracking,
snoozes) in `self.actions`, which is part of the pickled state.
"""
import hashlib
import json
import math

import boot  # noqa: F401  (puts VERIF_REPO_SRC or /repo/src first on sys.path)
import numpy as np
import pandas as pd
from vivarium import Component
from vivarium.framework.randomness import RESIDUAL_CHOICE
from vivarium.framework.results import Observer
from vivarium.framework.state_machine import Machine, State, Transition, Trigger
from vivarium.framework.utilities import rate_to_probability
from vivarium.framework.values import list_combiner, union_post_processor

EVENTS = ["time_step__prepare", "time_step", "time_step__cleanup", "collect_metrics"]


# ---------------------------------------------------------------------------------------------------------------------
# process-level disturbance that is NOT program state: heap churn.  Freed numpy buffers full of garbage make a read of
# uninitialised memory (np.empty, ufunc(..., where=mask) without out=) show up as a digest difference between
# environments.  The level is set per environment by the driver; components call heap_churn() right before they hand
# vectors to the framework (a user component may allocate memory whenever it likes).
# ---------------------------------------------------------------------------------------------------------------------
_CHURN = {"level": 0, "n": 0}


def set_churn(level):
    _CHURN["level"], _CHURN["n"] = int(level or 0), 0


def heap_churn():
    level = _CHURN["level"]
    if not level:
        return
    _CHURN["n"] += 1
    rs = np.random.RandomState(seed=(7919 * level + 104729 * _CHURN["n"]) % (2 ** 32))     # private generator
    junk = []
    sizes = list(range(1, 72)) + [96, 128, 200, 256, 400, 512, 1000, 1024, 4096]
    for n in sizes:
        for _ in range(8 + level):            # numpy keeps the last few freed small buffers per size class
            style = rs.randint(4)               # garbage of several kinds, so that whatever reads it can go either way
            if style == 0:
                junk.append(np.frombuffer(rs.bytes(8 * n), dtype=np.float64).copy())
            elif style == 1:
                junk.append(rs.random_sample(n))
            elif style == 2:
                junk.append(rs.random_sample(n) * 1e300 - 5e299)
            else:
                junk.append(rs.random_sample(n) * 4 - 2)
            if n <= 72:
                junk.append(np.frombuffer(rs.bytes(n), dtype=np.uint8).copy())
    del junk


SPECIAL = {"nan": float("nan"), "inf": float("inf"), "zero": 0.0, "big": 1000.0}


def apply_special(values, special, safe_exp=False):
    """values: Series indexed by simulant label; special: [[m, r, code], ...] - simulants with label % m == r get the
    unusual-but-legal value `code` (nan = not at risk / exposure unknown, inf, zero, big = rate above the 250 clip)."""
    if not special or len(values) == 0:
        return values
    values = values.astype(float).copy()
    labels = np.asarray(values.index, dtype="int64")
    for m, r, code in special:
        v = SPECIAL[code]
        if safe_exp and code == "big":
            v = 200.0                           # a plain exp(-1000) underflows and numpy is set to raise
        values[labels % int(m) == int(r)] = v
    return values


# =====================================================================================================================
# components
# =====================================================================================================================
class Recorder(Component):
    """Listens first (priority 0) to the four loop events and logs the schedule through PUBLIC interfaces only:
    (step, event kind, builder.time.clock()(), builder.time.step_size()(), event.time, event.step_size, event.index).
    Also counts whole steps (component state that must survive a backup)."""

    def __init__(self):
        super().__init__()
        self.trace = []
        self.steps_seen = 0

    @property
    def time_step_prepare_priority(self):
        return 0

    @property
    def time_step_priority(self):
        return 0

    @property
    def time_step_cleanup_priority(self):
        return 0

    @property
    def collect_metrics_priority(self):
        return 0

    def setup(self, builder):
        self.clock = builder.time.clock()
        self.step_size = builder.time.step_size()

    def now(self):
        return [t_int(self.clock()), t_int(self.step_size())]

    def _log(self, ev, event):
        self.trace.append([self.steps_seen, ev, t_int(self.clock()), t_int(self.step_size()), t_int(event.time),
                           t_int(event.step_size), [int(i) for i in event.index]])

    def on_time_step_prepare(self, event):
        self._log(0, event)

    def on_time_step(self, event):
        self._log(1, event)

    def on_time_step_cleanup(self, event):
        self._log(2, event)

    def on_collect_metrics(self, event):
        self._log(3, event)
        self.steps_seen += 1


class BasePop(Component):
    """age / sex / alive / entrance_time / ident; registers the CRN key columns when `crn`."""

    def __init__(self, crn=False, age_hi=80):
        super().__init__()
        self.crn = crn
        self.age_hi = age_hi

    @property
    def columns_created(self):
        return ["age", "sex", "alive", "entrance_time", "ident", "dose"]

    def setup(self, builder):
        self.register = builder.randomness.register_simulants
        self.age_randomness = builder.randomness.get_stream("age_initialization", initializes_crn_attributes=self.crn)
        self.sex_randomness = builder.randomness.get_stream("sex_initialization")

    def on_initialize_simulants(self, pop_data):
        lo = pop_data.user_data.get("age_start", 0)
        hi = pop_data.user_data.get("age_end", self.age_hi)
        draw = self.age_randomness.get_draw(pop_data.index)
        age = lo + draw * (hi - lo)
        if self.crn:
            population = pd.DataFrame({"entrance_time": pop_data.creation_time, "age": age.values}, index=pop_data.index)
            self.register(population)
            population["sex"] = self.sex_randomness.choice(pop_data.index, ["M", "F"])
            population["alive"] = "alive"
            population["ident"] = np.asarray(pop_data.index, dtype="int64")
            population["dose"] = 0.0
        else:
            population = pd.DataFrame(
                {"age": age.values, "sex": self.sex_randomness.choice(pop_data.index, ["M", "F"]),
                 "alive": pd.Series("alive", index=pop_data.index), "entrance_time": pop_data.creation_time,
                 "ident": np.asarray(pop_data.index, dtype="int64"), "dose": 0.0}, index=pop_data.index)
        self.population_view.update(population)

    def on_time_step(self, event):
        population = self.population_view.get(event.index, query="alive == 'alive'")
        if isinstance(event.step_size, pd.Timedelta):
            population["age"] += event.step_size / pd.Timedelta(days=365)
        else:
            population["age"] += event.step_size / 365.0
        population["dose"] += 0.5 + (population["ident"] % 3) * 0.25
        self.population_view.update(population)


class Births(Component):
    """Creates `schedule[str(step)]` simulants during the time_step event of that step (own step counter)."""

    def __init__(self, schedule=None, phase=1, every=0):
        super().__init__()
        self.schedule = dict(schedule or {})
        self.phase = phase
        self.every = every                      # in addition: `every` simulants at EVERY step (so that whatever the
                                                # interruption point of a backup, somebody is born after it)
        self.count = 0
        self.actions = []

    def setup(self, builder):
        self.creator = builder.population.get_simulant_creator()

    def _birth(self, ev):
        if ev == self.phase:
            n = int(self.schedule.get(str(self.count), 0)) + int(self.every)
            if n:
                idx = self.creator(n, {"age_start": 0, "age_end": 2, "sim_state": "time_step"})
                self.actions.append([self.count, ev, "birth", [int(i) for i in idx]])

    def on_time_step_prepare(self, event):
        self._birth(0)

    def on_time_step(self, event):
        self._birth(1)

    def on_time_step_cleanup(self, event):
        self._birth(2)

    def on_collect_metrics(self, event):
        self._birth(3)
        self.count += 1


class Pipes(Component):
    """`mortality_rate` (rate producer: replace combiner + rescale post-processor), modified by a*v+b modifiers;
    `exposure` (plain value), `paf` (list combiner + union post-processor)."""

    def __init__(self, base=0.4, mods=(), pafs=(), nan_exposure=0):
        super().__init__()
        self.base = base
        self.mods = [list(m) for m in mods]
        self.pafs = list(pafs)
        self.nan_exposure = nan_exposure       # every nan_exposure-th simulant has an UNKNOWN exposure (NaN pipeline value)

    @property
    def columns_required(self):
        return ["age", "sex"]

    def setup(self, builder):
        self.mortality_rate = builder.value.register_rate_producer("mortality_rate", source=self.base_rate,
                                                                   requires_columns=["age"])
        for i, (a, b) in enumerate(self.mods):
            builder.value.register_value_modifier("mortality_rate", AffineMod(a, b, i))
        self.paf = builder.value.register_value_producer("paf", source=self.paf_source,
                                                         preferred_combiner=list_combiner,
                                                         preferred_post_processor=union_post_processor)
        for i, p in enumerate(self.pafs):
            builder.value.register_value_modifier("paf", ConstMod(p, i))
        self.exposure = builder.value.register_value_producer("exposure", source=self.exposure_source,
                                                              requires_columns=["age", "sex"])

    def base_rate(self, index):
        pop = self.population_view.get(index)
        return pd.Series(self.base, index=index) * (1.0 + (pop["age"] > 40).astype(float)) * (1 - self.paf(index))

    def paf_source(self, index):
        return [pd.Series(0.0, index=index)]

    def exposure_source(self, index):
        pop = self.population_view.get(index)
        value = pop["age"] / 100.0 + (pop["sex"] == "M").astype(float)
        if self.nan_exposure:
            value[np.asarray(value.index, dtype="int64") % self.nan_exposure == 1] = np.nan
        return value


class AffineMod:
    """value modifier v -> a*v + b (a callable object so that dill pickles it by class reference)."""

    def __init__(self, a, b, i):
        self.a, self.b, self.i = a, b, i
        self.__name__ = f"affine_{i}"

    def __call__(self, index, value):
        return value * self.a + self.b


class ConstMod:
    """list contribution: a constant series."""

    def __init__(self, p, i):
        self.p, self.i = p, i
        self.__name__ = f"const_{i}"

    def __call__(self, index):
        return pd.Series(float(self.p), index=index)


class Mortality(Component):
    """Kills by the mortality_rate pipeline (filter_for_probability on 1-exp(-rate)); untracks the dead one step
    later in time_step__prepare; optionally snoozes them (move_simulants_to_end)."""

    def __init__(self, untrack=True, snooze=False, via="exp", special=(), empty_calls=False):
        super().__init__()
        self.untrack = untrack
        self.snooze = snooze
        self.via = via                          # exp | rate (stream.filter_for_rate) | prob (rate_to_probability + filter_for_probability)
        self.special = [list(x) for x in special]
        self.empty_calls = empty_calls
        self.actions = []
        self.count = 0

    @property
    def columns_required(self):
        return ["tracked", "alive"]

    def setup(self, builder):
        self.randomness = builder.randomness.get_stream("mortality")
        self.mortality_rate = builder.value.get_value("mortality_rate")
        self.move_to_end = builder.time.move_simulants_to_end()

    def on_time_step_prepare(self, event):
        if not self.untrack:
            return
        population = self.population_view.get(event.index)
        sel = (population["alive"] == "dead") & (population["tracked"] == True)  # noqa: E712
        if sel.any():
            population.loc[sel, "tracked"] = False
            self.population_view.update(population)
            self.actions.append([self.count, 0, "untrack", [int(i) for i in population.index[sel]]])

    def on_time_step(self, event):
        pop = self.population_view.get(event.index, query="alive == 'alive'")
        if self.empty_calls:
            empty = pop.index[:0]
            self.mortality_rate(empty)
            self.randomness.get_draw(empty)
            self.randomness.filter_for_rate(empty, pd.Series([], index=empty, dtype=float))
            self.randomness.filter_for_probability(empty, [])
            self.randomness.choice(empty, ["a", "b"])
        rate = apply_special(self.mortality_rate(pop.index), self.special, safe_exp=self.via == "exp")
        heap_churn()
        if self.via == "rate":
            dead = self.randomness.filter_for_rate(pop.index, rate)
        elif self.via == "prob":
            dead = self.randomness.filter_for_probability(pop.index, pd.Series(rate_to_probability(rate), index=pop.index))
        else:
            prob = 1 - np.exp(-rate)
            draw = self.randomness.get_draw(pop.index)
            dead = pop.index[draw < prob]
        if len(dead):
            self.population_view.subview(["alive"]).update(pd.Series("dead", index=dead, name="alive"))
            if self.snooze:
                self.move_to_end(dead)
                self.actions.append([self.count, 1, "snooze", [int(i) for i in dead]])

    def on_collect_metrics(self, event):
        self.count += 1


class Tables(Component):
    """Lookup tables: scalar, categorical (sex) and binned (age); exposes them as pipelines sources."""

    def __init__(self, scale=1.0, nan_bin=None):
        super().__init__()
        self.scale = scale
        self.nan_bin = nan_bin                  # index (0..7) of a (sex, age bin) cell whose value is NaN: data missing

    def setup(self, builder):
        rows = []
        for sex in ["M", "F"]:
            for i, (lo, hi) in enumerate([(0, 5), (5, 30), (30, 60), (60, 125)]):
                rows.append({"sex": sex, "age_start": lo, "age_end": hi,
                             "value": self.scale * (0.125 * (i + 1) + (0.0625 if sex == "M" else 0.0))})
        if self.nan_bin is not None:
            rows[int(self.nan_bin) % len(rows)]["value"] = float("nan")
        self.binned = builder.lookup.build_table(pd.DataFrame(rows), key_columns=["sex"], parameter_columns=["age"],
                                                 value_columns=["value"])
        self.categorical = builder.lookup.build_table(pd.DataFrame({"sex": ["M", "F"], "w": [0.25, 0.5]}),
                                                      key_columns=["sex"], value_columns=["w"])
        self.scalar = builder.lookup.build_table(0.75 * self.scale)
        self.incidence = builder.value.register_rate_producer("incidence_rate", source=self.incidence_source,
                                                              requires_columns=["age", "sex"])
        self.weight = builder.value.register_value_producer("weight", source=self.weight_source,
                                                            requires_columns=["sex"])

    def incidence_source(self, index):
        return self.binned(index) + self.scalar(index) * 0.0 + self.scalar(index)

    def weight_source(self, index):
        return self.categorical(index)


class RiskEffect(Component):
    """Modifies incidence_rate by a factor depending on the `exposure` pipeline (if present) else on sex."""

    def __init__(self, factor=2.0, use_exposure=False):
        super().__init__()
        self.factor = factor
        self.use_exposure = use_exposure        # needs the `exposure` pipeline of Pipes; NaN exposure = not exposed

    @property
    def columns_required(self):
        return ["sex"]

    def setup(self, builder):
        builder.value.register_value_modifier("incidence_rate", self.adjust, requires_columns=["sex"])
        self.exposure = builder.value.get_value("exposure") if self.use_exposure else None

    def adjust(self, index, rates):
        pop = self.population_view.get(index)
        if self.exposure is not None:
            exposed = (self.exposure(index) > 0.75).astype(float)     # NaN > x is False
        else:
            exposed = (pop["sex"] == "M").astype(float)
        return rates * (1.0 + (self.factor - 1.0) * exposed)


class RateTransition(Transition):
    def __init__(self, input_state, output_state, rate_name=None, prob=None, special=(), **kwargs):
        super().__init__(input_state, output_state, probability_func=self._p, **kwargs)
        self.rate_name = rate_name
        self.prob = prob
        self.special = [list(x) for x in special]

    def setup(self, builder):
        super().setup(builder)
        self.rate = builder.value.get_value(self.rate_name) if self.rate_name else None

    def _p(self, index):
        if self.rate is not None:
            rate = apply_special(self.rate(index), self.special)
            heap_churn()
            return pd.Series(rate_to_probability(rate), index=index)
        return apply_special(pd.Series(float(self.prob), index=index), [x for x in self.special if x[2] in ("nan", "zero")])


class CondState(State):
    def __init__(self, state_id, allow_self_transition=False):
        super().__init__(state_id, allow_self_transition)
        self.entered = 0

    def transition_side_effect(self, index, event_time):
        self.entered += len(index)


class Condition(Machine):
    """healthy -(incidence_rate | p)-> sick -(p_rem)-> healthy ; sick -(p_sev)-> severe (absorbing, triggered)."""

    def __init__(self, p_inc=None, p_rem=0.25, p_sev=0.125, triggered=False, special=()):
        healthy = CondState("healthy", allow_self_transition=True)
        sick = CondState("sick", allow_self_transition=True)
        severe = CondState("severe", allow_self_transition=True)
        healthy.add_transition(RateTransition(healthy, sick, rate_name=None if p_inc is not None else "incidence_rate",
                                              prob=p_inc, special=special))
        sick.add_transition(RateTransition(sick, healthy, prob=p_rem))
        self.sev = RateTransition(sick, severe, prob=p_sev,
                                  triggered=Trigger.START_INACTIVE if triggered else Trigger.NOT_TRIGGERED)
        sick.add_transition(self.sev)
        super().__init__("cond", states=[healthy, sick, severe])
        self.p_inc, self.p_rem, self.p_sev, self.triggered = p_inc, p_rem, p_sev, triggered
        self.special = [list(x) for x in special]

    @property
    def columns_created(self):
        return ["cond"]

    @property
    def columns_required(self):
        return ["age", "alive"]

    @property
    def initialization_requirements(self):
        return {"requires_columns": ["age"], "requires_values": [], "requires_streams": []}

    def on_initialize_simulants(self, pop_data):
        self.population_view.update(pd.Series("healthy", index=pop_data.index, name="cond"))
        if self.triggered:
            # the triggered transition's active set is framework state that lives ONLY in the Transition object: it is
            # filled once, when a simulant is created, and must survive a backup
            age = self.population_view.subview(["age"]).get(pop_data.index)["age"]
            self.sev.set_active(pop_data.index[age > 5])

    def on_time_step(self, event):
        pop = self.population_view.get(event.index, query="alive == 'alive'")
        self.transition(pop.index, event.time)

    def get_initialization_parameters(self):
        return {"state_column": "cond"}


class ResidualUser(Component):
    """Keeps the RESIDUAL_CHOICE sentinel in its own (pickled) state and uses it at every step (finding F-M)."""

    def __init__(self, p=0.25):
        super().__init__()
        self.p = p
        self.weights = [p, RESIDUAL_CHOICE]

    @property
    def columns_created(self):
        return ["flavor"]

    def setup(self, builder):
        self.stream = builder.randomness.get_stream("flavor")

    def on_initialize_simulants(self, pop_data):
        self.population_view.update(pd.Series("plain", index=pop_data.index, name="flavor"))

    def on_time_step(self, event):
        if len(event.index):
            self.population_view.update(
                pd.Series(self.stream.choice(event.index, ["sweet", "sour"], self.weights), index=event.index,
                          name="flavor"))


class PrivateState(Component):
    """Keeps per-simulant state OUTSIDE the state table, in plain attributes (a dict keyed by label and a Series), filled
    ONLY in an initializer that creates no column (so the framework registers it as a column-less resource), and feeds it
    back into the table at every step (adds it to BasePop's `dose`).  A simulant whose initializer call is lost - e.g.
    because something about the registration does not survive a backup - gets NaN there."""

    def __init__(self, scale=0.125):
        super().__init__()
        self.scale = scale
        self.bonus = {}                          # label -> float
        self.order = pd.Series(dtype=float)      # label -> order of arrival
        self.calls = 0

    @property
    def columns_required(self):
        return ["dose"]

    def setup(self, builder):
        self.stream = builder.randomness.get_stream("private_bonus")

    def on_initialize_simulants(self, pop_data):
        self.calls += 1
        for i, label in enumerate(pop_data.index):
            self.bonus[int(label)] = self.scale * (1 + (int(label) * 7 + self.calls) % 5)
        self.order = pd.concat([self.order, pd.Series(float(self.calls), index=pop_data.index)])

    def on_time_step_cleanup(self, event):
        pop = self.population_view.get(event.index)
        if len(pop):
            bonus = pd.Series(self.bonus, dtype=float).reindex(pop.index)       # NaN for a simulant never initialised here
            order = self.order.reindex(pop.index)
            pop["dose"] = pop["dose"] + bonus + order / 1024.0
            self.population_view.update(pop)


class Swallower(Component):
    """Error-swallowing user code: attempts things the framework must REJECT, catches the error, records it and carries on.
    Rejections have to be atomic and identical in every environment - a partial effect that depends on set order, hash
    seed or process history shows up in the digests.
      bad:        every step a multi-column update (n_cols own columns, built as one DataFrame) in which one column has a
                  changed dtype ("dtype"), the index an unknown simulant ("row"), or the frame an extra column ("extra");
                  "none" = a valid multi-column update
      lifecycle:  service calls in a forbidden life-cycle state (get_stream / register_value_producer / get_emitter
                  during a time step)
      setup_dups: a duplicate randomness stream and a second source for a pipeline, inside try/except in setup
      conflict_at: at that step, create simulants whose initializer data CONFLICTS with another component's (BasePop's
                  dose); the creation fails half-way, the error is caught
    The number of swallowed errors is written to the column sw_err, so a lost or extra rejection is visible too."""

    COLS = ["sw_a", "sw_b", "sw_c", "sw_d", "sw_e"]

    def __init__(self, bad="dtype", n_cols=4, lifecycle=True, setup_dups=True, conflict_at=None, valid_every=0):
        super().__init__()
        self.bad, self.n_cols, self.lifecycle, self.setup_dups = bad, int(n_cols), lifecycle, setup_dups
        self.conflict_at, self.valid_every = conflict_at, int(valid_every)
        self.errors = []
        self.count = 0
        self.actions = []

    @property
    def columns_created(self):
        return self.COLS[:self.n_cols] + ["sw_err"]

    @property
    def columns_required(self):
        return ["dose"] if self.conflict_at is not None else None

    @property
    def initialization_requirements(self):
        return {"requires_columns": ["dose"] if self.conflict_at is not None else [], "requires_values": [],
                "requires_streams": []}

    def _swallow(self, what, fn):
        try:
            fn()
            self.errors.append([self.count, what, "accepted"])
            return 0
        except Exception as e:                   # noqa: B902  (that is the point of this component)
            self.errors.append([self.count, what, type(e).__name__])
            return 1

    def setup(self, builder):
        self.get_stream = builder.randomness.get_stream
        self.register_producer = builder.value.register_value_producer
        self.get_emitter = builder.event.get_emitter
        self.creator = builder.population.get_simulant_creator()
        builder.value.register_value_producer("sw_value", source=self._source)
        if self.setup_dups:
            self._swallow("dup_stream", lambda: builder.randomness.get_stream("age_initialization"))
            self._swallow("dup_source", lambda: builder.value.register_value_producer("sw_value", source=self._source))

    def _source(self, index):
        return pd.Series(1.0, index=index)

    def _frame(self, index):
        labels = np.asarray(index, dtype="int64")
        # explicit dtypes: an EMPTY list would be inferred as a non-string column when the initial population is empty, and
        # the first simulant born later could then not store its string (a model error, not the framework's)
        cols = {"sw_a": labels * 0.5, "sw_b": labels.astype("int64"),
                "sw_c": pd.Series(["x%d" % (l % 3) for l in labels], index=index, dtype="str"),
                "sw_d": labels * 0.25 + 1.0, "sw_e": labels % 2 == 0}
        return pd.DataFrame({c: cols[c] for c in self.COLS[:self.n_cols]}, index=index)

    def on_initialize_simulants(self, pop_data):
        if pop_data.user_data.get("sw_conflict"):
            # conflicting initialisation data for a column another component has already initialised: must be refused
            self.population_view.update(pd.Series(999.0, index=pop_data.index, name="dose"))
        frame = self._frame(pop_data.index)
        frame["sw_err"] = np.zeros(len(frame), dtype="int64")
        self.population_view.update(frame)

    def on_time_step(self, event):
        n_err = 0
        own = self.population_view.subview(self.COLS[:self.n_cols] + ["sw_err"])
        pop = own.get(event.index) if len(event.index) else None       # tracked simulants of the event only
        if pop is not None and len(pop):
            new = pop[self.COLS[:self.n_cols]].copy()
            for c in new.columns:                # every column really changes
                if c in ("sw_a", "sw_d"):
                    new[c] = new[c] + 1.0
                elif c == "sw_b":
                    new[c] = new[c] + 1
                elif c == "sw_c":
                    new[c] = new[c].astype(str) + "y"
                elif c == "sw_e":
                    new[c] = ~new[c].astype(bool)
            bad = self.bad
            if self.valid_every and self.count % self.valid_every == 0:
                bad = "none"
            if bad == "dtype":
                victim = [c for c in ("sw_b", "sw_a", "sw_e") if c in new.columns][self.count % min(3, len(new.columns)) - 1]
                new[victim] = ["oops"] * len(new) if victim != "sw_b" else new[victim].astype(float) + 0.5
            elif bad == "row":
                extra = new.iloc[[0]].copy()
                extra.index = [10 ** 6 + self.count]
                new = pd.concat([new, extra])
            elif bad == "extra":
                new["sw_zz"] = 1.0
            n_err += self._swallow("update_" + bad, lambda: own.update(new))
        if self.lifecycle:
            n_err += self._swallow("late_stream", lambda: self.get_stream("sw_late_%d" % self.count))
            n_err += self._swallow("late_producer", lambda: self.register_producer("sw_late", source=self._source))
            n_err += self._swallow("late_emitter", lambda: self.get_emitter("time_step"))
        if self.conflict_at is not None and self.count == int(self.conflict_at):
            n_err += self._swallow("conflict_create", lambda: self.creator(2, {"sw_conflict": True, "age_start": 0, "age_end": 2}))
        if n_err and pop is not None and len(pop):
            err = own.get(event.index)[["sw_err"]]
            if len(err) and not err["sw_err"].isna().any():
                err["sw_err"] = err["sw_err"].astype("int64") + n_err
                self._swallow("count", lambda: own.update(err))

    def on_collect_metrics(self, event):
        self.count += 1


class StepMod(Component):
    """Per-simulant step modifier: label l asks for (1 + (a*l + b*tick) mod c) minimum steps (NaT when p>0 and
    (l + tick) mod p == 0), tick = whole minimum steps since start.  Logs every call's values."""

    def __init__(self, a=1, b=0, c=3, p=0, tag=0):
        super().__init__()
        self.a, self.b, self.c, self.p, self.tag = a, b, c, p, tag

    def setup(self, builder):
        self.clock = builder.time.clock()
        self.cfg = builder.configuration.time
        builder.time.register_step_size_modifier(self.modifier)

    def _units(self):
        t = self.clock()
        if isinstance(t, pd.Timestamp):
            start = pd.Timestamp(self.cfg.start.year, self.cfg.start.month, self.cfg.start.day)
            unit = pd.Timedelta(days=self.cfg.step_size // 1, hours=(self.cfg.step_size % 1) * 24)
            return int((t - start) // unit), unit
        return int((t - self.cfg.start) // self.cfg.step_size), self.cfg.step_size

    def modifier(self, index):
        tick, unit = self._units()
        labels = np.asarray(index, dtype="int64")
        k = 1 + (self.a * labels + self.b * tick) % self.c
        if isinstance(unit, pd.Timedelta):
            vals = pd.Series(pd.to_timedelta(k * unit.value, unit="ns"), index=index)
            if self.p:
                vals[(labels + tick) % self.p == 0] = pd.NaT
        else:
            vals = pd.Series((k * unit).astype(float), index=index)
            if self.p:
                vals[(labels + tick) % self.p == 0] = np.nan
        return vals


class Snoozer(Component):
    """Snoozes (move_simulants_to_end) the simulants of the time_step event whose label l has (l + step) mod m == r."""

    def __init__(self, m=4, r=1):
        super().__init__()
        self.m, self.r = m, r
        self.count = 0
        self.actions = []

    def setup(self, builder):
        self.move_to_end = builder.time.move_simulants_to_end()

    def on_time_step(self, event):
        labels = np.asarray(event.index, dtype="int64")
        sel = event.index[(labels + self.count) % self.m == self.r]
        if len(sel):
            self.move_to_end(sel)
            self.actions.append([self.count, 1, "snooze", [int(i) for i in sel]])

    def on_collect_metrics(self, event):
        self.count += 1


class Obs(Observer):
    """Adding observations (count / sum, filters, mapper + binned stratifications) and a concatenating observation."""

    def __init__(self, strat=True, concat=True, when="collect_metrics", have_cond=False):
        super().__init__()
        self.strat, self.concat, self.when, self.have_cond = strat, concat, when, have_cond

    @property
    def columns_required(self):
        return ["age", "sex", "alive"]

    def register_observations(self, builder):
        if self.strat:
            builder.results.register_stratification("sex", ["M", "F"], requires_columns=["sex"])
            builder.results.register_binned_stratification("age", "age_group", [0, 5, 30, 60, 200],
                                                           ["a0", "a5", "a30", "a60"])
            builder.results.register_stratification("alive", ["alive", "dead"], requires_columns=["alive"])
        strats = ["age_group", "sex"] if self.strat else []
        builder.results.register_adding_observation("deaths", pop_filter='alive == "dead"', when=self.when,
                                                    requires_columns=["alive"], additional_stratifications=strats)
        builder.results.register_adding_observation("person_time", pop_filter="tracked == True", when=self.when,
                                                    requires_columns=["age"], aggregator=age_sum,
                                                    additional_stratifications=strats[::-1])
        builder.results.register_adding_observation("everyone", pop_filter="", when="time_step__prepare",
                                                    additional_stratifications=["alive"] if self.strat else [])
        if self.have_cond:
            builder.results.register_adding_observation("sick", pop_filter='cond == "sick" and tracked == True',
                                                        when="time_step__cleanup", requires_columns=["cond"],
                                                        additional_stratifications=strats[:1])
        if self.concat:
            builder.results.register_concatenating_observation("ages", pop_filter="tracked == True and age > 50",
                                                               when="collect_metrics",
                                                               requires_columns=["age", "sex"])


def age_sum(df):
    return float((df["age"] // 1).sum())


KINDS = {"recorder": Recorder, "base_pop": BasePop, "births": Births, "pipes": Pipes, "mortality": Mortality,
         "tables": Tables, "risk": RiskEffect, "condition": Condition, "residual": ResidualUser, "stepmod": StepMod,
         "snoozer": Snoozer, "obs": Obs, "private": PrivateState, "swallow": Swallower}


# =====================================================================================================================
# program -> context
# =====================================================================================================================
SIMPLE_CLOCK = {"required": {"clock": {"controller": "vivarium.framework.time.SimpleClock",
                                       "builder_interface": "vivarium.framework.time.TimeInterface"}}}


def _stub_matplotlib():
    """vivarium.examples.boids imports its plotting helpers (matplotlib, not installed here) from the package __init__;
    the simulation components never use them.  An empty stand-in lets the package import headless - also in the fresh
    interpreter that loads a backup, because `import probes` runs first there."""
    import sys
    import types
    for name in ("matplotlib", "matplotlib.pyplot", "matplotlib.animation"):
        if name not in sys.modules:
            try:
                __import__(name)
            except Exception:
                sys.modules[name] = types.ModuleType(name)
    if not hasattr(sys.modules["matplotlib.animation"], "FuncAnimation"):
        sys.modules["matplotlib.animation"].FuncAnimation = object


_stub_matplotlib()


def example_components(name):
    """The repository's own example models (imported by module path, so dill pickles them by reference)."""
    if name == "disease_model":
        from vivarium.examples.disease_model import (BasePopulation, DeathsObserver, Mortality as ExMortality,
                                                     Risk, RiskEffect as ExRiskEffect, SISDiseaseModel,
                                                     TreatmentIntervention, YllsObserver)
        comps = [BasePopulation(), ExMortality(), SISDiseaseModel("lower_respiratory_infections"), Risk("child_wasting"),
                 ExRiskEffect("child_wasting", "infected_with_lower_respiratory_infections.incidence_rate"),
                 TreatmentIntervention("sqlns", "child_wasting.proportion_exposed"), DeathsObserver(), YllsObserver()]
        config = {"randomness": {"key_columns": ["entrance_time", "age"]},
                  "population": {"age_start": 0, "age_end": 5},
                  # the rates of disease_model.yaml scaled up so that a run of a few days sees deaths, infections,
                  # remissions and untracking
                  "mortality": {"mortality_rate": 11.4, "life_expectancy": 88.9},
                  "lower_respiratory_infections": {"incidence_rate": 87.1, "remission_rate": 45.1,
                                                   "excess_mortality_rate": 63.4},
                  "child_wasting": {"proportion_exposed": 0.0914},
                  "effect_of_child_wasting_on_infected_with_lower_respiratory_infections.incidence_rate":
                      {"relative_risk": 4.63},
                  "sqlns": {"effect_size": 0.18}}
        return comps, config
    if name == "boids":
        from vivarium.examples.boids import Alignment, Cohesion, Movement, Neighbors, Population, Separation
        return [Population(), Movement(), Neighbors(), Separation(), Cohesion(), Alignment()], {}
    raise ValueError(name)


def _merge(a, b):
    for k, v in b.items():
        if isinstance(v, dict) and isinstance(a.get(k), dict):
            _merge(a[k], v)
        else:
            a[k] = v
    return a


def build(program):
    if program.get("example"):
        comps, extra = example_components(program["example"])
        _, config, plugins = build(dict(program, example=None, components=[{"kind": "recorder"}]))
        return [Recorder()] + comps, _merge(config, extra), plugins
    comps = []
    for c in program["components"]:
        c = dict(c)
        kind = c.pop("kind")
        comps.append(KINDS[kind](**c))
    step = program["step"]
    n = program["n_min_steps"]
    if program["clock"] == "datetime":
        # whole days only in start/end (the clock builds Timestamps from y/m/d): duration = ceil(n*step) days, the
        # step may be fractional, so the duration need not be a multiple of the step
        days = int(math.ceil(n * step)) + (1 if program.get("end_frac") else 0)
        start = pd.Timestamp(2005, 7, 1)
        end = start + pd.Timedelta(days=days)
        time = {"start": {"year": 2005, "month": 7, "day": 1},
                "end": {"year": int(end.year), "month": int(end.month), "day": int(end.day)},
                "step_size": step, "standard_step_size": program.get("std")}
        plugins = None
    else:
        # the natural mixture of plain numbers: integer start, integer end when it is integral, the step as given (possibly
        # fractional).  InteractiveContext.run_until/step accept any pair of plain numbers since /repo af5a6c59 (F-AE);
        # before, an int clock with a float end (or the reverse, after a fractional step) raised ValueError there only.
        end = n * step + (step / 2 if program.get("end_frac") else 0)
        time = {"start": 0, "end": int(end) if float(end) == int(end) else float(end), "step_size": step,
                "standard_step_size": program.get("std")}
        plugins = SIMPLE_CLOCK
    config = {"randomness": {"random_seed": program["seed"], "map_size": int(program.get("map_size", 4000)),
                             "key_columns": ["entrance_time", "age"] if program.get("crn") else []},
              "population": {"population_size": program["pop"]},
              "time": time}
    if program.get("default_strat"):
        config["stratification"] = {"default": list(program["default_strat"])}
    return comps, config, plugins


def t_int(x):
    """times / step sizes as exact integers (ns for pandas objects; simple-clock numbers scaled by 2**20)."""
    if isinstance(x, (pd.Timestamp, pd.Timedelta)):
        return int(x.value)
    if x is None:
        return None
    v = float(x) * 1048576
    return int(v) if v == int(v) else v


# =====================================================================================================================
# canonical digests
# =====================================================================================================================
def _canon_value(v):
    if v is None:
        return "None"
    if isinstance(v, (bool, np.bool_)):
        return "b" + str(bool(v))
    if isinstance(v, (int, np.integer)):
        return "i" + str(int(v))
    if isinstance(v, (float, np.floating)):
        return "nan" if v != v else "f" + float(v).hex()
    if isinstance(v, pd.Timestamp):
        return "t" + str(v.value)
    if isinstance(v, pd.Timedelta):
        return "d" + str(v.value)
    if v is pd.NaT:
        return "nat"
    if isinstance(v, str):
        return "s" + v
    return "o" + repr(v)


def canon_frame(df, sort_rows_by_index=True):
    """{column: [dtype, [values...]]} with columns sorted, rows in label order; index labels included."""
    if sort_rows_by_index:
        df = df.sort_index(kind="stable")
    out = {"__index__": [str(df.index.dtype), [_canon_value(i) if not isinstance(i, tuple) else repr(i)
                                               for i in df.index]]}
    for col in sorted(map(str, df.columns)):
        s = df[col]
        out[col] = [str(s.dtype), [_canon_value(v) for v in s.tolist()]]
    return out


def digest(obj):
    return hashlib.sha1(json.dumps(obj, sort_keys=True).encode()).hexdigest()


def state_digest(sim):
    pop = sim.get_population(untracked=True)       # explicit: InteractiveContext's default differs
    return digest(canon_frame(pop))


def canon_results(res):
    out = {}
    for name in sorted(res):
        df = res[name]
        cols = sorted(map(str, df.columns))
        recs = sorted(json.dumps([[c, _canon_value(v)] for c, v in zip(cols, [row[c] for c in cols])])
                      for row in df.to_dict("records"))
        out[name] = [[c + ":" + str(df[c].dtype) for c in cols], recs]
    return out


def results_digest(sim):
    return digest(canon_results(sim.get_results()))


# =====================================================================================================================
# environments and drivers
# =====================================================================================================================
def pollute(kind, k):
    """Disturb the process-global generators (the framework must never read them)."""
    import random
    if kind == "none":
        return
    if kind == "seed":
        np.random.seed(1000 + 17 * k)
        random.seed(2000 + 13 * k)
    elif kind == "consume":
        np.random.random_sample(3 + k % 5)
        np.random.randint(0, 10, size=2)
        random.random()
        random.getrandbits(8 * (1 + k % 3))
    elif kind == "both":
        np.random.seed(31 * k + 5)
        np.random.random_sample(7)
        random.seed(str(k))
        random.random()


def prior_contexts(n):
    """Create (and run a little) n unrelated contexts earlier in the process; the name cache is NOT cleared."""
    from vivarium.framework.engine import SimulationContext
    for i in range(n):
        comps, config, plugins = build({"seed": 99 + i, "pop": 3, "clock": "datetime", "step": 1, "n_min_steps": 2,
                                        "components": [{"kind": "base_pop"}]})
        sim = SimulationContext(components=comps, configuration=config, plugin_configuration=plugins,
                                logging_verbosity=0)
        sim.setup()
        sim.initialize_simulants()
        if i % 2:
            sim.step()
    boot.quiet_logging()


def make_context(program, interactive):
    from vivarium.framework.engine import SimulationContext
    from vivarium.interface.interactive import InteractiveContext
    comps, config, plugins = build(program)
    if interactive:
        sim = InteractiveContext(components=comps, configuration=config, plugin_configuration=plugins, setup=False,
                                 logging_verbosity=0)
    else:
        sim = SimulationContext(components=comps, configuration=config, plugin_configuration=plugins,
                                logging_verbosity=0)
    boot.quiet_logging()
    return sim, comps


def stop_time(program):
    """The stop time of a program's clock, in the clock's own type (from the program, not from the context)."""
    _, config, _ = build(program)
    t = config["time"]
    if program["clock"] == "datetime":
        return pd.Timestamp(t["end"]["year"], t["end"]["month"], t["end"]["day"])
    return t["end"]


def min_step(program):
    s = program["step"]
    if program["clock"] == "datetime":
        return pd.Timedelta(days=s // 1, hours=(s % 1) * 24)
    return s


def has_individual_clocks(program):
    return any(c["kind"] == "stepmod" for c in program["components"])


def exact_constant_step(program):
    """The global step is constant AND clock arithmetic is exact (Timedelta ns, or dyadic SimpleClock numbers): only then
    is the number of remaining steps known in advance (used to size take_steps(n) chunks; InteractiveContext.run/
    run_until/run_for need no such precondition since /repo 98b7435f)."""
    if has_individual_clocks(program):
        return False
    if program["clock"] == "simple":
        s = float(program["step"]) * 1048576
        return s == int(s)
    return True


def table_rows(sim):
    """[label, next_event_time, step_size, tracked] per simulant (clock columns are absent without step modifiers)."""
    pop = sim.get_population(untracked=True)
    if len(pop) == 0:
        return []
    has = "next_event_time" in pop.columns and "step_size" in pop.columns
    out = []
    for label, row in pop.sort_index().iterrows():
        if has and not pd.isna(row["next_event_time"]):
            out.append([int(label), t_int(row["next_event_time"]), t_int(row["step_size"]), bool(row["tracked"])])
        else:
            out.append([int(label), 0, 0, bool(row["tracked"])])
    return out


def components_of(sim, comps=None):
    """The component instances of a context.  For a context the harness built: the list it built.  For a context
    restored from a backup nothing public lists the components of a SimulationContext, so the object graph is searched
    BY CAPABILITY, not by attribute name: any attribute of the context that offers a callable `list_components()` (the
    component manager's public method, whatever the attribute is called) - and failing that, any attribute that is
    itself a Component or a container of Components.  Never raises: an empty list only means "no schedule observed"
    (the digests, which decide the property, do not need it)."""
    if comps is not None:
        return list(comps)
    found = []
    try:
        attrs = list(vars(sim).values())
    except Exception:
        attrs = []
    for a in attrs:
        try:
            lister = getattr(a, "list_components", None)
            if callable(lister):
                got = lister()
                found = list(got.values()) if isinstance(got, dict) else list(got)
                if found:
                    return found
        except Exception:
            continue
    for a in attrs:
        try:
            if isinstance(a, Component):
                found.append(a)
            elif isinstance(a, (list, tuple, set)):
                found += [x for x in a if isinstance(x, Component)]
            elif isinstance(a, dict):
                found += [x for x in a.values() if isinstance(x, Component)]
        except Exception:
            continue
    return found


def collect(sim, comps=None):
    trace, actions, rec = [], [], None
    for c in components_of(sim, comps):
        if isinstance(c, Recorder):
            trace, rec = c.trace, c
        if hasattr(c, "actions") and isinstance(getattr(c, "actions"), list):
            actions += c.actions
    return trace, sorted(actions), rec


class StepTap:
    """Harness-side observer of whole steps.  Installed as the INSTANCE attribute `step` of a context when the driver
    is run()/take_steps()/run_until() (those call self.step()), or simply called by the manual drivers.  It calls the
    class's own step and then records the digest of the state table, the per-simulant clock rows and the clock."""

    def __init__(self, sim, rec, between=None):
        self.sim, self.rec, self.between = sim, rec, between
        self.cls_step = type(sim).step
        self.digests, self.rows, self.clocks = [], [], []

    def observe(self):
        self.digests.append(state_digest(self.sim))
        self.rows.append(table_rows(self.sim))
        self.clocks.append(self.rec.now() if self.rec is not None else None)

    def __call__(self, *args, **kwargs):
        r = self.cls_step(self.sim, *args, **kwargs)
        self.observe()
        if self.between:
            self.between(len(self.digests))
        return r


def _finish(sim, out, tap, comps=None):
    sim.finalize()
    sim.report(print_results=False)
    trace, actions, _ = collect(sim, comps)
    out.update(digests=tap.digests, rows=tap.rows, clocks=tap.clocks, results=results_digest(sim),
               final=state_digest(sim), trace=trace, actions=actions, name=sim.name)
    return out


def run_program(program, env, backup_dir=None):
    """Run one program to the end under one environment; returns per-step digests, results digest and the schedule.
    With backup_dir (driver `manual` only): write_backup at EVERY step boundary k = 0..n into backup_dir/k.pkl."""
    import os
    driver = env.get("driver", "run_simulation")
    pol = env.get("pollute", "none")
    set_churn(env.get("churn", 0))
    pollute(pol, 0)
    heap_churn()
    prior_contexts(env.get("prior", 0))
    if env.get("reset"):
        try:
            boot.reset_contexts()          # clears the context-name cache through a private helper: optional, best effort
        except Exception:
            pass
    interactive = driver.startswith("i_")
    def model_rng():
        # a MODEL that draws from the global numpy generator when it creates simulants (vivarium.examples.boids does) is
        # reproducible only from that generator's state: it is part of the program's input, set in every environment
        # immediately before the population is created (after all pollution; later pollution stays in place)
        if program.get("np_seed") is not None:
            np.random.seed(int(program["np_seed"]))

    sim, comps = make_context(program, interactive)
    rec = next((c for c in comps if isinstance(c, Recorder)), None)
    stop = stop_time(program)

    def between(k):
        pollute(pol, k)
        heap_churn()

    tap = StepTap(sim, rec, between)
    out = {"driver": driver}
    if driver == "run_simulation":
        sim.step = tap
        pollute(pol, 1)
        model_rng()
        sim.run_simulation()
        trace, actions, _ = collect(sim, comps)
        out.update(digests=tap.digests, rows=tap.rows, clocks=tap.clocks, results=results_digest(sim),
                   final=state_digest(sim), trace=trace, actions=actions, name=sim.name)
        return out
    if driver == "manual":
        sim.setup()
        pollute(pol, 2)
        model_rng()
        sim.initialize_simulants()
        out["init"], out["rows0"], out["clock0"] = state_digest(sim), table_rows(sim), rec.now() if rec else None
        k = 0
        if backup_dir:
            sim.write_backup(os.path.join(backup_dir, f"{k}.pkl"))
        while sim.current_time < stop:
            tap()
            k += 1
            if backup_dir:
                sim.write_backup(os.path.join(backup_dir, f"{k}.pkl"))
        return _finish(sim, out, tap, comps)
    model_rng()
    sim.setup()                              # InteractiveContext.setup = setup + initialize_simulants
    out["init"], out["rows0"], out["clock0"] = state_digest(sim), table_rows(sim), rec.now() if rec else None
    sim.step = tap
    if driver == "i_step":
        while sim.current_time < stop:
            sim.step()
    elif driver == "i_take_steps":
        chunk = max(1, int(env.get("chunk", 2)))
        while sim.current_time < stop:
            # take_steps(n) is n x step(); a chunk must not run past the stop time: the number of remaining steps is known
            # in advance only when the global step is constant and clock arithmetic exact - otherwise single steps
            n = 1
            if chunk > 1 and exact_constant_step(program):
                n = max(1, min(chunk, sim.get_number_of_steps_remaining()))
            sim.take_steps(n, with_logging=False)
    elif driver == "i_run":
        sim.run(with_logging=False)
    elif driver == "i_run_for":
        span = stop - sim.current_time
        half = span / 2                      # a Timedelta, or a plain number of whatever type the division gives
        sim.run_for(half, with_logging=False)
        sim.run_until(stop, with_logging=False)
    else:
        raise ValueError(driver)
    return _finish(sim, out, tap, comps)


def resume_program(path, program, env):
    """Load a backup (dill) and continue to the end; returns the digests of the REMAINING steps etc."""
    import dill
    pol = env.get("pollute", "none")
    set_churn(env.get("churn", 0))
    pollute(pol, 0)
    heap_churn()
    with open(path, "rb") as f:
        sim = dill.load(f)
    boot.quiet_logging()
    _, _, rec = collect(sim)
    stop = stop_time(program)
    tap = StepTap(sim, rec, lambda k: (pollute(pol, k), heap_churn()))
    out = {"driver": env.get("driver", "run"), "init": state_digest(sim), "rows0": table_rows(sim),
           "clock0": rec.now() if rec else None, "type": type(sim).__name__}
    if out["driver"] == "run":
        sim.step = tap
        sim.run()
    else:
        while sim.current_time < stop:
            tap()
    return _finish(sim, out, tap)


# =====================================================================================================================
# schedule cases for coq/theories/Sim.v (check_sched)
# =====================================================================================================================
def _cz(n):
    n = int(n)
    return f"({n})%Z" if n < 0 else f"{n}%Z"


def _cl(items):
    items = list(items)
    return "[" + "; ".join(items) + "]" if items else "[]"


def initial_step(program):
    """the clock's global step BEFORE initialize_simulants recomputes it: DateTimeClock starts from the minimum step,
    SimpleClock from the standard step (time.py, the two setup methods)"""
    if program["clock"] == "datetime" or not program.get("std"):
        return min_step(program)
    return program["std"]


def sched_case(program, drv, clock0, rows0, trace, actions, rows_after, clocks_after, first_step=0, with_init=False):
    """(Gallina literal of type Sim.sched_case, None)  or  (None, reason) when the run is outside the model's domain
    (clock values that are not exact integers: SimpleClock with a non-dyadic step).
    trace/actions entries carry the step number in position 0; steps first_step .. first_step+len(rows_after)-1.

    Times are emitted RELATIVE to the case's first clock value and in units of the gcd of all durations of the case
    (Sim.v only adds, subtracts, compares and takes minima of times, so it is invariant under this affine change of
    units; it keeps the Z literals small - coqc spends ~1.4 ms per 19-digit literal)."""
    import math as _m
    if any(c.get("conflict_at") is not None for c in program.get("components", [])):
        return None, "a creation that fails half-way (conflicting initialiser data, error swallowed) is outside the schedule model"
    if clock0 is None or any(c is None for c in clocks_after) or len(clocks_after) != len(rows_after):
        return None, "schedule not observable (no Recorder component reachable)"
    E, m = t_int(stop_time(program)), t_int(min_step(program))
    indiv = has_individual_clocks(program)
    t0 = clock0[0]
    per_step = []
    for j in range(len(rows_after)):
        k = first_step + j
        evs = sorted([t for t in trace if t[0] == k], key=lambda t: t[1])
        if [t[1] for t in evs] != [0, 1, 2, 3]:
            # a step must show exactly the four events once: force a mismatch that Coq reports
            return "(((0%Z, 0%Z, 0%Z, 0%Z, false), [], 0%Z, [([], [], (0%Z, 0%Z, []), (0%Z, 0%Z, []))], None) : sched_case)", None
        et, es = evs[0][4], evs[0][5]
        if any(t[4] != et or t[5] != es for t in evs):
            et = None    # the four events of one step must share time and step size: force a mismatch below
        per_step.append((k, evs, et, es))
    times = [E] + [c[0] for c in clocks_after] + [p[2] for p in per_step if p[2] is not None]
    durs = [m, clock0[1]] + [c[1] for c in clocks_after] + [p[3] for p in per_step]
    z_init = t_int(initial_step(program)) if with_init else None
    if with_init:
        durs.append(z_init)
    if indiv:
        for rows in [rows0] + list(rows_after):
            times += [r[1] for r in rows]
            durs += [r[2] for r in rows]
    if not all(isinstance(v, int) for v in times + durs + [t0]):
        return None, "non-integer clock value (inexact SimpleClock step)"
    g = 0
    for v in [t - t0 for t in times] + durs:
        g = _m.gcd(g, abs(v))
    g = g or 1

    def nt(t):
        return _cz((t - t0) // g)

    def nd(d):
        return _cz(d // g)

    def rows_lit(rows):
        if indiv:
            return _cl(f"({_cz(l)}, {nt(n)}, {nd(z)}, {'true' if t else 'false'})" for l, n, z, t in rows)
        return _cl(f"({_cz(l)}, 0%Z, 0%Z, {'true' if t else 'false'})" for l, n, z, t in rows)

    if program.get("example"):
        # foreign components keep no action log: what they DID to the schedule state is read off the observed table
        # (simulants whose tracked flag dropped during the step; the example models create nobody after initialisation)
        actions, prev = [], {r[0]: r[3] for r in rows0}
        for j, (k, evs, et, es) in enumerate(per_step):
            now = {r[0]: r[3] for r in rows_after[j]}
            gone = sorted(l for l, t in now.items() if not t and prev.get(l, True))
            if gone:
                actions.append([k, 0, "untrack", gone])
            prev = now
    steps = []
    for j, (k, evs, et, es) in enumerate(per_step):
        reacts = []
        for ev in range(4):
            births = sum(len(a[3]) for a in actions if a[0] == k and a[1] == ev and a[2] == "birth")
            untr = [l for a in actions if a[0] == k and a[1] == ev and a[2] == "untrack" for l in a[3]]
            snz = [l for a in actions if a[0] == k and a[1] == ev and a[2] == "snooze" for l in a[3]]
            reacts.append(f"({births}%nat, {_cl(map(_cz, untr))}, {_cl(map(_cz, snz))})")
        tb = _cl(f"({_cz(r[0])}, {nd(r[2])})" for r in rows_after[j]) if indiv else "[]"
        idxs = _cl(_cl(map(_cz, t[6])) for t in evs)
        T1, S1 = clocks_after[j]
        et_lit = nt(et) if et is not None else "(-1)%Z"
        steps.append(f"({_cl(reacts)}, {tb}, ({et_lit}, {nd(es)}, {idxs}), ({nt(T1)}, {nd(S1)}, {rows_lit(rows_after[j])}))")
    hdr = f"(0%Z, {nd(clock0[1])}, {nt(E)}, {nd(m)}, {'true' if indiv else 'false'})"
    # initialize_simulants replayed by the model: start time (= the first clock value, relative 0), the clock's initial
    # step, the configured population size
    init = f"(Some (0%Z, {nd(z_init)}, {int(program['pop'])}%nat))" if with_init else "None"
    return f"(({hdr}, {rows_lit(rows0)}, {_cz(drv)}, {_cl(steps)}, {init}) : sched_case)", None


# =====================================================================================================================
# sub-process launcher (parent side) and the program generator shared by C01 and C18
# =====================================================================================================================
WORKER = None


def spawn_worker(job, hashseed, timeout=900):
    """Run probes_worker.py in a FRESH interpreter with the given PYTHONHASHSEED; returns its result dict."""
    import os
    import subprocess
    import sys
    global WORKER
    if WORKER is None:
        WORKER = os.path.join(os.path.dirname(os.path.abspath(__file__)), "probes_worker.py")
    env = dict(os.environ)
    env["PYTHONHASHSEED"] = str(hashseed)
    env["PYTHONDONTWRITEBYTECODE"] = "1"
    try:
        p = subprocess.run([sys.executable, WORKER], input=json.dumps(job), capture_output=True, text=True, env=env,
                           timeout=timeout)
    except subprocess.TimeoutExpired:
        return {"error": f"worker timed out after {timeout}s"}
    for line in reversed(p.stdout.splitlines()):
        if line.startswith("@@RESULT@@ "):
            return json.loads(line[len("@@RESULT@@ "):])
    return {"error": f"worker produced no result (rc={p.returncode})", "tb": (p.stderr or "")[-2000:]}


def gen_program(rng, max_steps=8, force=None):
    """A structured random program.  `force`: kinds that must be present (e.g. {"residual", "stepmod"}); the pseudo-kinds
    "crn" and "triggered" force common random numbers / a triggered state-machine transition."""
    force = set(force or ())
    clock = "datetime" if (rng.random() < 0.75 or "stepmod" in force or "snoozer" in force) else "simple"
    step = rng.choice([1, 1, 1, 2, 0.5, 1.5, 3]) if clock == "datetime" else rng.choice([1, 2, 0.5, 0.1, 0.3])
    n = rng.randint(2, max_steps)
    crn = rng.random() < 0.5 or "crn" in force
    # mostly populations large enough for deaths, key collisions and same-event interactions to occur; 0 and 1 as edges
    pop = rng.choice([0, 1]) if rng.random() < 0.12 else rng.choice([2, 3, 5, 8, 12, 16, 20, 24])
    if force & {"stepmod", "condition", "residual", "mortality"} and pop == 0:
        pop = rng.choice([2, 5, 9])
    comps = [{"kind": "recorder"}, {"kind": "base_pop", "crn": crn, "age_hi": rng.choice([80, 100, 30])}]

    def want(kind, p):
        return kind in force or rng.random() < p

    if want("births", 0.6):
        sched = {}
        every = 1 if ("births_every" in force or rng.random() < 0.4) else 0
        for _ in range(1 if every else rng.randint(1, 3)):
            sched[str(rng.choice([0, 0, 1, 2, 3, n - 1, rng.randint(0, n)]))] = rng.choice([1, 2, 3] if every else [1, 2, 3, 5])
        # at most 15 births in all (n <= 12 steps x 1 + 3): see the CRN map-size remark below
        comps.append({"kind": "births", "schedule": sched, "phase": rng.choice([0, 1, 1, 1, 2, 3]), "every": every})
    if want("swallow", 0.5):
        comps.append({"kind": "swallow", "bad": rng.choice(["dtype", "dtype", "dtype", "row", "extra", "none"]),
                      "n_cols": rng.choice([3, 4, 5, 5]), "lifecycle": rng.random() < 0.6, "setup_dups": rng.random() < 0.6,
                      # conflict_at stays None in generated programs: a creation that fails half-way leaves the population
                      # manager's `adding_simulants` flag set, after which EVERY later update of any component is refused
                      # (reported for triage; deterministic, but the run cannot continue)
                      "conflict_at": None,
                      "valid_every": rng.choice([0, 0, 2, 3])})
    if want("private", 0.4):
        comps.append({"kind": "private", "scale": rng.choice([0.125, 0.5])})
    have_tables = want("tables", 0.6)
    def specials():
        """unusual-but-legal inputs real models produce: NaN (not at risk / exposure unknown), inf, zero, above the clip"""
        out = []
        if rng.random() < 0.6:
            for _ in range(rng.choice([1, 1, 2, 3])):
                m = rng.choice([2, 3, 4, 5])
                out.append([m, rng.randrange(m), rng.choice(["nan", "nan", "nan", "inf", "zero", "big"])])
        return out

    have_mort = want("mortality", 0.6)
    if have_tables:
        comps.append({"kind": "tables", "scale": rng.choice([1.0, 2.0, 8.0, 30.0]),
                      "nan_bin": rng.randrange(8) if rng.random() < 0.35 else None})
        if rng.random() < 0.6:
            comps.append({"kind": "risk", "factor": rng.choice([2.0, 0.5, 1.5]),
                          "use_exposure": have_mort and rng.random() < 0.5})
    if have_mort:
        comps.append({"kind": "pipes", "base": rng.choice([5.0, 30.0, 80.0, 150.0]),
                      "mods": [[rng.choice([2.0, 0.5, 1.0]), rng.choice([0.0, 0.125, 1.0])]
                               for _ in range(rng.randint(0, 2))],
                      "pafs": [rng.choice([0.25, 0.5, 0.125]) for _ in range(rng.randint(0, 2))],
                      "nan_exposure": rng.choice([0, 0, 2, 3])})
    have_stepmod = clock == "datetime" and want("stepmod", 0.45)
    if have_mort:
        comps.append({"kind": "mortality", "untrack": rng.random() < 0.8,
                      "snooze": have_stepmod and rng.random() < 0.4,
                      "via": rng.choice(["exp", "rate", "rate", "prob"]), "special": specials(),
                      "empty_calls": rng.random() < 0.3})
    have_cond = want("condition", 0.6)
    if have_cond:
        comps.append({"kind": "condition", "p_inc": None if have_tables else rng.choice([0.25, 0.5, 0.75]),
                      "p_rem": rng.choice([0.25, 0.5, 0.125]), "p_sev": rng.choice([0.125, 0.25, 0.5]),
                      "triggered": rng.random() < 0.5 or "triggered" in force, "special": specials()})
    if want("residual", 0.4):
        comps.append({"kind": "residual", "p": rng.choice([0.25, 0.5, 0.75])})
    if have_stepmod:
        for tag in range(rng.choice([1, 1, 2])):
            comps.append({"kind": "stepmod", "a": rng.randint(0, 3), "b": rng.randint(0, 2), "c": rng.choice([2, 3, 4]),
                          "p": rng.choice([0, 0, 3, 4]), "tag": tag})
        if want("snoozer", 0.4):
            comps.append({"kind": "snoozer", "m": rng.choice([3, 4, 5]), "r": rng.randint(0, 2)})
    if want("obs", 0.7):
        comps.append({"kind": "obs", "strat": rng.random() < 0.8, "concat": rng.random() < 0.7,
                      "when": rng.choice(["collect_metrics", "time_step", "time_step__cleanup"]),
                      "have_cond": have_cond})
    # a small CRN index map makes key collisions (and their resolution) frequent; the framework uses max(map_size, 10*pop).
    # Not smaller than 60: with two key columns the salt walk of _resolve_collisions only reaches every second slot, and
    # it never terminates when a parity class is full (liveness finding F-J, outside this property) - at most pop + 15
    # keys are ever registered here, always fewer than half the map.
    prog = {"seed": rng.randint(0, 10 ** 6), "pop": pop, "clock": clock, "step": step, "std": None,
            "map_size": rng.choice([4000, 60, 60, 100]) if crn else 4000,
            "n_min_steps": n, "end_frac": 1 if rng.random() < 0.3 else 0, "crn": crn, "components": comps}
    if have_stepmod and rng.random() < 0.4:
        prog["std"] = step * rng.choice([2, 3])
    if rng.random() < 0.25 and any(c["kind"] == "obs" and c["strat"] for c in comps):
        prog["default_strat"] = ["sex"]
    return prog


def program_tags(program):
    kinds = sorted({c["kind"] for c in program["components"]} - {"recorder", "base_pop"})
    if program.get("example"):
        kinds.append("example_" + program["example"])
    tags = [f"kind:{k}" for k in kinds]
    for c in program["components"]:
        for sp in c.get("special") or []:
            tags.append(f"special:{c['kind']}:{sp[2]}")
        if c.get("via"):
            tags.append(f"mortality_via:{c['via']}")
        if c.get("nan_bin") is not None:
            tags.append("trait:nan_table_cell")
        if c.get("nan_exposure"):
            tags.append("trait:nan_pipeline_value")
        if c.get("empty_calls"):
            tags.append("trait:empty_index_calls")
        if c["kind"] == "swallow":
            tags.append(f"swallow:update_{c.get('bad')}")
            if c.get("conflict_at") is not None:
                tags.append("swallow:conflicting_creation")
    tags = sorted(set(tags))
    tags += [f"clock:{program['clock']}", f"crn:{int(bool(program.get('crn')))}", f"pop:{min(program['pop'], 9)}",
             f"step:{program['step']}", f"endfrac:{program.get('end_frac', 0)}"]
    return tuple(tags)
