"""C15 - Lookup tables return each simulant's own row of data (DESIGN.md section 5, C15).

Tie to the code: every case builds a real SimulationContext whose probe component creates the key / parameter columns
of a generated population and builds the generated tables through `builder.lookup.build_table` in `setup`; the tables
are then called (LookupTable.__call__) right after population creation, inside a `time_step` listener (event time !=
clock) and after each step, at clock dates chosen around year boundaries.  Streams:

  interp      well-formed binned data (0-2 key columns, 1-3 parameters incl. `year`, irregular dyadic edges, per-key
              grids, 1-3 value columns), boundary-rich populations, permuted/partial/empty requests, extrapolation and
              validation on/off
  malformed   the same with 1-3 injected defects (gap, overlap, missing combination, duplicate row, shifted edge,
              inconsistent last right edge, empty data): compares the model's `valid`/`wf` with the real validation and -
              with validation off or for defects the validation does not see - the real merge semantics with the model's
  categorical CategoricalTable (key match; duplicate keys in a malformed share)
  scalar      ScalarTable (one value / several values)
  leapday     `year` tables with the clock on day-of-year 366 (known finding F-N)

Numbers: every edge / attribute is a multiple of 1/8 kept as an integer number of eighths in the JSON case (float = n/8
exactly); the `year` value the code computes (year + yday/365.25) is captured from the argument of
Interpolation.__call__ by a recording wrapper (harness process only) and scaled by 8*1461, where it is an integer.
"""
import datetime
import itertools
import random
from fractions import Fraction

import boot
from core import Result, Stream, cbool, clist, cnat, copt, cpair

PROPERTY = "C15"
RULE = ("one case = one real SimulationContext (population 3-10 simulants, 1-3 tables of at most 48 rows, 3-6 requested "
        "indexes, 1-5 call points: after population creation / inside a time_step listener / after steps). distinct = "
        "distinct canonical (tables, population, requests, dates, flags); trivial = no table was called. Generators are "
        "boundary-biased: attribute values are drawn from {every edge, edge +- 1/8, mid-bin, below the first edge, the "
        "last right edge, above it}; dates from {Dec 30/31, Jan 1, Feb 28/29, Jul 1/2} of leap and non-leap years with "
        "steps of 1-366 days")
ASSUMPTIONS = [
    "bin edges, attribute values and data values are exactly representable (multiples of 1/8, small integers): float "
    "comparisons are comparisons of the scaled integers of the model; the year value year + yday/365.25 never equals a "
    "multiple of 1/8 (1461 is coprime to 32*yday) and is at least 1e-5 away from one, so its rounding is immaterial",
    "key categories are interned in sorted order (pandas groupby order = model group order); simulant labels are unique",
    "NaN edges in the DATA are outside the model; NaN / missing / non-numeric ATTRIBUTES of simulants are modelled and "
    "generated (open finding F-AF for the first two); requests may repeat labels (covered by the theorems, generated)",
    "the theorems C15_bin_membership / C15_extrapolate / C15_edges assume `wf` = a frame accepted by the code's own "
    "validation (check_data_complete incl. the covered-range check of fix 1620b43e, finding F-AC), nothing more",
]
LEVEL_NOTE = ("full on well-formed data (wf); C15_year_current carries the guard day-of-year <= 365, "
              "C15_year_leap_dec31_refuted exhibits the excluded class = Dec 31 of a leap year (open finding F-N); the "
              "membership / extrapolation / edge theorems carry the guard no_nan (no missing key, no NaN parameter): "
              "C15_nan_parameter / C15_missing_key state what the code does with missing attributes (open finding F-AF)")

CLAIM = {
    "technique": "Coq proof over a Gallina model of the lookup tables + Coq-decided correspondence on real contexts",
    "text": "Machine-checked (Coq 8.16.1, no axioms) for ALL well-formed binned data, populations, requests (labels may "
            "repeat) and both extrapolation settings: the row returned for a simulant has the simulant's keys and half-open bins "
            "containing every parameter value and is the unique such row; outside the range the nearest edge bin per "
            "parameter or rejection; a call is the per-simulant function mapped over the request in request order "
            "(rejection = some simulant rejected); scalar tables broadcast; categorical tables match keys. The model is "
            "tied to /repo/src by vm_compute-decided agreement on generated real-context cases (boundary-rich, malformed "
            "data included) and a brute-force row-scan oracle.",
    "note": "well-formedness = the code's own validation (check_data_complete, transcribed and compared with the real "
            "validation on malformed data; since fix 1620b43e nothing else is assumed); floats modelled as scaled integers (inputs are multiples of 1/8); `year` theorem guarded by "
            "day-of-year <= 365 (open finding F-N); headline theorems guarded by no_nan (open finding F-AF: missing "
            "attribute values are not rejected - modelled as the code behaves, oracle failures of that class reported as "
            "KNOWN-FINDING); keys absent from the data (KeyError, modelled as rejection) outside the theorems; correspondence sampled",
}
TRUSTED = [
    "C15: probe component + recording wrapper around Interpolation.__call__ (reads the `year` column it is handed, "
    "never alters it); clock date and untracking through the probe's own builder.time.clock() / "
    "builder.population.get_view (no private attribute of /repo/src is read); interning of category strings in sorted order; scaling of floats to integers (eighths; "
    "eighths*1461 shifted by a constant for `year`)",
]

KEYCOLS = ["ka", "kb"]
PARCOLS = ["pa", "pb", "pc"]
CATS = ["c0", "c1", "c2", "c9", None]    # sorted; c9 never occurs in generated data; index 4 = a missing value (NaN)
NANKEY = 4
DEN = 8
YSCALE = 1461 * DEN
YBASE = 2000                    # years are emitted relative to it (smaller literals; comparisons are translation-invariant)
YOFF = YBASE * YSCALE


# Coq literals: the generated file opens Z_scope, so integers need no %Z (parsing cost is per literal node)
def cz(n):
    n = int(n)
    return f"({n})" if n < 0 else f"{n}"


def czlist(ns):
    return clist(cz(n) for n in ns)


# ----------------------------------------------------------------------------------------------------------------
# real contexts
# ----------------------------------------------------------------------------------------------------------------
def make_probe():
    import pandas as pd
    from vivarium import Component

    class LookupProbe(Component):
        def __init__(self):
            super().__init__()
            self.case = None
            self.built = []       # (table or None, exception or None) per table spec
            self.hook = None

        @property
        def columns_created(self):
            return KEYCOLS + PARCOLS

        def setup(self, builder):
            self.clock = builder.time.clock()                       # public: the current simulation time
            self.tracked_view = builder.population.get_view(["tracked"])
            for t in self.case["tables"]:
                try:
                    self.built.append((build_one(builder, t), None))
                except Exception as e:
                    self.built.append((None, e))

        def on_initialize_simulants(self, pop_data):
            pop = self.case["pop"]
            cols = {}
            for c in KEYCOLS:
                cols[c] = pd.Series([CATS[i] for i in pop[c]], index=pop_data.index, dtype="str")
            for c in PARCOLS:
                vals = [float("nan") if v is None else v if isinstance(v, str) else v / DEN for v in pop[c]]
                cols[c] = pd.Series(vals, index=pop_data.index,
                                    dtype="object" if any(isinstance(v, str) for v in vals) else "float64")
            self.population_view.update(pd.DataFrame(cols, index=pop_data.index))

        def on_time_step(self, event):
            if self.hook is not None:
                self.hook(event)

    return LookupProbe()


def frame_of(t):
    """The DataFrame handed to build_table for a binned / categorical table spec."""
    import pandas as pd
    cols = {}
    for j, kc in enumerate(t["keys"]):
        cols[kc] = pd.Series([CATS[r["k"][j]] for r in t["rows"]], dtype="str")
    for j, pc in enumerate(t["params"]):
        cols[f"{pc}_start"] = pd.Series([r["b"][j][0] / DEN for r in t["rows"]], dtype="float64")
        cols[f"{pc}_end"] = pd.Series([r["b"][j][1] / DEN for r in t["rows"]], dtype="float64")
    for j in range(t["nvals"]):
        cols[f"v{j}"] = pd.Series([float(r["v"][j]) for r in t["rows"]], dtype="float64")
    names = list(cols)
    order = t.get("colorder")
    if order:
        names = [names[i] for i in order]
    return pd.DataFrame({n: cols[n] for n in names})


def build_one(builder, t):
    if t["kind"] == "scalar":
        vals = [v / DEN for v in t["values"]]
        if t["as_list"]:
            return builder.lookup.build_table(list(vals) if t.get("list", True) else tuple(vals),
                                              value_columns=[f"v{j}" for j in range(len(vals))])
        return builder.lookup.build_table(vals[0])
    vcols = [f"v{j}" for j in range(t["nvals"])] if t.get("explicit_values", True) else ()
    return builder.lookup.build_table(frame_of(t), key_columns=list(t["keys"]), parameter_columns=list(t["params"]),
                                      value_columns=vcols)


class YearRecorder:
    """Records (never alters) the `year` column handed to Interpolation.__call__."""

    def __enter__(self):
        from vivarium.framework.lookup.interpolation import Interpolation
        self.cls, self.orig, self.seen = Interpolation, Interpolation.__call__, []
        orig, seen = self.orig, self.seen

        def __call__(itp, interpolants):
            try:
                if "year" in interpolants.columns and len(interpolants):
                    col = interpolants["year"]
                    seen.append((float(col.iloc[0]), bool((col == col.iloc[0]).all())))
            except Exception:
                pass
            return orig(itp, interpolants)

        Interpolation.__call__ = __call__
        return self

    def __exit__(self, *a):
        self.cls.__call__ = self.orig


def run_context(case):
    """Build the context, perform every call; returns (built, calls) with calls[ti] = list of call records."""
    import pandas as pd
    from vivarium.framework.engine import SimulationContext
    boot.reset_contexts()
    probe = make_probe()
    probe.case = case
    y, m, d = case["start"]
    n = len(case["pop"]["ka"])
    cfg = {"population": {"population_size": n},
           "time": {"start": {"year": y, "month": m, "day": d}, "end": {"year": y + 3, "month": 1, "day": 1},
                    "step_size": case["step"]},
           "interpolation": {"extrapolate": bool(case["ext"]), "validate": bool(case["validate"])}}
    sim = SimulationContext(components=[probe], configuration=cfg, logging_verbosity=0)
    boot.quiet_logging()
    sim.setup()
    sim.initialize_simulants()
    if case.get("untracked"):
        probe.tracked_view.update(pd.Series(False, index=pd.Index(case["untracked"], dtype="int64"), name="tracked"))
    calls = [[] for _ in case["tables"]]
    seen_steps = []

    def do_calls(where):
        now = probe.clock()
        for ti, (tab, err) in enumerate(probe.built):
            if tab is None:
                continue
            # everything at the first call point; later only what can change: `year` tables (one request that is not
            # rejected for other reasons, if there is one), and one request of the others inside the listener
            later = case["requests"][case.get("rq_later", 0):][:1]
            if where == "created":
                reqs = case["requests"]
            elif "year" in case["tables"][ti]["params"] or where == "event":
                reqs = later
            else:
                reqs = []
            for req in reqs:
                rec = {"where": where, "y": int(now.year), "yday": int(now.dayofyear), "idx": list(req)}
                with YearRecorder() as yr:
                    try:
                        out = tab(pd.Index(list(req), dtype="int64"))
                        rec["code"] = 0
                        rec["rows"], rec["shape_ok"] = canon(out, case["tables"][ti])
                    except Exception as e:
                        rec["code"] = 1
                        rec["err"] = type(e).__name__
                if yr.seen:
                    rec["yfloat"] = yr.seen[0][0]
                    rec["yuniform"] = all(u for _, u in yr.seen) and len({f for f, _ in yr.seen}) == 1
                calls[ti].append(rec)

    do_calls("created")
    fired = []
    if case.get("in_event"):
        def hook(event):
            if not fired:
                fired.append(1)
                do_calls("event")
        probe.hook = hook
    for _ in range(case["nsteps"]):
        sim.step()
        seen_steps.append(1)
        do_calls("stepped")
    return probe.built, calls


def canon(out, t):
    """Returned Series/DataFrame -> [[label, [ints] | None]] in returned order."""
    import math
    import pandas as pd
    ncol = len(t["values"]) if t["kind"] == "scalar" else t["nvals"]
    shape_ok = True
    if isinstance(out, pd.Series):
        frame = out.to_frame()
        shape_ok = ncol == 1
    else:
        frame = out
        if t["kind"] != "scalar" or t["as_list"]:
            want = [f"v{j}" for j in range(ncol)]
            shape_ok = list(frame.columns) == want
            if set(want) == set(frame.columns):
                frame = frame[want]
    rows = []
    for lab, vals in zip(frame.index.tolist(), frame.to_numpy().tolist()):
        if all(isinstance(v, float) and math.isnan(v) for v in vals):
            rows.append([int(lab), None])
        else:
            conv = []
            for v in vals:
                f = Fraction(v) * (DEN if t["kind"] == "scalar" else 1)
                if f.denominator != 1:
                    shape_ok = False
                    f = Fraction(10 ** 9 + 7)
                conv.append(int(f))
            rows.append([int(lab), conv])
    return rows, shape_ok


# ----------------------------------------------------------------------------------------------------------------
# scaling + Coq rendering
# ----------------------------------------------------------------------------------------------------------------
def pscale(pname):
    return 1461 if pname == "year" else 1      # JSON eighths -> model integers


def sim_params(case, t, i):
    return [0 if p == "year" or not isinstance(case["pop"][p][i], int) else case["pop"][p][i] for p in t["params"]]


def sim_bads(case, t, i):
    """positions of the parameters whose attribute is not a number (a string)"""
    return [j for j, p in enumerate(t["params"]) if p != "year" and isinstance(case["pop"][p][i], str)]


def sim_nans(case, t, i):
    """positions of the parameters whose attribute is NaN"""
    return [j for j, p in enumerate(t["params"]) if p != "year" and case["pop"][p][i] is None]


def sim_keys(case, t, i):
    return [case["pop"][kc][i] for kc in t["keys"]]


def has_missing(case, t, i):
    return NANKEY in sim_keys(case, t, i) or bool(sim_nans(case, t, i))


def edge(p, b):
    """JSON eighths -> the model's integer for parameter p (`year`: eighths*1461, relative to YBASE)."""
    return b * 1461 - YOFF if p == "year" else b


def coq_rows(t):
    return clist(cpair(czlist(r["k"]), clist(cpair(cz(edge(p, b[0])), cz(edge(p, b[1])))
                                             for p, b in zip(t["params"], r["b"])), czlist(r["v"]))
                 for r in t["rows"])


def coq_pop(case, t):
    n = len(case["pop"]["ka"])
    return clist(cpair(cz(i), cpair(czlist(-1 if x == NANKEY else x for x in sim_keys(case, t, i)),
                                    czlist(sim_params(case, t, i)), czlist(sim_nans(case, t, i)),
                                    czlist(sim_bads(case, t, i)))) for i in range(n))


def coq_frame(rows):
    return clist(cpair(cz(l), copt(v, czlist)) for l, v in rows)


def coq_obs(rec):
    return cpair(cz(rec["code"]), coq_frame(rec.get("rows", []) if rec["code"] == 0 else []))


def year_scaled(f):
    """float year value -> integer in units of 1/(8*1461) (floor; values a hair below an integer snap to it)."""
    q = Fraction(f) * YSCALE + Fraction(1, 10 ** 6)
    return q.numerator // q.denominator


# ----------------------------------------------------------------------------------------------------------------
# the direct oracle: brute-force row scan of the data (independent of the Coq model)
# ----------------------------------------------------------------------------------------------------------------
def grid_groups(t):
    """Declarative well-formedness: per key tuple, the rows are exactly the product of per-parameter left-edge sets, a
    row's right edge is the next left edge, and along every line of the grid (all other parameters fixed) the largest
    right edge is the parameter's largest right edge in the whole group (same covered range everywhere).
    Returns {key: rows} or None."""
    k = len(t["params"])
    if not t["rows"] or k == 0:
        return None
    groups = {}
    for r in t["rows"]:
        groups.setdefault(tuple(r["k"]), []).append(r)
    for key, G in groups.items():
        E = [sorted({r["b"][p][0] for r in G}) for p in range(k)]
        want = set(itertools.product(*E))
        got = [tuple(b[0] for b in r["b"]) for r in G]
        if len(got) != len(want) or set(got) != want:
            return None
        for p in range(k):
            top = max(r["b"][p][1] for r in G)
            lines = {}
            for r in G:
                lines.setdefault(tuple(b[0] for j, b in enumerate(r["b"]) if j != p), []).append(r["b"][p][1])
            if any(max(ends) != top for ends in lines.values()):
                return None
            for r in G:
                s, e = r["b"][p]
                i = E[p].index(s)
                if i + 1 < len(E[p]) and e != E[p][i + 1]:
                    return None
    return groups


def expected_row(G, xs):
    """The row the property promises for attribute vector xs (Fractions, eighths) within key group G, by scanning."""
    k = len(xs)
    lo = [min(r["b"][p][0] for r in G) for p in range(k)]
    hi = [max(r["b"][p][1] for r in G) for p in range(k)]
    top = [max(r["b"][p][0] for r in G) for p in range(k)]
    out = [not (lo[p] <= xs[p] < hi[p]) for p in range(k)]
    hits = []
    for r in G:
        ok = True
        for p in range(k):
            s, e = r["b"][p]
            if xs[p] < lo[p]:
                ok &= (s == lo[p])
            elif xs[p] >= hi[p]:
                ok &= (s == top[p])
            else:
                ok &= (s <= xs[p] < e)
        if ok:
            hits.append(r)
    return any(out), hits


def oracle_binned(case, t, rec, groups):
    """Property statement on one observed call of a binned table whose data is a well-formed grid."""
    k = len(t["params"])
    n = len(case["pop"]["ka"])
    if any(not (0 <= i < n) for i in rec["idx"]):
        return (rec["code"] == 1), "request with an unknown simulant was not rejected"
    yx = None
    if "year" in t["params"] and rec["idx"]:
        if "yfloat" not in rec:
            return (rec["code"] == 1, "no year value seen and call not rejected") if rec["code"] == 0 else (True, "")
        yf = Fraction(rec["yfloat"])
        y, yday = rec["y"], rec["yday"]
        lo_day = y + Fraction(yday - 1, 366)
        hi_day = min(Fraction(y + 1), y + Fraction(yday, 365))
        if not rec.get("yuniform", True):
            return False, "year: simulants of one call were given different year values"
        if not (lo_day <= yf <= hi_day and yf < y + 1):
            return False, (f"year: the table used year value {float(yf):.5f} while the clock stands on day {yday} of {y} "
                           f"(current simulation year is in [{y}, {y + 1}))")
        yx = yf * DEN
    if any(sim_bads(case, t, i) for i in rec["idx"]):
        return (rec["code"] == 1), "a simulant with a non-numeric parameter attribute was not rejected"
    if any(has_missing(case, t, i) for i in rec["idx"]):
        # missing attributes (NaN parameter / missing key): no data row matches such a simulant, so the property wants the
        # call rejected.  The code returns the last bin / a row of NaN (open finding F-AF).  The other simulants of the
        # request are checked first, so that any OTHER failure is reported as such; only then the F-AF failure.
        if rec["code"] != 0:
            return True, ""
        if [r[0] for r in rec["rows"]] != list(rec["idx"]):
            return False, f"result labels {[r[0] for r in rec['rows']]} differ from the request {rec['idx']}"
        sub = dict(rec, idx=[i for i in rec["idx"] if not has_missing(case, t, i)],
                   rows=[r for r in rec["rows"] if not has_missing(case, t, r[0])])
        o, m_ = oracle_binned(case, t, sub, groups)
        if not o:
            return False, m_
        i, vals = next((r[0], r[1]) for r in rec["rows"] if has_missing(case, t, r[0]))
        if sim_nans(case, t, i) and NANKEY not in sim_keys(case, t, i):
            return False, (f"{FAF} NaN parameter given the last bin although extrapolation is off or no row contains it: "
                           f"simulant {i} (NaN in {[t['params'][j] for j in sim_nans(case, t, i)]}) received {vals}")
        return False, f"{FAF} missing key given NaN: simulant {i} was not rejected and received {vals}"
    must_reject, want = False, []
    for i in rec["idx"]:
        G = groups.get(tuple(sim_keys(case, t, i)))
        if G is None:
            must_reject = True
            continue
        xs = [yx if p == "year" else Fraction(case["pop"][p][i]) for p in t["params"]]
        outside, hits = expected_row(G, xs)
        if outside and not case["ext"]:
            must_reject = True
            continue
        if len(hits) != 1:
            return False, f"oracle: {len(hits)} candidate rows for simulant {i} (harness/grid inconsistency)"
        want.append([i, list(hits[0]["v"])])
    if must_reject:
        return (rec["code"] == 1), "a simulant outside the covered range / with an unknown key was not rejected"
    if rec["code"] != 0:
        return False, f"call rejected ({rec.get('err')}) although every requested simulant is covered"
    if [r[0] for r in rec["rows"]] != list(rec["idx"]):
        return False, f"result labels {[r[0] for r in rec['rows']]} differ from the request {rec['idx']}"
    if rec["rows"] != want:
        bad = [(a, b) for a, b in zip(rec["rows"], want) if a != b][:3]
        return False, f"wrong row for simulant(s) (got, expected): {bad}"
    if not rec.get("shape_ok", True):
        return False, "returned columns are not the value columns"
    return True, ""


def oracle_contains(case, t, rec):
    """Validated data, extrapolation off: the row whose values were returned has bins containing the simulant's values."""
    n = len(case["pop"]["ka"])
    yx = Fraction(rec["yfloat"]) * DEN if "yfloat" in rec else None
    for i, vals in rec["rows"]:
        if vals is None or not (0 <= i < n):
            return False, f"simulant {i}: no row returned without extrapolation on validated data"
        G = [r for r in t["rows"] if r["k"] == sim_keys(case, t, i)]
        cands = [r for r in G if list(r["v"]) == list(vals)]
        if has_missing(case, t, i) or sim_bads(case, t, i):
            continue
        xs = [yx if p == "year" else Fraction(case["pop"][p][i]) for p in t["params"]]
        if any(x is None for x in xs):
            continue
        if cands and not any(all(b[0] <= x < b[1] for b, x in zip(r["b"], xs)) for r in cands):
            return False, (f"validated data, extrapolation off: simulant {i} with values {[float(x) / DEN for x in xs]} "
                           f"received the row with bins {[[e / DEN for e in b] for b in cands[0]['b']]}, which does not contain them")
    return True, ""


# ----------------------------------------------------------------------------------------------------------------
# running a binned case
# ----------------------------------------------------------------------------------------------------------------
def run_binned(case):
    built, calls = run_context(case)
    ok, msg = True, ""
    coq_tables, tags, obs = [], set(), []
    called = 0
    faf = None              # first failure of the listed class F-AF; reported only if nothing else fails in this case
    for ti, t in enumerate(case["tables"]):
        tab, err = built[ti]
        groups = grid_groups(t)
        k = len(t["params"])
        ypos = t["params"].index("year") if "year" in t["params"] else None
        recs = calls[ti]
        called += len(recs)
        if "last_end" in (case.get("note") or []):
            tags.add("range_defect_" + ("rejected" if tab is None else "built_valid" if groups is not None else
                                        "built_unvalidated" if not case["validate"] else "built_INVALID"))
        if tab is None:
            tags.add("build_rejected")
            if groups is not None:
                ok, msg = False, f"well-formed data rejected at build: {type(err).__name__}: {err}"
            if not case["validate"]:
                ok, msg = False, f"build failed with validation off: {type(err).__name__}: {err}"
        else:
            tags.add("built_grid" if groups is not None else "built_nongrid")
        ccalls = []
        for rec in recs:
            yv = year_scaled(rec["yfloat"]) - YOFF if "yfloat" in rec else None
            ccalls.append(cpair(cz(rec["y"] - YBASE), cz(rec["yday"]), copt(yv, cz), czlist(rec["idx"]), coq_obs(rec)))
            tags.add("call_ok" if rec["code"] == 0 else f"call_{rec.get('err')}")
            if len(set(rec["idx"])) < len(rec["idx"]):
                tags.add("call_duplicate_labels" + ("_ok" if rec["code"] == 0 else "_rejected"))
            nn = len(case["pop"]["ka"])
            if any(0 <= i < nn and sim_bads(case, t, i) for i in rec["idx"]):
                tags.add("call_non_numeric" + ("_ok" if rec["code"] == 0 else "_rejected"))
            if any(0 <= i < nn and sim_nans(case, t, i) for i in rec["idx"]):
                tags.add("call_nan_parameter" + ("_ok" if rec["code"] == 0 else "_rejected"))
            if any(0 <= i < nn and NANKEY in sim_keys(case, t, i) for i in rec["idx"]):
                tags.add("call_missing_key" + ("_ok" if rec["code"] == 0 else "_rejected"))
            if rec["code"] == 0 and any(v is None for _, v in rec["rows"]):
                tags.add("call_nan_row")
            if groups is not None:
                o, m_ = oracle_binned(case, t, rec, groups)
                if not o and FAF in m_:
                    faf = faf or f"table {ti} {rec['where']} idx={rec['idx']}: {m_}"
                elif not o and ok:
                    ok, msg = False, f"table {ti} {rec['where']} {rec['y']}-{rec['yday']} idx={rec['idx']}: {m_}"
            elif case["validate"] and tab is not None and not case["ext"] and rec["code"] == 0:
                # data that the code's validation ACCEPTED is "well-formed" by the code's own standard: without
                # extrapolation a returned row must then contain the simulant's values (finding F-AC class)
                o, m_ = oracle_contains(case, t, rec)
                if not o and ok:
                    ok, msg = False, f"table {ti} {rec['where']} idx={rec['idx']}: {m_}"
        coq_tables.append(cpair(cbool(case["ext"]), cbool(case["validate"]), cnat(k), copt(ypos, cnat), cz(DEN),
                                coq_rows(t), coq_pop(case, t), cz(0 if tab is not None else 1),
                                cbool(groups is not None), clist(ccalls)))
        obs.append({"built": tab is not None, "build_error": type(err).__name__ if err else None,
                    "calls": [{kk: r[kk] for kk in ("where", "y", "yday", "idx", "code", "rows", "err", "yfloat") if kk in r}
                              for r in recs[:12]]})
        tags.add(f"k{k}")
        tags.add(f"keys{len(t['keys'])}")
        if ypos is not None:
            tags.add("year")
    if ok and faf:
        ok, msg = False, faf
        tags.add("known_F-AF_reproduced")
    tags.add("ext" if case["ext"] else "noext")
    tags.add("validate" if case["validate"] else "novalidate")
    return Result(ok=ok, msg=msg, coq=f"({clist(coq_tables)} : list itable)", key=_key(case) if called else None, obs=obs,
                  tags=tuple(sorted(tags)))


def _key(case):
    return {k: v for k, v in case.items() if k != "note"}


FAF = "[F-AF]"      # marks an oracle failure of exactly the listed class (a missing attribute value was not rejected)


def finding_binned(case, res):
    if res.msg and "year:" in res.msg and "day 366" in res.msg:
        return "F-N"
    if res.msg and FAF in res.msg:
        return "F-AF"
    return None


# ----------------------------------------------------------------------------------------------------------------
# generators
# ----------------------------------------------------------------------------------------------------------------
LEAP = [2004, 2008, 2012]
NONLEAP = [2003, 2005, 2006, 2007, 2010]


def gen_edges(rng, pname, base_year):
    nb = rng.choice([1, 1, 2, 2, 3, 3, 4, 5])
    if pname == "year":
        first = (base_year + rng.choice([-2, -1, -1, 0, 0, 0, 1, 2])) * DEN + rng.choice([0, 0, 0, 4, 2])
        widths = [rng.choice([8, 8, 8, 8, 16, 4, 12, 2]) for _ in range(nb)]
    else:
        first = rng.choice([0, 0, -16, 8, 3, 40, -5])
        widths = [rng.choice([1, 2, 4, 8, 8, 12, 16, 40]) for _ in range(nb)]
    e = [first]
    for w in widths:
        e.append(e[-1] + w)
    return e        # nb+1 edges, eighths


MAXROWS = 48


def gen_table(rng, base_year, force_year=False, with_keys=None):
    while True:
        t = gen_table_any(rng, base_year, force_year, with_keys)
        if len(t["rows"]) <= MAXROWS:
            return t


def gen_table_any(rng, base_year, force_year=False, with_keys=None):
    nk = rng.choice([0, 1, 1, 2]) if with_keys is None else with_keys
    keys = rng.sample(KEYCOLS, nk)
    if rng.random() < 0.5:
        keys.sort()
    npar = rng.choice([1, 1, 2, 2, 3])
    pool = PARCOLS + ["year"]
    params = rng.sample(pool, npar)
    if force_year and "year" not in params:
        params[rng.randrange(npar)] = "year"
    nvals = rng.choice([1, 1, 2, 3])
    cats = [sorted(rng.sample([0, 1, 2], rng.choice([2, 2, 3]))) for _ in keys]
    combos = list(itertools.product(*cats))
    if nk == 2 and rng.random() < 0.15:
        combos.remove(rng.choice(combos))            # a key tuple without data: allowed by the validation
    shared = [gen_edges(rng, p, base_year) for p in params]
    per_key = rng.random() < 0.3
    rows, vid = [], rng.choice([1, 100, 400])
    for combo in combos:
        grid = [gen_edges(rng, p, base_year) for p in params] if per_key else shared
        degenerate = rng.random() < 0.04
        for cell in itertools.product(*[range(len(g) - 1) for g in grid]):
            b = []
            for p, i in enumerate(cell):
                s, e = grid[p][i], grid[p][i + 1]
                if degenerate and p == 0 and i == len(grid[p]) - 2:
                    e = s - 3                         # a last bin whose right edge is left of its left edge (accepted)
                b.append([s, e])
            rows.append({"k": list(combo), "b": b, "v": [vid + 1000 * j for j in range(nvals)]})
            vid += 1
    rng.shuffle(rows)
    t = {"kind": "binned", "keys": keys, "params": params, "nvals": nvals, "rows": rows,
         "explicit_values": rng.random() < 0.8}
    ncols = len(keys) + 2 * len(params) + nvals
    if rng.random() < 0.5:
        order = list(range(ncols))
        rng.shuffle(order)
        t["colorder"] = order
    return t


def candidates(edges_list, out_prob, rng):
    """Attribute values around the edges of one parameter (eighths)."""
    e = edges_list
    r = rng.random()
    if r < out_prob / 2:
        return e[0] - rng.choice([1, 2, 8, 100])
    if r < out_prob:
        return e[-1] + rng.choice([0, 0, 1, 8, 100])           # the last right edge itself is outside
    r = rng.random()
    if r < 0.45:
        return rng.choice(e[:-1])                               # exactly on a left edge
    if r < 0.6:
        return rng.choice(e[1:]) - 1                            # just below an edge
    if r < 0.7:
        return rng.choice(e[:-1]) + 1 if e[1] - e[0] > 1 or len(e) > 2 else e[0]
    i = rng.randrange(len(e) - 1)
    return rng.randint(e[i], max(e[i], e[i + 1] - 1))


def gen_population(rng, tables, n, ext):
    out_prob = 0.35 if ext else 0.08
    pop = {c: [] for c in KEYCOLS + PARCOLS}
    for _ in range(n):
        for kc in KEYCOLS:
            used = sorted({r["k"][t["keys"].index(kc)] for t in tables if t["kind"] == "binned" or t["kind"] == "cat"
                           for r in t["rows"] if kc in t["keys"]}) or [0, 1]
            pop[kc].append(3 if rng.random() < 0.04 else rng.choice(used))
        for pc in PARCOLS:
            srcs = [(t, t["params"].index(pc)) for t in tables if t["kind"] == "binned" and pc in t["params"] and t["rows"]]
            if not srcs:
                pop[pc].append(rng.randint(-20, 60))
                continue
            t, j = rng.choice(srcs)
            r0 = rng.choice(t["rows"])
            G = [r for r in t["rows"] if r["k"] == r0["k"]]
            e = sorted({r["b"][j][0] for r in G} | {max(r["b"][j][1] for r in G)})
            if len(e) < 2:
                e = [e[0], e[0] + 8]
            pop[pc].append(candidates(e, out_prob, rng))
    if rng.random() < 0.18:                      # missing attributes: NaN parameter values and / or missing key values
        mode = rng.choice(["param", "param", "key", "both", "allnan", "bad", "bad"])
        for i in range(n):
            if mode in ("param", "both") and rng.random() < 0.3:
                pop[rng.choice(PARCOLS)][i] = None
            if mode in ("key", "both") and rng.random() < 0.25:
                pop[rng.choice(KEYCOLS)][i] = NANKEY
        if mode == "bad":                       # an object column holding strings next to numbers
            pc = rng.choice(PARCOLS)
            for i in range(n):
                if rng.random() < 0.35:
                    pop[pc][i] = "x"
        if mode == "allnan":
            pc = rng.choice(PARCOLS)
            pop[pc] = [None] * n
    return pop


def gen_requests(rng, n, case_tables, pop, ext):
    """-> (requests, index of the request used at the later call points)."""
    full = list(range(n))
    perm = list(full)
    if rng.random() < 0.8:
        rng.shuffle(perm)
    reqs = [perm]
    reqs.append(rng.sample(full, rng.randint(1, n)))
    reqs.append([rng.randrange(n)] if rng.random() < 0.7 else [])
    if rng.random() < 0.4:                       # a request that names simulants several times
        reqs.append([rng.randrange(n) for _ in range(rng.randint(2, n + 2))])
    later = 0
    if not ext:
        # requests made only of simulants inside every table's range (so that non-extrapolating calls also succeed)
        inside = []
        for i in full:
            good = True
            for t in case_tables:
                if t["kind"] != "binned":
                    continue
                G = [r for r in t["rows"] if r["k"] == [pop[kc][i] for kc in t["keys"]]]
                if not G:
                    good = False
                    break
                for j, p in enumerate(t["params"]):
                    if p == "year":
                        continue
                    lo = min(r["b"][j][0] for r in G)
                    hi = max(r["b"][j][1] for r in G)
                    good &= isinstance(pop[p][i], int) and lo <= pop[p][i] < hi
            if good:
                inside.append(i)
        if inside:
            rng.shuffle(inside)
            later = len(reqs)
            reqs.append(inside)
            if len(inside) > 2:
                reqs.append(rng.sample(inside, rng.randint(1, len(inside) - 1)))
            elif rng.random() < 0.5:
                reqs.append([rng.choice(inside) for _ in range(rng.randint(2, 4))])
    if rng.random() < 0.04:
        reqs.append([0, 999])
    return reqs, later


DATES_SAFE = [(12, 30), (12, 31), (1, 1), (1, 2), (2, 28), (3, 1), (7, 1), (7, 2), (6, 30)]


def yday_of(date):
    return date.timetuple().tm_yday


def gen_schedule(rng, leapday):
    """start date, step (days), number of steps; the non-leapday streams never stand on day 366."""
    for _ in range(200):
        if leapday:
            y = rng.choice(LEAP)
            step = rng.choice([1, 1, 2, 30, 366])
            nsteps = rng.randint(0, 2)
            land = rng.randint(0, nsteps)
            start = datetime.date(y, 12, 31) - datetime.timedelta(days=step * land)
        else:
            y = rng.choice(LEAP + NONLEAP)
            m, d = rng.choice(DATES_SAFE + ([(2, 29)] if y in LEAP else []))
            start = datetime.date(y, m, d)
            step = rng.choice([1, 1, 1, 2, 3, 30, 183, 365, 366])
            nsteps = rng.choice([0, 1, 1, 2, 2, 3])
        days = [start + datetime.timedelta(days=step * i) for i in range(nsteps + 1)]
        has366 = any(yday_of(x) == 366 for x in days)
        if has366 == leapday:
            return [start.year, start.month, start.day], step, nsteps
    raise RuntimeError("no schedule")


def gen_binned_case(rng, leapday=False, ntables=None):
    start, step, nsteps = gen_schedule(rng, leapday)
    ext = rng.random() < 0.55
    ntab = ntables or rng.choice([1, 1, 2, 3])
    tables = [gen_table(rng, start[0], force_year=leapday) for _ in range(ntab)]
    n = rng.randint(3, 10)
    pop = gen_population(rng, tables, n, ext)
    reqs, later = gen_requests(rng, n, tables, pop, ext)
    case = {"ext": ext, "validate": rng.random() < 0.8, "start": start, "step": step, "nsteps": nsteps,
            "in_event": nsteps > 0 and rng.random() < 0.5, "pop": pop, "tables": tables,
            "untracked": sorted(rng.sample(range(n), rng.randint(1, max(1, n // 3)))) if rng.random() < 0.3 else [],
            "requests": reqs, "rq_later": later}
    return case


def gen_interp(rng):
    return gen_binned_case(rng)


def gen_leapday(rng):
    return gen_binned_case(rng, leapday=True, ntables=1)


def mutate_table(rng, t):
    """Inject one defect; returns its name."""
    rows = t["rows"]
    k = len(t["params"])
    kind = rng.choice(["gap", "overlap", "drop", "dup", "dup_vals", "shift_start", "last_end", "swap", "dup_start",
                       "empty", "last_end", "last_end"])
    if not rows:
        return "none"
    r = rng.choice(rows)
    p = rng.randrange(k)
    if kind == "gap":
        r["b"][p][1] -= rng.choice([1, 2, 8])
    elif kind == "overlap":
        r["b"][p][1] += rng.choice([1, 2, 8])
    elif kind == "drop":
        rows.remove(r)
    elif kind == "dup":
        rows.insert(rng.randrange(len(rows) + 1), {"k": list(r["k"]), "b": [list(b) for b in r["b"]], "v": list(r["v"])})
    elif kind == "dup_vals":
        rows.insert(rng.randrange(len(rows) + 1), {"k": list(r["k"]), "b": [list(b) for b in r["b"]],
                                                   "v": [v + 7 for v in r["v"]]})
    elif kind == "shift_start":
        r["b"][p][0] += rng.choice([-1, 1, 2])
    elif kind == "last_end":
        G = [x for x in rows if x["k"] == r["k"]]
        top = max(x["b"][p][0] for x in G)
        cand = [x for x in G if x["b"][p][0] == top]
        rng.choice(cand)["b"][p][1] += rng.choice([-1, 1, 8, -8, 24])
    elif kind == "swap":
        r["b"][p] = [r["b"][p][1], r["b"][p][0]]
    elif kind == "dup_start":
        rows.append({"k": list(r["k"]), "b": [list(b) if j != p else [b[0], b[1] + 4] for j, b in enumerate(r["b"])],
                     "v": [v + 9 for v in r["v"]]})
    elif kind == "empty":
        if rng.random() < 0.3:
            del rows[:]
        else:
            return mutate_table(rng, t)
    return kind


def gen_malformed(rng):
    case = gen_binned_case(rng)
    notes = []
    for t in case["tables"]:
        for _ in range(rng.choice([1, 1, 1, 2, 3])):
            notes.append(mutate_table(rng, t))
    case["validate"] = rng.random() < 0.55
    case["note"] = notes
    return case


# ----------------------------------------------------------------------------------------------------------------
# categorical
# ----------------------------------------------------------------------------------------------------------------
def gen_cat_table(rng):
    nk = rng.choice([1, 1, 2])
    keys = rng.sample(KEYCOLS, nk)
    nvals = rng.choice([1, 2, 3])
    cats = [sorted(rng.sample([0, 1, 2], rng.choice([2, 3]))) for _ in keys]
    combos = list(itertools.product(*cats))
    if len(combos) > 2 and rng.random() < 0.25:
        combos.remove(rng.choice(combos))
    vid = rng.choice([1, 300])
    rows = []
    for c in combos:
        rows.append({"k": list(c), "b": [], "v": [vid + 1000 * j for j in range(nvals)]})
        vid += 1
    if rng.random() < 0.2:                                    # malformed: duplicate key tuples
        for _ in range(rng.randint(1, 2)):
            r = rng.choice(rows)
            rows.append({"k": list(r["k"]), "b": [], "v": [v + 5 for v in r["v"]]})
    rng.shuffle(rows)
    t = {"kind": "cat", "keys": keys, "params": [], "nvals": nvals, "rows": rows, "explicit_values": rng.random() < 0.8}
    if rng.random() < 0.5:
        order = list(range(nk + nvals))
        rng.shuffle(order)
        t["colorder"] = order
    return t


def gen_cat(rng):
    tables = [gen_cat_table(rng) for _ in range(rng.choice([1, 2, 3]))]
    n = rng.randint(2, 12)
    pop = gen_population(rng, tables, n, True)
    start, step, nsteps = gen_schedule(rng, False)
    reqs, _ = gen_requests(rng, n, tables, pop, True)
    if any(len({tuple(r["k"]) for r in t["rows"]}) < len(t["rows"]) for t in tables):
        # malformed data (several rows per key tuple) is assigned positionally by numpy; with repeated labels in the
        # request pandas' .loc selects every occurrence twice - outside the model (and outside the property)
        reqs = [r for r in reqs if len(set(r)) == len(r)]
    # groups whose size equals a duplicate count are what a positional match would get "right": make them likely
    return {"ext": True, "validate": rng.random() < 0.8, "start": start, "step": 1, "nsteps": rng.choice([0, 1]),
            "in_event": False, "pop": pop, "tables": tables, "untracked": [0] if rng.random() < 0.2 else [],
            "requests": reqs}


def run_cat(case):
    built, calls = run_context(case)
    ok, msg = True, ""
    n = len(case["pop"]["ka"])
    coq_tables, tags, obs, called = [], set(), [], 0
    faf = None
    for ti, t in enumerate(case["tables"]):
        tab, err = built[ti]
        if tab is None:
            return Result(ok=False, msg=f"categorical table refused at build: {type(err).__name__}: {err}")
        if type(tab).__name__ != "CategoricalTable":
            ok, msg = False, f"build_table chose {type(tab).__name__} for key-only data"
        keyrows = {}
        for r in t["rows"]:
            keyrows.setdefault(tuple(r["k"]), []).append(r)
        unique = all(len(v) == 1 for v in keyrows.values())
        tags.add("unique_keys" if unique else "duplicate_keys")
        ccalls = []
        for rec in calls[ti]:
            called += 1
            ccalls.append(cpair(czlist(rec["idx"]), coq_obs(rec)))
            tags.add("call_ok" if rec["code"] == 0 else f"call_{rec.get('err')}")
            if not unique:
                continue
            known = all(0 <= i < n for i in rec["idx"])
            if known and any(NANKEY in sim_keys(case, t, i) for i in rec["idx"]):
                tags.add("call_missing_key")
                if rec["code"] == 0:         # open finding F-AF: no data row has a missing key, yet nothing is rejected
                    i = next(i for i in rec["idx"] if NANKEY in sim_keys(case, t, i))
                    got = dict((r[0], r[1]) for r in rec["rows"])
                    others = [[j, v] for j, v in rec["rows"] if NANKEY not in sim_keys(case, t, j)]
                    wanted = [[j, list(keyrows[tuple(sim_keys(case, t, j))][0]["v"])] for j, _ in others
                              if tuple(sim_keys(case, t, j)) in keyrows]
                    if others != wanted or [r[0] for r in rec["rows"]] != list(rec["idx"]):
                        ok, msg = False, f"idx={rec['idx']}: got {rec['rows'][:4]} (simulants with a key: expected {wanted[:4]})"
                    else:
                        faf = faf or f"idx={rec['idx']}: {FAF} missing key given NaN: simulant {i} was not rejected and received {got.get(i)}"
                continue
            if not known or any(tuple(sim_keys(case, t, i)) not in keyrows for i in rec["idx"]):
                if rec["code"] != 1 and ok:
                    ok, msg = False, f"idx={rec['idx']}: a simulant without a matching data row was not rejected"
                continue
            want = [[i, list(keyrows[tuple(sim_keys(case, t, i))][0]["v"])] for i in rec["idx"]]
            if rec["code"] != 0:
                ok, msg = False, f"idx={rec['idx']}: rejected ({rec.get('err')}) although every key has a row"
            elif rec["rows"] != want or not rec.get("shape_ok", True):
                ok, msg = False, f"idx={rec['idx']}: got {rec['rows'][:4]} expected {want[:4]}"
        coq_tables.append(cpair(clist(cpair(czlist(r["k"]), czlist(r["v"])) for r in t["rows"]), coq_pop(case, t),
                                clist(ccalls)))
        obs.append({"calls": [{kk: r[kk] for kk in ("idx", "code", "rows", "err") if kk in r} for r in calls[ti][:10]]})
        tags.add(f"keys{len(t['keys'])}")
    if ok and faf:
        ok, msg = False, faf
        tags.add("known_F-AF_reproduced")
    return Result(ok=ok, msg=msg, coq=f"({clist(coq_tables)} : list ctable)", key=_key(case) if called else None,
                  obs=obs, tags=tuple(sorted(tags)))


# ----------------------------------------------------------------------------------------------------------------
# scalar
# ----------------------------------------------------------------------------------------------------------------
def gen_scalar(rng):
    tables = []
    for _ in range(rng.choice([1, 2, 3])):
        as_list = rng.random() < 0.65
        nv = rng.choice([1, 2, 3]) if as_list else 1
        tables.append({"kind": "scalar", "as_list": as_list, "list": rng.random() < 0.5, "keys": [], "params": [],
                       "values": [rng.choice([0, 1, -3, 4, 8, 20, 1000, 12345]) for _ in range(nv)]})
    n = rng.randint(1, 10)
    pop = gen_population(rng, [], n, True)
    reqs, _ = gen_requests(rng, n, [], pop, True)
    if rng.random() < 0.3:
        reqs.append([n + 5, 0])          # scalar tables never consult the population
    return {"ext": rng.random() < 0.5, "validate": rng.random() < 0.8, "start": [2005, 7, 1], "step": 1,
            "nsteps": rng.choice([0, 1]), "in_event": False, "pop": pop, "tables": tables, "untracked": [],
            "requests": reqs}


def run_scalar(case):
    built, calls = run_context(case)
    ok, msg = True, ""
    coq_tables, obs, called, tags = [], [], 0, set()
    for ti, t in enumerate(case["tables"]):
        tab, err = built[ti]
        if tab is None:
            return Result(ok=False, msg=f"scalar table refused at build: {type(err).__name__}: {err}")
        if type(tab).__name__ != "ScalarTable":
            ok, msg = False, f"build_table chose {type(tab).__name__} for scalar data"
        ccalls = []
        for rec in calls[ti]:
            called += 1
            if rec["code"] != 0:
                ok, msg = False, f"scalar table call raised {rec.get('err')}"
                rows = []
            else:
                rows = rec["rows"]
                want = [[i, list(t["values"])] for i in rec["idx"]]
                if rows != want or not rec.get("shape_ok", True):
                    ok, msg = False, f"idx={rec['idx']}: got {rows[:4]} expected {want[:4]}"
            ccalls.append(cpair(czlist(rec["idx"]), clist(cpair(cz(l), czlist(v if v is not None else [10 ** 9]))
                                                            for l, v in rows)))
        coq_tables.append(cpair(czlist(t["values"]), clist(ccalls)))
        tags.add(f"values{len(t['values'])}" + ("_list" if t["as_list"] else "_scalar"))
        obs.append({"calls": [{kk: r[kk] for kk in ("idx", "code", "rows") if kk in r} for r in calls[ti][:6]]})
    return Result(ok=ok, msg=msg, coq=f"({clist(coq_tables)} : list stable)", key=_key(case) if called else None,
                  obs=obs, tags=tuple(sorted(tags)))


# ----------------------------------------------------------------------------------------------------------------
# corpus (hand-picked; always run first)
# ----------------------------------------------------------------------------------------------------------------
def _load_corpus(stream):
    import glob
    import json
    import os
    here = os.path.dirname(os.path.dirname(os.path.dirname(os.path.abspath(__file__))))
    out = []
    for f in sorted(glob.glob(os.path.join(here, "corpus", "C15", f"{stream}_*.json"))):
        out.append(json.load(open(f)))
    return out


def shrink_case(case):
    """Smaller variants of a lookup case: drop a table, a request, half of a request, the last simulant, the steps, the
    untracking, one data row (the oracle decides whether the failure survives)."""
    import copy
    if len(case["tables"]) > 1:
        for i in range(len(case["tables"])):
            c = copy.deepcopy(case); del c["tables"][i]; yield c
    for i, req in enumerate(case["requests"]):
        if len(case["requests"]) > 1:
            c = copy.deepcopy(case); del c["requests"][i]
            c["rq_later"] = min(c.get("rq_later", 0), len(c["requests"]) - 1); yield c
        if len(req) > 1:
            c = copy.deepcopy(case); c["requests"][i] = req[: len(req) // 2]; yield c
            c = copy.deepcopy(case); c["requests"][i] = req[len(req) // 2:]; yield c
    if case["nsteps"] > 0:
        c = copy.deepcopy(case); c["nsteps"] = 0; c["in_event"] = False; yield c
    if case.get("untracked"):
        c = copy.deepcopy(case); c["untracked"] = []; yield c
    n = len(case["pop"]["ka"])
    if n > 1:
        c = copy.deepcopy(case)
        for col in c["pop"]:
            c["pop"][col] = c["pop"][col][:-1]
        c["requests"] = [[i for i in r if i != n - 1] for r in c["requests"]]
        c["untracked"] = [i for i in c.get("untracked", []) if i != n - 1]
        yield c
    for ti, t in enumerate(case["tables"]):
        if t["kind"] in ("binned", "cat") and len(t["rows"]) > 1:
            for ri in range(len(t["rows"])):
                c = copy.deepcopy(case); del c["tables"][ti]["rows"][ri]; yield c


def streams(tier):
    imp = "From Viv Require Import Common Lookup."
    return [
        Stream(name="interp", imports=imp, check="check_interp", gen=gen_interp, run=run_binned,
               n_quick=110, n_thorough=700, shrink=shrink_case, corpus=lambda: _load_corpus("interp"), finding_of=finding_binned,
               doc="well-formed binned tables in real contexts"),
        Stream(name="malformed", imports=imp, check="check_interp", gen=gen_malformed, run=run_binned,
               n_quick=90, n_thorough=540, shrink=shrink_case, corpus=lambda: _load_corpus("malformed"), finding_of=finding_binned,
               doc="binned tables with injected defects: validation and raw merge semantics"),
        Stream(name="categorical", imports=imp, check="check_cat", gen=gen_cat, run=run_cat,
               n_quick=40, n_thorough=250, shrink=shrink_case, corpus=lambda: _load_corpus("categorical"),
               finding_of=finding_binned),
        Stream(name="scalar", imports=imp, check="check_scalar", gen=gen_scalar, run=run_scalar,
               n_quick=15, n_thorough=90, shrink=shrink_case, corpus=lambda: _load_corpus("scalar")),
        Stream(name="leapday", imports=imp, check="check_interp", gen=gen_leapday, run=run_binned,
               n_quick=8, n_thorough=48, shrink=shrink_case, corpus=lambda: _load_corpus("leapday"), finding_of=finding_binned,
               doc="year tables with the clock on Dec 31 of a leap year (finding F-N)"),
    ]
