"""C07 - Framework services are available exactly in the states that make sense (DESIGN.md section 5, C07).

Tie to the code:
  tables():   one real SimulationContext ("the matrix context": three probe components at three different places of the
              component list + fillers, every framework service used) is built and run to the end with
              LifeCycleManager.add_phase / set_state / add_constraint wrapped in the harness process (record only).
              Every add_constraint call (arguments, outcome, the permitted list handed to the constraint maker) is emitted
              as generated/ConstraintTable_C07.v and the theorems C07_matrix, C07_table_complete,
              C07_installed_as_modelled, C07_named_services_all_histories are re-proved on it every run.
  `matrix`    (exhaustive) every (named service, life-cycle state) entry of that table: the replayable form of C07_matrix.
  `cells`     (exhaustive) service handle x state x handle age: the outcome (returned / ConstraintError / other error) of
              every service call issued by the three probes from their hooks in each of the 9 states in which component
              code runs, on every visit of the state; Coq checks each against `guarded (table key) state`.
  `real`      (generated) random programs (1-3 probes, random call plans, both context classes, 1-3 steps); the COMPLETE
              recorded history of the context (phases, moves, every add_constraint attempt, every handle capture and
              call in order of occurrence) is replayed through the model (check_hist_real).
  `hist`      (generated) stand-alone LifeCycleManagers with toy objects: random life cycles and histories of
              add_phase / set_state / add_constraint / handle capture / calls, incl. malformed ones.
  `install`   (generated) stand-alone add_constraint argument cases; the permitted set is observed *behaviourally* by
              walking the manager through every state and calling the method.

Open finding F-H (views made by PopulationView.subview are not constrained): the model is faithful (an unconstrained
method has no guard), the direct oracle fails on exactly those handles and `finding_of` names the class.
"""
import random

import boot
from core import Result, Stream, cbool, clist, cpair, cz, czlist

PROPERTY = "C07"
CLAIM = {
    "technique": "Coq model of add_constraint/ConstraintMaker + generated constraint table + exhaustive cell correspondence",
    "text": "Machine-checked: for all state sets restrict_during is the exact complement, exactly one list, unknown states "
            "rejected; for all histories a constrained call passes iff the state current at that call is permitted "
            "(handle age irrelevant, constrained once, wrapper never replaced). The service x state matrix of the "
            "property is re-proved on every run over the constraint table read off a live context, and every "
            "(service handle, state, handle age) cell of a real context is checked against the model by Coq (exhaustive), "
            "plus complete recorded histories of random real contexts and stand-alone managers.",
    "note": "Trusted: the python recorder (class-level wrappers of LifeCycleManager.add_phase/set_state/add_constraint and "
            "ConstraintMaker.__call__, harness process only), the hand-written map from builder interface methods to the "
            "manager method they reach, the classification service -> kind transcribed from the property text. Views made "
            "by PopulationView.subview are not constrained (open finding F-H): reported as KNOWN-FINDING, excluded from "
            "the matrix theorem because they never reach add_constraint.",
}
RULE = ("matrix: all 16 named services x 10 states of the generated table (exhaustive); cells: every service handle of the "
        "three probes x 9 states x every visit (exhaustive for the abstraction 'outcome of the guard depends on the "
        "life-cycle state and the installed list'); real: random programs seeded from VERIF_SEED (1-3 probes, call "
        "density 0.2-1, SimulationContext/InteractiveContext, 1-3 steps); hist: random life cycles (1-4 phases) and 5-60 "
        "events over 1-4 toy objects; install: random state sets and allow/restrict lists incl. both/neither/unknown/"
        "tuples/duplicates. distinct = distinct canonical case; trivial = no call / no constraint")
ASSUMPTIONS = [
    "a builder interface method reaches the manager method of the hand-written map IFACE (e.g. "
    "builder.population.initializes_simulants -> PopulationManager.register_simulant_initializer) by attribute look-up at "
    "call time",
    "the guard's verdict depends only on the life-cycle state current at the call and on the list installed for the method "
    "(this is what the exhaustive cell correspondence and the recorded histories test, incl. repeated visits)",
    "an object's `name` (hence the guid of its methods) does not change during its life",
]
TRUSTED = [
    "C07: class-level recording wrappers of LifeCycleManager.add_phase/set_state/add_constraint and (read defensively) "
    "ConstraintMaker.__call__ for the permitted list; if the latter cannot be wrapped the list is recomputed from the "
    "arguments and the evidence says so",
]

LEVEL_NOTE = ("full: mechanism theorems over all state sets / histories; the service x state matrix re-proved each run on the "
              "table read off the live code; cells exhaustive. Sub-views (PopulationView.subview) are unconstrained: open "
              "finding F-H, outside the matrix theorem (they never reach add_constraint), reported as KNOWN-FINDING")

STATES = ["initialization", "setup", "post_setup", "population_creation", "time_step__prepare", "time_step",
          "time_step__cleanup", "collect_metrics", "simulation_end", "report"]
SID = {s: i for i, s in enumerate(STATES)}
RUN_STATES = STATES[1:]                      # the 9 states in which component code runs
PHASES = {"initialization": 0, "setup": 1, "main_loop": 2, "simulation_end": 3}


def sid(name):
    return SID.get(name, 1000 + (sum(map(ord, str(name))) % 1000))


def pid(name):
    return PHASES.get(name, 100 + (sum(map(ord, str(name))) % 1000))


# named services of the property: number -> (kind, description); numbers as in Constraints.v named_services
KIND = {1: "R", 2: "R", 3: "R", 4: "R", 5: "R", 6: "R", 7: "R", 8: "Read", 9: "Read", 10: "Read", 11: "Read", 12: "Read",
        13: "Read", 14: "Read", 15: "Mut", 16: "Mut"}
SVC_NAME = {1: "register_listener", 2: "register_value_producer", 3: "register_value_modifier",
            4: "register_simulant_initializer", 5: "get_simulant_creator", 6: "get_randomness_stream", 7: "build_table",
            8: "PopulationView.get", 9: "Pipeline call", 10: "get_draw", 11: "filter_for_probability",
            12: "filter_for_rate", 13: "choice", 14: "LookupTable call", 15: "PopulationView.update",
            16: "register_simulants"}


def spec(kind, state):
    """Transcription of the property statement (python side, for the direct oracle)."""
    if kind == "R":
        return state == "setup"
    ok = state not in ("initialization", "setup", "post_setup")
    if kind == "Mut":
        ok = ok and state not in ("simulation_end", "report")
    return ok


def classify_service(obj, mname):
    """(owner object, method name) of a constrained method -> service number (named: 1-16) or a label (others)."""
    from vivarium.framework.event import EventManager
    from vivarium.framework.lookup.manager import LookupTableManager
    from vivarium.framework.lookup.table import LookupTable
    from vivarium.framework.population.manager import PopulationManager
    from vivarium.framework.population.population_view import PopulationView
    from vivarium.framework.randomness.manager import RandomnessManager
    from vivarium.framework.randomness.stream import RandomnessStream
    from vivarium.framework.values import Pipeline, ValuesManager
    table = [(EventManager, "register_listener", 1), (ValuesManager, "register_value_producer", 2),
             (ValuesManager, "register_value_modifier", 3), (PopulationManager, "register_simulant_initializer", 4),
             (PopulationManager, "get_simulant_creator", 5), (RandomnessManager, "get_randomness_stream", 6),
             (LookupTableManager, "build_table", 7), (PopulationView, "get", 8), (Pipeline, None, 9),
             (RandomnessStream, "get_draw", 10), (RandomnessStream, "filter_for_probability", 11),
             (RandomnessStream, "filter_for_rate", 12), (RandomnessStream, "choice", 13), (LookupTable, None, 14),
             (PopulationView, "update", 15), (RandomnessManager, "register_simulants", 16)]
    for cls, name, n in table:
        if isinstance(obj, cls) and (name is None or name == mname):
            return n
    return f"{type(obj).__name__}.{mname}"


# ----------------------------------------------------------------------------------------------------------------
# recording (harness process only; restores everything on exit)
# ----------------------------------------------------------------------------------------------------------------
def err_class(e):
    from vivarium.framework.lifecycle import ConstraintError, InvalidTransitionError, LifeCycleError
    if e is None:
        return "ok"
    if isinstance(e, ConstraintError):
        return "constraint"
    if isinstance(e, InvalidTransitionError):
        return "invalid"
    if isinstance(e, LifeCycleError):
        return "lifecycle"
    if isinstance(e, ValueError):
        return "value"
    if isinstance(e, TypeError):
        return "type"
    return "other"


LIFE_CODE = {"ok": 0, "invalid": 1, "lifecycle": 2, "constraint": 2}            # anything else 5
CONS_CODE = {"ok": 0, "constraint": 1, "lifecycle": 2, "invalid": 2, "value": 3, "type": 4}   # anything else 5


_ABSENT = object()


def _state_list_of(args, kwargs):
    """the list of state names among the arguments of the constraint maker (whatever the parameter is called)"""
    for a in list(args) + list(kwargs.values()):
        if isinstance(a, (list, tuple)) and all(isinstance(x, str) for x in a):
            return list(a)
    return None


class Recorder:
    """Records the life of LifeCycleManagers created while active: phases, moves, constraints, captures and calls.
    Methods are interned as numbers: m = index of (id(owner), attribute name); guids as numbers likewise."""

    def __init__(self):
        self.events = []          # (coq event text, code, obsA list of sids, info dict)
        self.methods = {}         # (id(obj), name) -> m
        self.keep = []            # keeps owners alive (ids stay unique)
        self.guids = {}           # guid string -> g
        self.registry = {}        # m -> (g, kind)
        self.info = {}            # m -> (owner, name)
        self.constrained = {}     # m -> (svc, allow, restrict, permitted names)   accepted constraints, first wins
        self.attempts = []        # every add_constraint attempt: dict
        self.ncapt = 0
        self.phase_states = []    # states of every accepted add_phase, in order
        self.state_names = None
        self.maker_wrapped = False
        self.mgr = None

    # -- interning --
    def method_id(self, obj, name):
        k = (id(obj), name)
        if k not in self.methods:
            self.methods[k] = len(self.methods) + 1
            self.keep.append(obj)
            m = self.methods[k]
            self.info[m] = (obj, name)
            try:
                g = f"{obj.name}.{name}"
            except Exception:
                g = f"<noname {id(obj)}>.{name}"
            if g not in self.guids:
                self.guids[g] = len(self.guids) + 1
            kind = 2 if (name.startswith("__") and name.endswith("__")) else 0
            self.registry[m] = (self.guids[g], kind)
        return self.methods[k]

    def function_id(self, fn):
        k = (id(fn), "<function>")
        if k not in self.methods:
            self.methods[k] = len(self.methods) + 1
            self.keep.append(fn)
            m = self.methods[k]
            self.info[m] = (fn, "<function>")
            self.registry[m] = (10000 + m, 1)
        return self.methods[k]

    def of_callable(self, method):
        if hasattr(method, "__self__"):
            return self.method_id(method.__self__, method.__name__)
        return self.function_id(method)

    # -- wrappers --
    def __enter__(self):
        from vivarium.framework import lifecycle as L
        self.L = L
        cls = L.LifeCycleManager
        # PUBLIC methods of LifeCycleManager are wrapped (found by attribute look-up, wherever the class hierarchy defines them)
        self.saved = [(cls, n, cls.__dict__.get(n, _ABSENT)) for n in ("add_phase", "set_state", "add_constraint")]
        rec = self
        o_phase, o_state, o_cons = cls.add_phase, cls.set_state, cls.add_constraint
        self.pending = None

        def add_phase(mgr, phase_name, states, loop=False):
            err = None
            try:
                o_phase(mgr, phase_name, states, loop)
            except Exception as e:
                err = e
                raise
            finally:
                c = err_class(err)
                if err is None:
                    rec.phase_states.extend(states)
                rec.events.append((f"EAddPhase {cz(pid(phase_name))} {czlist(sid(s) for s in states)} {cbool(loop)}",
                                   LIFE_CODE.get(c, 5), [], {"kind": "phase"}))

        def set_state(mgr, state):
            err = None
            try:
                o_state(mgr, state)
            except Exception as e:
                err = e
                raise
            finally:
                c = err_class(err)
                rec.events.append((f"EMove {cz(sid(state))}", LIFE_CODE.get(c, 5), [],
                                   {"kind": "move", "state": state, "ok": err is None}))

        def add_constraint(mgr, method, allow_during=(), restrict_during=()):
            rec.mgr = mgr
            m = rec.of_callable(method)
            al, re_ = list(allow_during), list(restrict_during)
            rec.pending = None
            err = None
            try:
                o_cons(mgr, method, allow_during, restrict_during)
            except Exception as e:
                err = e
                raise
            finally:
                c = err_class(err)
                code = CONS_CODE.get(c, 5)
                if err is None:
                    if rec.pending is not None:
                        perm = list(rec.pending)
                    else:       # constraint maker not observable: recompute from the arguments (noted in the evidence)
                        names = rec.all_states(mgr)
                        perm = [s for s in names if s not in re_] if re_ else al
                else:
                    perm = []
                obj = getattr(method, "__self__", None)
                svc = classify_service(obj, getattr(method, "__name__", "?")) if obj is not None else "function"
                att = {"m": m, "svc": svc, "allow": al, "restrict": re_, "code": code, "permitted": perm,
                       "guid": rec.registry[m][0], "owner": type(obj).__name__, "name": getattr(method, "__name__", "?"),
                       "states": rec.all_states(mgr)}
                rec.attempts.append(att)
                if err is None and m not in rec.constrained:
                    rec.constrained[m] = att
                rec.events.append((f"EConstrain {cz(m)} {czlist(sid(s) for s in al)} {czlist(sid(s) for s in re_)}", code,
                                   [sid(s) for s in perm], {"kind": "constrain", "m": m}))

        cls.add_phase, cls.set_state, cls.add_constraint = add_phase, set_state, add_constraint
        # the permitted list as handed to the constraint maker (read defensively: a private collaborator)
        try:
            mk = L.ConstraintMaker
            o_call = mk.__dict__["__call__"]

            def maker_call(maker, *args, **kwargs):
                rec.pending = _state_list_of(args, kwargs)
                return o_call(maker, *args, **kwargs)

            mk.__call__ = maker_call
            self.saved.append((mk, "__call__", o_call))
            self.maker_wrapped = True
        except Exception:
            self.maker_wrapped = False
        return self

    def __exit__(self, *a):
        for cls, n, f in self.saved:
            if f is _ABSENT:
                try:
                    delattr(cls, n)
                except AttributeError:
                    pass
            else:
                setattr(cls, n, f)

    def all_states(self, mgr):
        """The state set of the life cycle, from what the recorder saw through the public add_phase (the life cycle starts
        with the single state `initialization`); no private attribute is read."""
        out = ["initialization"]
        for st in self.phase_states:
            if st not in out:
                out.append(st)
        return sorted(out, key=sid)

    # -- probe-side events --
    def capture(self, obj, name):
        """h = obj.name, kept; returns (handle, index k among captured handles)."""
        h = getattr(obj, name)
        m = self.method_id(obj, name)
        self.events.append((f"ECapture {cz(m)}", 0, [], {"kind": "capture", "m": m}))
        k = self.ncapt
        self.ncapt += 1
        return h, k

    def called(self, how, ref, code, info):
        """how: 'attr' (ref = m) or 'handle' (ref = k)."""
        ev = f"ECallAttr {cz(ref)}" if how == "attr" else f"ECallHandle {ref}%nat"
        self.events.append((ev, code, [], dict(info, kind="call")))

    def coq_registry(self):
        return clist(cpair(cz(m), cpair(cz(g), cz(k))) for m, (g, k) in sorted(self.registry.items()))

    def coq_history(self):
        return clist(cpair(ev, cz(code), czlist(obs)) for ev, code, obs, _ in self.events)


def call_code(thunk):
    """0 returned normally, 1 ConstraintError, 2 another error (raised after the guard let the call through)."""
    from vivarium.framework.lifecycle import ConstraintError
    try:
        thunk()
        return 0, None
    except ConstraintError as e:
        return 1, e
    except Exception as e:
        return 2, e


# ----------------------------------------------------------------------------------------------------------------
# probe components
# ----------------------------------------------------------------------------------------------------------------
# builder interface method -> (manager class attribute on the recorder side: owner class name, manager method)
IFACE = {
    "register_listener": ("EventManager", "register_listener"),
    "register_value_producer": ("ValuesManager", "register_value_producer"),
    "register_value_modifier": ("ValuesManager", "register_value_modifier"),
    "initializes_simulants": ("PopulationManager", "register_simulant_initializer"),
    "get_simulant_creator": ("PopulationManager", "get_simulant_creator"),
    "get_stream": ("RandomnessManager", "get_randomness_stream"),
    "build_table": ("LookupTableManager", "build_table"),
    "register_simulants": ("RandomnessManager", "register_simulants"),
    "get_view": ("PopulationManager", "get_view"),
    "get_emitter": ("EventManager", "get_emitter"),
    "get_seed": ("RandomnessManager", "get_seed"),
    "get_component": ("ComponentManager", "get_component"),
    "list_components": ("ComponentManager", "list_components"),
    "get_components_by_type": ("ComponentManager", "get_components_by_type"),
    "data_load": ("ArtifactManager", "load"),
}
IFACE_SVC = {"register_listener": 1, "register_value_producer": 2, "register_value_modifier": 3,
             "initializes_simulants": 4, "get_simulant_creator": 5, "get_stream": 6, "build_table": 7,
             "register_simulants": 16}

# call labels of a probe, in the order they are issued inside one hook (updates first: in population_creation they create
# the columns the reads need)
CALLS = ["view.update/attr", "view.update/bound", "sub.update/attr", "sub.update/bound",
         "register_listener", "register_value_producer", "register_value_modifier", "initializes_simulants",
         "get_simulant_creator", "get_stream", "build_table", "register_simulants",
         "view.get/attr", "view.get/bound", "pipe/own", "pipe/early", "get_draw/attr", "get_draw/bound",
         "filter_for_probability/attr", "filter_for_probability/bound", "filter_for_rate/attr", "filter_for_rate/bound",
         "choice/attr", "choice/bound", "table/call", "table/bound", "sub.get/attr", "sub.get/bound",
         "get_view", "get_emitter", "get_seed", "get_component", "list_components", "get_components_by_type",
         "data_load"]
SUBVIEW_CALLS = {"sub.update/attr": 15, "sub.update/bound": 15, "sub.get/attr": 8, "sub.get/bound": 8}
CALL_SVC = {"view.update/attr": 15, "view.update/bound": 15, "view.get/attr": 8, "view.get/bound": 8, "pipe/own": 9,
            "pipe/early": 9, "get_draw/attr": 10, "get_draw/bound": 10, "filter_for_probability/attr": 11,
            "filter_for_probability/bound": 11, "filter_for_rate/attr": 12, "filter_for_rate/bound": 12,
            "choice/attr": 13, "choice/bound": 13, "table/call": 14, "table/bound": 14}
CALL_SVC.update(IFACE_SVC)
BASE_CALLS = list(CALLS)
VARIANT_SVC = {"view.update": 15, "view.get": 8, "pipe": 9, "get_draw": 10, "filter_for_probability": 11,
               "filter_for_rate": 12, "choice": 13, "table": 14}
# (view.update through a full view can never add a column, so during the initial creation - where every update must bring
# a new column - it fails by itself AFTER the guard let it through)
# likewise a second update of a column that an earlier call of the same hook has just created brings no new column)
STRICT_EXEMPT = {("view.update@" + v, "population_creation") for v in ("full", "twice1", "twice2", "after_sub", "narrow")}


EMIT_CHANNELS = ["post_setup", "time_step__prepare", "time_step", "time_step__cleanup", "collect_metrics",
                 "simulation_end", "report"]
OUTER_STATES = ["post_setup", "population_creation", "collect_metrics", "simulation_end", "report"]


CREATOR_STATES = ("time_step__prepare", "time_step", "time_step__cleanup", "collect_metrics")   # where initializers may write


def label_base(label):
    """`view.get` of `view.get@query+frame`: service part of a call label <service>[/how | @handle variant][+call variant]"""
    import re
    return re.split(r"[@/+]", label)[0]


def svc_of_label(label):
    """named service number of a call label (None: a service the property does not name)"""
    if label in CALL_SVC:
        return CALL_SVC[label]
    if label in SUBVIEW_CALLS:
        return None
    if "@" in label or "+" in label:
        return VARIANT_SVC.get(label_base(label))
    return None


# the update calls that create their column during the initial creation; every other update call of that hook brings no new
# column and is refused by the view itself AFTER the guard
COLUMN_CREATORS = {"view.update/attr", "view.update/bound", "view.update@str", "view.update@query"}


def strict_exempt(label, state):
    return state == "population_creation" and label_base(label) == "view.update" and label not in COLUMN_CREATORS


_VARIANTS = {}


def variants():
    """The ways a handle of each per-object service can be obtained through the public builder API of THIS source tree
    (read off the interface classes, so that a new keyword or helper shows up as a new variant)."""
    if not _VARIANTS:
        import inspect
        from vivarium import Component
        from vivarium.framework.randomness.manager import RandomnessInterface
        from vivarium.framework.values import ValuesInterface
        params = list(inspect.signature(RandomnessInterface.get_stream).parameters)
        streams = []
        if "initializes_crn_attributes" in params:
            streams.append("crn")
        if "component" in params:
            streams.append("component")
        # ... and HISTORIES of requests (a handle must be guarded whatever was requested before): the same request twice,
        # a view over the columns (and effective query) of an earlier SUB-view, a narrower view after a wider one, a second
        # stream, get_value twice after the producer, two tables built from equal data
        streams.append("second")
        pipes = ["late", "late2", "union"] + (["rate"] if hasattr(ValuesInterface, "register_rate_producer") else [])
        tables = ["cat", "interp", "multi", "equal1", "equal2"] + (["comp"] if hasattr(Component, "build_lookup_table") else [])
        from vivarium.framework.randomness.stream import RandomnessStream
        _VARIANTS.update(streams=streams, views=["str", "full", "query", "twice1", "twice2", "after_sub", "narrow"],
                         pipes=pipes, tables=tables, sample=hasattr(RandomnessStream, "sample_from_distribution"))
    return _VARIANTS


def call_labels():
    v = variants()
    updates = [f"view.update@{x}" for x in v["views"]]
    rest = [f"view.get@{x}" for x in v["views"]] + [f"pipe@{x}" for x in v["pipes"]]
    for x in v["streams"]:
        rest += [f"get_draw@{x}", f"filter_for_probability@{x}", f"filter_for_rate@{x}", f"choice@{x}"]
    rest += [f"table@{x}" for x in v["tables"]]
    # CALL VARIANTS of every handle: each public way of calling it must meet the guard
    updates += ["view.update/attr+series"] + [f"view.update@{x}+frame" for x in v["views"]]
    rest += ["view.get/attr+query"] + [f"view.get@{x}+query" for x in v["views"]]
    rest += ["pipe/own+skip", "pipe@union+kw", "pipe/early+skip"] + [f"pipe@{x}+skip" for x in v["pipes"]]
    for sfx in ["/attr"] + [f"@{x}" for x in v["streams"]]:
        rest += [f"get_draw{sfx}+key", f"filter_for_probability{sfx}+key", f"filter_for_rate{sfx}+key", f"choice{sfx}+p"]
        if v["sample"]:
            rest.append(f"get_draw{sfx}+sample")          # sample_from_distribution reaches the guard of get_draw
    rest += [f"table@{x}+call" for x in v["tables"]]
    rest += ["creator", "creator+config"]
    return BASE_CALLS[:4] + updates + BASE_CALLS[4:] + rest


def make_classes():
    import pandas as pd
    from vivarium import Component

    class Helper:
        def __init__(self, name):
            self.name = name

        def init(self, pop_data):
            pass

    class Filler(Component):
        """An ordinary component between the probes: uses a few services itself."""

        def __init__(self, tag):
            super().__init__()
            self.tag = tag

        @property
        def columns_created(self):
            return [f"filler_{self.tag}"]

        def setup(self, builder):
            self.stream = builder.randomness.get_stream(f"filler_stream_{self.tag}")
            self.value = builder.value.register_value_producer(f"filler_value_{self.tag}",
                                                               source=lambda idx: pd.Series(2.0, index=idx))

        def on_initialize_simulants(self, pop_data):
            self.population_view.update(pd.Series(0.0, index=pop_data.index, name=f"filler_{self.tag}"))

        def on_time_step(self, event):
            self.value(event.index)
            self.stream.get_draw(event.index)

    class Probe(Component):
        """Obtains every kind of service handle in `setup` and calls them from every hook according to `plan`.

        plan(state, visit, label) -> bool : issue this call now?   (the matrix context: always True)
        """

        def __init__(self, tag, n_probes, rec, plan, use_subviews=True):
            super().__init__()
            self.tag, self.n_probes, self.rec, self.plan, self.use_subviews = tag, n_probes, rec, plan, use_subviews
            self.log = []           # (state, visit, label, code, error repr, m, note)
            self.visits = {}
            self.counter = 0
            self.sim = None
            self.peers = []
            self.in_creator = False

        def get_initialization_parameters(self):
            return {"tag": self.tag}

        @property
        def columns_created(self):
            return [f"c07_{self.tag}_{x}" for x in ("abcdegk" if self.use_subviews else "abegk")]

        def col(self, x):
            return f"c07_{self.tag}_{x}"

        # ---- setup: obtain the handles (this probe's "age" = where it stands in the component list) ----
        def setup(self, builder):
            rec, t = self.rec, self.tag
            self.b = builder
            self.state = builder.lifecycle.current_state()
            cols = self.columns_created
            self.stored = {                       # interface methods stored early
                "register_listener": builder.event.register_listener,
                "register_value_producer": builder.value.register_value_producer,
                "register_value_modifier": builder.value.register_value_modifier,
                "initializes_simulants": builder.population.initializes_simulants,
                "get_simulant_creator": builder.population.get_simulant_creator,
                "get_stream": builder.randomness.get_stream,
                "build_table": builder.lookup.build_table,
                "register_simulants": builder.randomness.register_simulants,
                "get_view": builder.population.get_view,
                "get_emitter": builder.event.get_emitter,
                "get_seed": builder.randomness.get_seed,
                "get_component": builder.components.get_component,
                "list_components": builder.components.list_components,
                "get_components_by_type": builder.components.get_components_by_type,
                "data_load": builder.data.load,
            }
            # a pipeline handle obtained BEFORE its producer is registered (by the next probe, cyclically)
            self.early_pipe = builder.value.get_value(f"c07_val_{(t + 1) % self.n_probes}")
            self.view = builder.population.get_view([c for c in cols if c[-1] in "abcdk"])
            self.pipe = builder.value.register_value_producer(f"c07_val_{t}", source=self.source)
            self.creator = builder.population.get_simulant_creator()
            self.setup_variants(builder)
            self.stream = builder.randomness.get_stream(f"c07_stream_{t}")
            self.table = builder.lookup.build_table(5)
            self.objs = {"view": self.view, "stream": self.stream, "table": self.table}
            self.bound = {}
            for label, obj, name in [("view.update/bound", self.view, "update"), ("view.get/bound", self.view, "get"),
                                     ("get_draw/bound", self.stream, "get_draw"),
                                     ("filter_for_probability/bound", self.stream, "filter_for_probability"),
                                     ("filter_for_rate/bound", self.stream, "filter_for_rate"),
                                     ("choice/bound", self.stream, "choice"), ("table/bound", self.table, "call")]:
                self.bound[label] = rec.capture(obj, name)
            self.sub = None
            if self.use_subviews:
                self.sub = self.view.subview([self.col("c"), self.col("d")])
                self.bound["sub.update/bound"] = rec.capture(self.sub, "update")
                self.bound["sub.get/bound"] = rec.capture(self.sub, "get")
            builder.event.register_listener("report", self.on_report)
            self.hook("setup", None)

        def source(self, index):
            return pd.Series(1.0, index=index)

        def list_source(self, index):
            return [pd.Series(0.25, index=index)]

        def setup_variants(self, builder):
            """every other way of obtaining a per-object service handle through the public builder API"""
            from vivarium.framework.values import list_combiner, union_post_processor
            t, v = self.tag, variants()
            self.vstreams, self.vviews, self.vpipes, self.vtables, self.emitters = {}, {}, {}, {}, {}
            if "crn" in v["streams"]:
                self.vstreams["crn"] = builder.randomness.get_stream(f"c07_stream_crn_{t}", initializes_crn_attributes=True)
            if "component" in v["streams"]:
                self.vstreams["component"] = builder.randomness.get_stream(f"c07_stream_comp_{t}", component=self)
            self.vviews["str"] = builder.population.get_view(self.col("e"))
            self.vviews["full"] = builder.population.get_view([])
            self.vviews["query"] = builder.population.get_view([self.col("g")], query=f"{self.col('g')} >= 0")
            # histories: the same request twice; the columns and effective query of the sub-view obtained EARLIER (the
            # sub-view itself stays F-H; the view returned by get_view must be guarded whatever exists already); a narrower
            # view after the wide one
            self.vviews["twice1"] = builder.population.get_view([self.col("e")])
            self.vviews["twice2"] = builder.population.get_view([self.col("e")])
            if self.use_subviews:
                self.early_sub = self.view.subview([self.col("c"), self.col("d")])      # requested first ...
                self.vviews["after_sub"] = builder.population.get_view([self.col("c"), self.col("d")])   # ... then this
            self.vviews["narrow"] = builder.population.get_view([self.col("a"), self.col("b")])
            self.vview_col = {"str": self.col("e"), "full": self.col("a"), "query": self.col("g"), "twice1": self.col("e"),
                              "twice2": self.col("e"), "after_sub": self.col("c"), "narrow": self.col("b")}
            self.vstreams["second"] = builder.randomness.get_stream(f"c07_stream_second_{t}")
            self.vpipes["late"] = builder.value.get_value(f"c07_val_{t}")          # requested AFTER the producer
            self.vpipes["late2"] = builder.value.get_value(f"c07_val_{t}")         # ... and once more
            self.vpipes["union"] = builder.value.register_value_producer(
                f"c07_union_{t}", source=self.list_source, preferred_combiner=list_combiner,
                preferred_post_processor=union_post_processor)
            if "rate" in v["pipes"]:
                self.vpipes["rate"] = builder.value.register_rate_producer(f"c07_rate_{t}", source=self.source)
            k, a = self.col("k"), self.col("a")
            self.vtables["cat"] = builder.lookup.build_table(
                pd.DataFrame({k: ["x", "y"], "value": [1.0, 2.0]}), key_columns=[k], parameter_columns=[],
                value_columns=["value"])
            self.vtables["interp"] = builder.lookup.build_table(
                pd.DataFrame({f"{a}_start": [0.0, 5.0], f"{a}_end": [5.0, 10.0], "value": [1.0, 2.0]}), key_columns=[],
                parameter_columns=[a], value_columns=["value"])
            self.vtables["multi"] = builder.lookup.build_table([1, 2], value_columns=["p", "q"])
            self.vtables["equal1"] = builder.lookup.build_table(11)             # two tables from equal data
            self.vtables["equal2"] = builder.lookup.build_table(11)
            if "comp" in v["tables"]:
                self.vtables["comp"] = self.build_lookup_table(builder, 3)
            for ch in ("post_setup", "time_step__prepare", "time_step", "time_step__cleanup", "collect_metrics",
                       "simulation_end", "report"):
                try:
                    self.emitters[ch] = builder.event.get_emitter(ch)
                except Exception:
                    pass

        def handles(self):
            """(description, service number or 0, key of the method that must carry the guard) of every handle obtained"""
            out = []

            def meth(desc, svc, obj, name):
                out.append((desc, svc, self.rec.method_id(obj, name)))

            def whole(desc, svc, obj):
                m = self.constrained_method_of(obj)
                out.append((desc, svc, m if m is not None else self.rec.method_id(obj, "<call: unconstrained>")))
            t = self.tag
            for vn, vw in [("list", self.view)] + sorted(self.vviews.items()):
                meth(f"probe {t}: view[{vn}].get", 8, vw, "get")
                meth(f"probe {t}: view[{vn}].update", 15, vw, "update")
            for vn, st_ in [("default", self.stream)] + sorted(self.vstreams.items()):
                for i, name in enumerate(["get_draw", "filter_for_probability", "filter_for_rate", "choice"]):
                    meth(f"probe {t}: stream[{vn}].{name}", 10 + i, st_, name)
            for vn, pp in [("producer", self.pipe), ("early get_value", self.early_pipe)] + sorted(self.vpipes.items()):
                whole(f"probe {t}: pipeline[{vn}]", 9, pp)
            for vn, tb in [("scalar", self.table)] + sorted(self.vtables.items()):
                whole(f"probe {t}: lookup table[{vn}]", 14, tb)
            for ch, em in sorted(self.emitters.items()):
                if hasattr(em, "__self__"):
                    meth(f"emitter[{ch}]", 0, em.__self__, em.__name__)
            return out

        # ---- the calls ----
        def thunks(self, idx):
            b, t, st = self.b, self.tag, self.stored
            self.counter += 1
            n = self.counter
            cols = self.columns_created
            pm = lambda obj, name: self.rec.method_id(obj, name)

            def upd(col):
                return pd.Series(1.0, index=idx, name=col)

            def mgr_m(label):
                return self.rec_manager_method(label)
            d = {
                "view.update/attr": ("attr", (self.view, "update"), lambda: self.view.update(
                    pd.DataFrame({self.col("a"): 1.0, self.col("k"): "x"}, index=idx))),
                "view.update/bound": ("handle", "view.update/bound",
                                      lambda: self.bound["view.update/bound"][0](upd(self.col("b")))),
                "register_listener": ("iface", None, lambda: st["register_listener"]("time_step", _noop_listener, 5)),
                "register_value_producer": ("iface", None, lambda: st["register_value_producer"](
                    f"c07_extra_{t}_{n}", source=self.source)),
                "register_value_modifier": ("iface", None, lambda: st["register_value_modifier"](
                    f"c07_val_{t}", _identity_modifier)),
                "initializes_simulants": ("iface", None, lambda: st["initializes_simulants"](Helper(f"c07_h_{t}_{n}").init)),
                "get_simulant_creator": ("iface", None, lambda: st["get_simulant_creator"]()),
                "get_stream": ("iface", None, lambda: st["get_stream"](f"c07_extra_stream_{t}_{n}")),
                "build_table": ("iface", None, lambda: st["build_table"](7)),
                "register_simulants": ("iface", None, lambda: st["register_simulants"](pd.DataFrame(index=idx))),
                "view.get/attr": ("attr", (self.view, "get"), lambda: self.view.get(idx)),
                "view.get/bound": ("handle", "view.get/bound", lambda: self.bound["view.get/bound"][0](idx)),
                "pipe/own": ("pipe", self.pipe, lambda: self.pipe(idx)),
                "pipe/early": ("pipe", self.early_pipe, lambda: self.early_pipe(idx)),
                "get_draw/attr": ("attr", (self.stream, "get_draw"), lambda: self.stream.get_draw(idx)),
                "get_draw/bound": ("handle", "get_draw/bound", lambda: self.bound["get_draw/bound"][0](idx)),
                "filter_for_probability/attr": ("attr", (self.stream, "filter_for_probability"),
                                                lambda: self.stream.filter_for_probability(idx, 0.5)),
                "filter_for_probability/bound": ("handle", "filter_for_probability/bound",
                                                 lambda: self.bound["filter_for_probability/bound"][0](idx, 0.5)),
                "filter_for_rate/attr": ("attr", (self.stream, "filter_for_rate"),
                                         lambda: self.stream.filter_for_rate(idx, 0.5)),
                "filter_for_rate/bound": ("handle", "filter_for_rate/bound",
                                          lambda: self.bound["filter_for_rate/bound"][0](idx, 0.5)),
                "choice/attr": ("attr", (self.stream, "choice"), lambda: self.stream.choice(idx, [1, 2])),
                "choice/bound": ("handle", "choice/bound", lambda: self.bound["choice/bound"][0](idx, [1, 2])),
                "table/call": ("table", self.table, lambda: self.table(idx)),
                "table/bound": ("handle", "table/bound", lambda: self.bound["table/bound"][0](idx)),
                "get_view": ("iface", None, lambda: st["get_view"]([self.col("a")])),
                "get_emitter": ("iface", None, lambda: st["get_emitter"]("time_step")),
                "get_seed": ("iface", None, lambda: st["get_seed"]("c07")),
                "get_component": ("iface", None, lambda: st["get_component"](self.name)),
                "list_components": ("iface", None, lambda: st["list_components"]()),
                "get_components_by_type": ("iface", None, lambda: st["get_components_by_type"](Probe)),
                "data_load": ("iface", None, lambda: st["data_load"]("c07.no.such_key")),
            }
            for vn, vw in self.vviews.items():
                d[f"view.update@{vn}"] = ("attr", (vw, "update"),
                                          (lambda vw=vw, c=self.vview_col[vn]: vw.update(upd(c))))
                d[f"view.get@{vn}"] = ("attr", (vw, "get"), (lambda vw=vw: vw.get(idx)))
            for vn, pp in self.vpipes.items():
                d[f"pipe@{vn}"] = ("pipe", pp, (lambda pp=pp: pp(idx)))
            for vn, s_ in self.vstreams.items():
                d[f"get_draw@{vn}"] = ("attr", (s_, "get_draw"), (lambda s_=s_: s_.get_draw(idx)))
                d[f"filter_for_probability@{vn}"] = ("attr", (s_, "filter_for_probability"),
                                                     (lambda s_=s_: s_.filter_for_probability(idx, 0.5)))
                d[f"filter_for_rate@{vn}"] = ("attr", (s_, "filter_for_rate"), (lambda s_=s_: s_.filter_for_rate(idx, 0.5)))
                d[f"choice@{vn}"] = ("attr", (s_, "choice"), (lambda s_=s_: s_.choice(idx, [1, 2])))
            for vn, tb in self.vtables.items():
                d[f"table@{vn}"] = ("table", tb, (lambda tb=tb: tb(idx)))
            # ---- call variants ----
            def frame(c):
                return pd.DataFrame({c: 1.0}, index=idx)
            d["view.update/attr+series"] = ("attr", (self.view, "update"), lambda: self.view.update(upd(self.col("a"))))
            d["view.get/attr+query"] = ("attr", (self.view, "get"), lambda: self.view.get(idx, query=f"{self.col('a')} >= 0"))
            for vn, vw in self.vviews.items():
                c = self.vview_col[vn]
                d[f"view.update@{vn}+frame"] = ("attr", (vw, "update"), (lambda vw=vw, c=c: vw.update(frame(c))))
                d[f"view.get@{vn}+query"] = ("attr", (vw, "get"), (lambda vw=vw, c=c: vw.get(idx, query=f"{c} >= 0")))
            d["pipe/own+skip"] = ("pipe", self.pipe, lambda: self.pipe(idx, skip_post_processor=True))
            d["pipe@union+kw"] = ("pipe", self.vpipes["union"], lambda: self.vpipes["union"](index=idx))   # no modifiers
            d["pipe/early+skip"] = ("pipe", self.early_pipe, lambda: self.early_pipe(idx, skip_post_processor=True))
            for vn, pp in self.vpipes.items():
                d[f"pipe@{vn}+skip"] = ("pipe", pp, (lambda pp=pp: pp(idx, skip_post_processor=True)))
            for sfx, s_ in [("/attr", self.stream)] + [(f"@{vn}", x) for vn, x in self.vstreams.items()]:
                d[f"get_draw{sfx}+key"] = ("attr", (s_, "get_draw"), (lambda s_=s_: s_.get_draw(idx, additional_key="k")))
                d[f"filter_for_probability{sfx}+key"] = ("attr", (s_, "filter_for_probability"),
                                                         (lambda s_=s_: s_.filter_for_probability(idx, 0.5, additional_key="k")))
                d[f"filter_for_rate{sfx}+key"] = ("attr", (s_, "filter_for_rate"),
                                                  (lambda s_=s_: s_.filter_for_rate(idx, 0.5, additional_key="k")))
                d[f"choice{sfx}+p"] = ("attr", (s_, "choice"), (lambda s_=s_: s_.choice(idx, [1, 2], p=[0.25, 0.75])))
                if hasattr(s_, "sample_from_distribution"):
                    d[f"get_draw{sfx}+sample"] = ("attr", (s_, "get_draw"),
                                                  (lambda s_=s_: s_.sample_from_distribution(idx, ppf=lambda q: q)))
            for vn, tb in self.vtables.items():
                d[f"table@{vn}+call"] = ("attr", (tb, "call"), (lambda tb=tb: tb.call(idx)))

            def create(**kw):
                self.in_creator = True
                try:
                    return self.creator(0, **kw)
                finally:
                    self.in_creator = False
            d["creator"] = ("function", self.creator, lambda: create())
            d["creator+config"] = ("function", self.creator, lambda: create(population_configuration={"c07": 1}))
            if self.sub is not None:
                d["sub.update/attr"] = ("attr", (self.sub, "update"), lambda: self.sub.update(upd(self.col("c"))))
                d["sub.update/bound"] = ("handle", "sub.update/bound",
                                         lambda: self.bound["sub.update/bound"][0](upd(self.col("d"))))
                d["sub.get/attr"] = ("attr", (self.sub, "get"), lambda: self.sub.get(idx))
                d["sub.get/bound"] = ("handle", "sub.get/bound", lambda: self.bound["sub.get/bound"][0](idx))
            return d

        def constrained_method_of(self, obj):
            """The (single) constrained method of a Pipeline / LookupTable object, found among the recorded constraints."""
            for m, att in self.rec.constrained.items():
                if self.rec.info[m][0] is obj:
                    return m
            return None

        def manager_method(self, label):
            owner, name = IFACE[label]
            for m, att in self.rec.constrained.items():
                if att["owner"] == owner and att["name"] == name:
                    return m
            # never constrained: intern a method of its own (no guard in the model)
            return self.rec.method_id(_Unconstrained.get(owner), name)

        def hook(self, state_hint, index):
            state = self.state()
            v = self.visits.get(state, 0)
            self.visits[state] = v + 1
            idx = index if index is not None else pd.Index([], dtype="int64")
            th = self.thunks(idx)
            for label in call_labels():
                if label not in th:
                    continue
                if label_base(label) == "creator" and state not in CREATOR_STATES:
                    continue      # creating (zero) simulants before / inside the initial creation would derail the run
                forced = state == "population_creation" and label_base(label) in ("view.update", "sub.update")
                if not (forced or self.plan(self.tag, state, v, label)):
                    continue
                how, ref, thunk = th[label]
                note = None
                code, err = call_code(thunk)
                if how == "attr":
                    m = self.rec.method_id(*ref)
                    self.rec.called("attr", m, code, {"label": label, "state": state, "probe": self.tag})
                elif how == "handle":
                    k = self.bound[ref][1]
                    m = self.rec.method_id(*_handle_target(self, ref))
                    self.rec.called("handle", k, code, {"label": label, "state": state, "probe": self.tag})
                elif how == "function":
                    m = (self.rec.method_id(ref.__self__, ref.__name__) if hasattr(ref, "__self__")
                         else self.rec.function_id(ref))
                    self.rec.called("attr", m, code, {"label": label, "state": state, "probe": self.tag})
                elif how in ("pipe", "table"):
                    m = self.constrained_method_of(ref)
                    if m is None:
                        m = self.rec.method_id(ref, "__call__<unconstrained>")
                        if how == "pipe" and not getattr(ref, "source", None):
                            note = "unsourced"      # get_value handle whose producer is not registered yet
                    self.rec.called("attr", m, code, {"label": label, "state": state, "probe": self.tag})
                else:
                    m = self.manager_method(label)
                    self.rec.called("attr", m, code, {"label": label, "state": state, "probe": self.tag})
                self.log.append((state, v, label, code, repr(err)[:160] if err is not None else None, m, note))

        def outer_emit(self):
            """called by the harness BETWEEN context calls (outside the engine): every emitter obtained in setup is called
            in the current outer state; only the emitter of the state's own event may pass (it re-runs the listeners)."""
            state = self.state()
            v = self.visits.get(("outer", state), 0)
            self.visits[("outer", state)] = v + 1
            for ch, em in sorted(self.emitters.items()):
                idx = None if state in ("setup", "post_setup") else pd.Index([0, 1, 2])
                code, err = call_code(lambda: em(idx))
                m = self.rec.method_id(em.__self__, em.__name__) if hasattr(em, "__self__") else self.rec.function_id(em)
                self.rec.called("attr", m, code, {"label": f"emit@{ch}", "state": state, "probe": self.tag})
                self.log.append((state, v, f"emit@{ch}", code, repr(err)[:160] if err is not None else None, m, None))

        def on_post_setup(self, event):
            self.hook("post_setup", None)

        def on_initialize_simulants(self, pop_data):
            if getattr(self, "in_creator", False) or any(getattr(p, "in_creator", False) for p in self.peers):
                return          # a probe's own creator(0) call: no simulant is created, nothing to probe
            self.hook("population_creation", pop_data.index)

        def on_time_step_prepare(self, event):
            self.hook("time_step__prepare", event.index)

        def on_time_step(self, event):
            self.hook("time_step", event.index)

        def on_time_step_cleanup(self, event):
            self.hook("time_step__cleanup", event.index)

        def on_collect_metrics(self, event):
            self.hook("collect_metrics", event.index)

        def on_simulation_end(self, event):
            self.hook("simulation_end", event.index)

        def on_report(self, event):
            self.hook("report", event.index)

    return Probe, Filler


class MakerTap:
    """Observe the permitted list handed to ConstraintMaker.__call__ (read defensively; `seen` stays None if the class
    cannot be wrapped)."""

    def __init__(self):
        self.seen = None
        self.saved = None

    def __enter__(self):
        try:
            from vivarium.framework import lifecycle as L
            mk = L.ConstraintMaker
            orig = mk.__dict__["__call__"]
            tap = self

            def maker_call(maker, *args, **kwargs):
                tap.seen = _state_list_of(args, kwargs)
                return orig(maker, *args, **kwargs)

            mk.__call__ = maker_call
            self.saved = (mk, orig)
        except Exception:
            self.saved = None
        return self

    def __exit__(self, *a):
        if self.saved:
            self.saved[0].__call__ = self.saved[1]


class _Unconstrained:
    _objs = {}

    @classmethod
    def get(cls, owner):
        if owner not in cls._objs:
            o = type("Unconstrained" + owner, (), {})()
            o.name = "unconstrained_" + owner
            cls._objs[owner] = o
        return cls._objs[owner]


def _handle_target(probe, ref):
    base, _ = ref.split("/")
    obj = {"view.update": (probe.view, "update"), "view.get": (probe.view, "get"), "get_draw": (probe.stream, "get_draw"),
           "filter_for_probability": (probe.stream, "filter_for_probability"),
           "filter_for_rate": (probe.stream, "filter_for_rate"), "choice": (probe.stream, "choice"),
           "table": (probe.table, "call"), "sub.update": (probe.sub, "update"), "sub.get": (probe.sub, "get")}[base]
    return obj


def _noop_listener(event):
    pass


def _identity_modifier(index, value):
    return value


def config(days):
    return {"population": {"population_size": 3},
            "time": {"start": {"year": 2005, "month": 7, "day": 1}, "end": {"year": 2005, "month": 7, "day": 1 + days},
                     "step_size": 1}}


def run_program(n_probes, layout, plan, interactive=False, days=2, use_subviews=True, outer_emits=False):
    """Build and run a real context to the end under a Recorder.  layout: list of 'p' / 'f' (probe / filler)."""
    from vivarium.framework.engine import SimulationContext
    from vivarium.interface.interactive import InteractiveContext
    boot.reset_contexts()
    Probe, Filler = make_classes()
    rec = Recorder()
    probes, comps = [], []
    nf = 0
    for x in layout:
        if x == "p":
            p = Probe(len(probes), n_probes, rec, plan, use_subviews)
            probes.append(p)
            comps.append(p)
        else:
            comps.append(Filler(nf))
            nf += 1
    with rec:
        if interactive:
            sim = InteractiveContext(components=comps, configuration=config(days), setup=False, logging_verbosity=0)
        else:
            sim = SimulationContext(components=comps, configuration=config(days), logging_verbosity=0)
        boot.quiet_logging()
        for p in probes:
            p.sim = sim
            p.peers = probes
        err = None
        try:
            def outer():
                if outer_emits and probes:
                    probes[0].outer_emit()
            if interactive:
                sim.setup()
                outer()
                sim.run(with_logging=False)
            else:
                sim.setup()
                outer()
                sim.initialize_simulants()
                outer()
                sim.run()
            outer()
            sim.finalize()
            outer()
            sim.report(print_results=False)
            outer()
        except Exception as e:       # the enclosing legal run must not fail
            err = e
    return rec, probes, err


# ----------------------------------------------------------------------------------------------------------------
# the matrix context (generated table + exhaustive cells)
# ----------------------------------------------------------------------------------------------------------------
_MATRIX = {}


def matrix():
    if not _MATRIX:
        rec, probes, err = run_program(3, ["p", "f", "p", "f", "f", "p"], lambda tag, state, visit, label: True, days=2,
                                      outer_emits=True)
        _MATRIX.update(rec=rec, probes=probes, err=err)
    return _MATRIX


def table_rows(rec):
    """(key m, service number (0 = not a named service), permitted sids, attempt)"""
    rows = []
    for m, att in sorted(rec.constrained.items()):
        svc = att["svc"] if isinstance(att["svc"], int) else 0
        rows.append((m, svc, [sid(s) for s in att["permitted"]], att))
    return rows


def all_handles(mx):
    """every handle obtained by the probes of the matrix context, de-duplicated by (key, service)"""
    seen, out = set(), []
    for p in mx["probes"]:
        for desc, svc, m in p.handles():
            if (m, svc) not in seen:
                seen.add((m, svc))
                out.append((desc, svc, m))
    return out


def coq_table(rows):
    return clist("\n  " + cpair(cz(m), cz(svc), czlist(A)) + f"   (* {att['owner']}.{att['name']} guid {att['guid']} *)"
                 for m, svc, A, att in rows)


def tables(run):
    mx = matrix()
    rec = mx["rec"]
    if mx["err"] is not None:
        raise RuntimeError(f"the matrix context did not run to the end: {mx['err']!r}")
    if not rec.maker_wrapped:
        run.notes.append("ConstraintMaker.__call__ could not be wrapped: permitted lists recomputed from the arguments")
    rows = table_rows(rec)
    states = rec.all_states(rec.mgr)
    installs = []
    for att in rec.attempts:
        if att["code"] not in (0, 2, 3):
            continue        # refused by the constraint maker (e.g. an emitter requested twice): not decided by `permitted`;
                            # those attempts are replayed through the full model by the `real` stream
        installs.append(cpair(czlist(sid(s) for s in att["states"]), czlist(sid(s) for s in att["allow"]),
                              czlist(sid(s) for s in att["restrict"]), cz(att["code"]),
                              czlist(sid(s) for s in att["permitted"])))
    others = sorted({f"{att['owner']}.{att['name']}: allow={att['allow']} restrict={att['restrict']}"
                     for att in rec.attempts if not isinstance(att["svc"], int) and att["code"] == 0})
    run.notes.append("services extracted but not constrained by the property: " + "; ".join(others))
    try:
        from vivarium.framework.resource import ResourceInterface
        from vivarium.framework.results.interface import ResultsInterface
        pub = [f"builder.results.{n}" for n in dir(ResultsInterface) if n.startswith("register_")]
        pub += [f"builder.resources.{n}" for n in dir(ResourceInterface) if not n.startswith("_") and n != "name"]
        owners = {att["owner"] for att in rec.attempts}
        run.notes.append("registration methods the property does not name and the code does not constrain (no add_constraint "
                         "by ResultsManager/ResourceManager: " + str(not ({"ResultsManager", "ResourceManager"} & owners)) +
                         "): " + ", ".join(pub))
    except Exception:
        pass
    lines = ["(* GENERATED on every run by harness/props/c07.py from the live code - do not edit *)",
             "From Viv Require Import Common Lifecycle LifecycleProofs Constraints ConstraintsProofs.",
             "Local Open Scope Z_scope.", "",
             "(* the states of the life cycle of a real SimulationContext (as declared through add_phase) *)",
             "Definition engine_states : list sid := " + czlist(sid(s) for s in states) + ".",
             "(* every accepted add_constraint of the matrix context: (method key, named service number or 0, permitted list",
             "   as handed to the constraint maker) *)",
             "Definition constraint_table : list row := " + coq_table(rows) + ".",
             "(* every add_constraint attempt: (state set, allow_during, restrict_during, outcome code, permitted list) *)",
             "Definition installs : list install_case := " + clist("\n  " + x for x in installs) + ".",
             "(* every handle the probes obtained through the public builder API, in every variant: (key of the method that",
             "   must carry the guard, service number; 0 = not a named service) *)",
             "Definition handles : list handle_entry := " +
             clist("\n  " + cpair(cz(m), cz(svc)) + f"   (* {desc} *)" for desc, svc, m in all_handles(mx) if svc) + ".",
             "(* handles of services the property does not name (emitters): listed, their missing rows shown, not required *)",
             "Definition other_handles : list handle_entry := " +
             clist(cpair(cz(m), cz(svc)) for desc, svc, m in all_handles(mx) if not svc) + ".",
             "Eval vm_compute in missing_handles constraint_table other_handles.", "",
             "Theorem C07_engine_states_documented : same_set engine_states documented_states = true.",
             "Proof. vm_compute. reflexivity. Qed.",
             "Eval vm_compute in failing_entries engine_states constraint_table.",
             "(* the matrix of the property: every constrained instance of a named service is permitted exactly where the",
             "   property says *)",
             "Theorem C07_matrix : matrix_okb engine_states constraint_table = true.",
             "Proof. vm_compute. reflexivity. Qed.",
             "Eval vm_compute in missing_services constraint_table.",
             "Eval vm_compute in missing_handles constraint_table handles.",
             "(* complete: every named service occurs, and EVERY obtained handle - whatever the variant - has its row *)",
             "Theorem C07_table_complete : complete_okb constraint_table && handles_okb constraint_table handles = true.",
             "Proof. vm_compute. reflexivity. Qed.",
             "Theorem C07_every_handle_guarded : forall key svc k, In (key, svc) handles -> kind_of svc = Some k ->",
             "  exists A, In (key, svc, A) constraint_table /\\ forall s, In s engine_states -> (In s A <-> spec k s = true).",
             "Proof.",
             "  apply every_handle_guarded; [exact C07_matrix|].",
             "  pose proof C07_table_complete as H. apply andb_true_iff in H. exact (proj2 H).",
             "Qed.",
             "(* what add_constraint installed is what the model's `permitted` computes from the recorded arguments *)",
             "Theorem C07_installed_as_modelled : forallb check_install installs = true.",
             "Proof. vm_compute. reflexivity. Qed.",
             "(* hence, for EVERY history: a named service whose wrapper holds a listed permitted list is available exactly",
             "   in the states the property names *)",
             "Theorem C07_named_services_all_histories : forall key svc A k, In (key, svc, A) constraint_table ->",
             "  kind_of svc = Some k -> forall w m, Inv w -> wrapper w m = Some A ->",
             "  forall post, In (cur (mgr (run w post))) engine_states ->",
             "    (call_attr (run w post) m = Ok tt <-> spec k (cur (mgr (run w post))) = true) /\\",
             "    (call_attr (run w post) m = Rejected EConstraint <-> spec k (cur (mgr (run w post))) = false).",
             "Proof. apply service_available_exactly. exact C07_matrix. Qed.",
             "Print Assumptions C07_matrix.", "Print Assumptions C07_table_complete.",
             "Print Assumptions C07_every_handle_guarded.",
             "Print Assumptions C07_installed_as_modelled.", "Print Assumptions C07_named_services_all_histories.", ""]
    return [("ConstraintTable_C07.v", "\n".join(lines))]


# ---- stream `matrix`: one (named service, state) entry of the generated table -------------------------------------
def all_matrix_entries():
    return [{"svc": svc, "state": s} for svc in range(1, 17) for s in STATES]


def run_matrix_entry(case):
    rec = matrix()["rec"]
    svc, state = case["svc"], case["state"]
    rows = [(m, A, att) for m, s, A, att in table_rows(rec) if s == svc]
    members = [r for r in rows if sid(state) in r[1]]
    want = spec(KIND[svc], state)
    ok, msg = True, ""
    if not rows:
        ok, msg = False, f"service {svc} ({SVC_NAME[svc]}) is not constrained at all in a context that uses it"
    for m, A, att in rows:
        if (sid(state) in A) != want:
            ok = False
            msg = (f"{att['owner']}.{att['name']} (service {svc}: {SVC_NAME[svc]}) is "
                   f"{'permitted' if sid(state) in A else 'refused'} in state {state}; the property says "
                   f"{'available' if want else 'refused'} (allow_during={att['allow']} restrict_during={att['restrict']})")
            break
    return Result(ok=ok, msg=msg, coq="(" + cpair(cz(svc), cz(sid(state)), cz(len(rows)), cz(len(members))) + " : matrix_entry)",
                  key=(svc, state), obs={"rows": len(rows), "permitted_in": len(members), "spec": want},
                  tags=(f"kind{KIND[svc]}",))


# ---- stream `handles`: every obtained handle (all variants) must carry its constraint -----------------------------
def all_handle_cases():
    return [{"n": i} for i in range(len(all_handles(matrix())))]


def run_handle(case):
    mx = matrix()
    hs = all_handles(mx)
    if case["n"] >= len(hs):
        return Result(ok=True, msg="no such handle in this source tree", coq=None)
    desc, svc, m = hs[case["n"]]
    att = mx["rec"].constrained.get(m)
    ok, msg = True, ""
    if att is None and not svc:
        pass            # a service the property does not name: recorded, not required
    elif att is None:
        ok = False
        msg = (f"{desc}: the handle was obtained through the builder API but its "
               f"{SVC_NAME.get(svc, 'service')} method was never constrained - it is available in every state")
    elif svc and att["svc"] != svc:
        ok, msg = False, f"{desc}: constrained as {att['svc']}, expected service {svc}"
    elif svc:
        for st in STATES:
            if (sid(st) in [sid(x) for x in att["permitted"]]) != spec(KIND[svc], st):
                ok, msg = False, f"{desc}: permitted list {att['permitted']} disagrees with the property in state {st}"
                break
    return Result(ok=ok, msg=msg, coq=("(" + cpair(cz(m), cz(svc)) + " : handle_entry)") if svc else None, key=(desc,),
                  obs={"handle": desc, "service": svc, "constrained": att is not None,
                       "permitted": att["permitted"] if att else None},
                  tags=(f"svc{svc}",))


# ---- stream `cells`: service handle x state x age ------------------------------------------------------------------
def all_cells():
    cells = [{"call": c, "state": s, "age": a} for c in call_labels() for s in RUN_STATES for a in range(3)
             if not (label_base(c) == "creator" and s not in CREATOR_STATES)]
    # the emitters (channel.emit), called from OUTSIDE the engine in every outer state
    cells += [{"call": f"emit@{ch}", "state": s, "age": 0} for ch in EMIT_CHANNELS for s in OUTER_STATES]
    return cells


def oracle_call(label, state, code, note=None):
    """The property statement on one call outcome.  -> (ok, msg, finding class)"""
    svc = svc_of_label(label) or SUBVIEW_CALLS.get(label)
    if svc is None:
        return True, "", None               # a service the property does not speak about
    want = spec(KIND[svc], state)
    sub = label in SUBVIEW_CALLS
    if note == "unsourced" and not want and code == 2:
        # a pipeline requested with get_value whose producer has not been registered yet: there is no service object to
        # guard yet, the call is refused by the pipeline itself (DynamicValueError); it is constrained from registration on
        return True, "", None
    if want and code == 1:
        return False, f"{label} ({SVC_NAME[svc]}) refused with a constraint error in {state}, where it must work", None
    if not want and code != 1:
        what = "returned normally" if code == 0 else "failed with another error (no constraint error)"
        cls = "F-H" if sub else None
        return False, f"{label} ({SVC_NAME[svc]}) {what} in {state}, where it must be refused with a constraint error", cls
    return True, "", None


def run_cell(case):
    mx = matrix()
    label, state, age = case["call"], case["state"], case["age"]
    if mx["err"] is not None:
        return Result(ok=False, msg=f"the matrix context did not run to the end: {mx['err']!r}")
    p = mx["probes"][age]
    idx = mx.setdefault("index", {})
    if age not in idx:                      # (state, label) -> visits, built once per probe
        d = {}
        for st, v, lab, code, err, m, note in p.log:
            d.setdefault((st, lab), []).append((v, code, err, m, note))
        idx[age] = d
    visits = idx[age].get((state, label), [])
    if not visits:
        return Result(ok=False, msg=f"harness: call {label} was never issued in state {state} by probe {age}")
    ok, msg, fclass = True, "", None
    named = svc_of_label(label) is not None and not strict_exempt(label, state)
    for v, code, err, m, note in visits:
        o, ms, fc = oracle_call(label, state, code, note)
        if not o:
            ok, msg, fclass = False, ms + (f" [{err}]" if err else ""), fc
            break
        if named and code == 2 and note != "unsourced":
            ok, msg = False, (f"{label} was let through in {state} but failed by itself: {err} (the service does not "
                              f"work there, or the probe call is malformed)")
            break
    cells = clist(cpair(cz(m), cz(sid(state)), cz(code)) for v, code, err, m, note in visits)
    codes = [code for v, code, err, m, note in visits]
    return Result(ok=ok, msg=msg, coq=f"({cells} : list cell)", key=(label, state, age),
                  obs={"codes": codes, "errors": [e for _, _, e, _, _ in visits if e][:2], "finding_class": fclass},
                  tags=tuple({f"code{c}" for c in codes}) + (f"visits{len(visits)}",))


def finding_cells(case, res):
    if case["call"] in SUBVIEW_CALLS and isinstance(res.obs, dict) and res.obs.get("finding_class") == "F-H":
        return "F-H"
    return None


# ---- stream `real`: complete recorded histories of random real contexts ---------------------------------------------
def gen_real(rng: random.Random):
    n = rng.choice([1, 2, 2, 3])
    layout = ["p"] * n + ["f"] * rng.randint(0, 3)
    rng.shuffle(layout)
    return {"seed": rng.getrandbits(32), "layout": layout, "interactive": rng.random() < 0.3,
            "days": rng.choice([1, 1, 2, 3]), "density": rng.choice([0.2, 0.5, 0.8, 1.0]),
            "subviews": rng.random() < 0.3, "outer_emits": rng.random() < 0.4}


def run_real(case):
    prng = random.Random(case["seed"])
    dens = case["density"]
    decided = {}

    def plan(tag, state, visit, label):
        k = (tag, state, visit, label)
        if k not in decided:
            decided[k] = prng.random() < dens
        return decided[k]
    n = case["layout"].count("p")
    rec, probes, err = run_program(n, case["layout"], plan, case["interactive"], case["days"], case["subviews"],
                                   outer_emits=bool(case.get("outer_emits")))
    ok, msg = True, ""
    fclasses = set()
    ncalls = 0
    tags = set()
    for p in probes:
        for st, v, label, code, e, m, note in p.log:
            ncalls += 1
            tags.add(f"call_code{code}")
            o, ms, fc = oracle_call(label, st, code, note)
            if not o:
                fclasses.add(fc)
                if ok or fc is None:
                    ok, msg = False, ms + (f" [{e}]" if e else "")
    if err is not None:
        ok, msg = False, f"the enclosing legal run failed: {err!r}"
        fclasses.add(None)
    for att in rec.attempts:
        tags.add(f"constrain_code{att['code']}")
    tags.add(f"probes{n}")
    tags.add("interactive" if case["interactive"] else "simulation")
    coq = "(" + cpair(rec.coq_registry(), rec.coq_history()) + " : hist_case)"
    return Result(ok=ok, msg=msg, coq=coq, key=(case["seed"], tuple(case["layout"]), case["interactive"], case["days"])
                  if ncalls else None,
                  obs={"events": len(rec.events), "calls": ncalls, "constraints": len(rec.attempts),
                       "finding_classes": sorted(str(x) for x in fclasses)},
                  tags=tuple(tags))


def finding_real(case, res):
    if isinstance(res.obs, dict) and res.obs.get("finding_classes") == ["F-H"]:
        return "F-H"
    return None


# ---- stream `hist`: stand-alone managers, toy objects ------------------------------------------------------------
def gen_hist(rng: random.Random):
    pool = list(range(1, 12))
    rng.shuffle(pool)
    phases = []
    k = 0
    for i in range(rng.randint(1, 4)):
        n = rng.randint(1, 3)
        phases.append([i + 1, pool[k:k + n], rng.random() < 0.4])
        k += n
    nobj = rng.randint(1, 4)
    objs = [rng.choice(["a", "a", "b", "c"]) for _ in range(nobj)]       # names (sharing = same guid)
    flat = [0] + [s for _, sts, _ in phases for s in sts]
    events = []
    n_initial = rng.randint(1, len(phases))
    for ph in phases[:n_initial]:
        events.append(["phase"] + ph)
    later = phases[n_initial:]
    cur_known = [0] + [s for _, sts, _ in phases[:n_initial] for s in sts]
    ncapt = 0
    for _ in range(rng.randint(5, 60)):
        r = rng.random()
        if r < 0.25:
            # a move: mostly the legal successor
            if rng.random() < 0.75:
                events.append(["move", "next"])
            else:
                events.append(["move", rng.choice(flat + [99])])
        elif r < 0.30 and later:
            ph = later.pop(0)
            events.append(["phase"] + ph)
            cur_known += ph[1]
        elif r < 0.33:
            events.append(["phase", rng.randint(1, 5), [rng.choice(pool)] * rng.randint(0, 2), False])   # mostly invalid
        elif r < 0.50:
            o = nobj if rng.random() < 0.07 else rng.randrange(nobj)            # index nobj = a plain function
            meth = "__dunder__" if rng.random() < 0.06 else rng.choice(["alpha", "alpha", "beta"])
            mode = rng.random()
            pick = lambda: rng.sample(cur_known, rng.randint(1, max(1, min(3, len(cur_known)))))
            if mode < 0.42:
                al, re_ = pick(), []
            elif mode < 0.84:
                al, re_ = [], pick()
            elif mode < 0.88:
                al, re_ = pick(), pick()
            elif mode < 0.92:
                al, re_ = [], []
            elif mode < 0.96:
                al, re_ = pick() + [rng.choice([77, 99] + flat)], []
            else:
                al, re_ = [], pick() + [rng.choice([77, 99] + flat)]
            events.append(["constrain", o, meth, al, re_, rng.random() < 0.3])
        elif r < 0.62:
            events.append(["capture", rng.randrange(nobj), rng.choice(["alpha", "beta"])])
            ncapt += 1
        elif r < 0.85 or ncapt == 0:
            events.append(["call", rng.randrange(nobj), rng.choice(["alpha", "alpha", "beta"])])
        else:
            events.append(["callh", rng.randrange(ncapt + 1)])        # may be out of range (skipped by the driver)
    return {"objects": objs, "events": events}


def run_hist(case):
    from vivarium.framework.lifecycle import LifeCycleManager

    class Toy:
        def __init__(self, name):
            self.name = name
            self.ran = 0

        def alpha(self, x=0):
            self.ran += 1
            return x

        def beta(self):
            self.ran += 1

        def __dunder__(self):
            self.ran += 1

    objs = [Toy(n) for n in case["objects"]]
    mgr = LifeCycleManager()
    tap = MakerTap()

    def mid(o, meth):
        return 1 + o * 4 + ["alpha", "beta", "__dunder__", "<f>"].index(meth)
    gids = {}
    registry = {}
    for o, t in enumerate(objs):
        for meth in ("alpha", "beta", "__dunder__"):
            g = f"{t.name}.{meth}"
            gids.setdefault(g, len(gids) + 1)
            registry[mid(o, meth)] = (gids[g], 2 if meth == "__dunder__" else 0)
    fm = mid(len(objs), "<f>")
    registry[fm] = (1000, 1)
    tap.__enter__()
    try:
        return _run_hist_events(case, mgr, objs, tap, mid, fm, registry)
    finally:
        tap.__exit__()


def _run_hist_events(case, mgr, objs, tap, mid, fm, registry):
    def plain_function():
        pass
    # python-side mirror for the direct oracle: which states exist, which (object, method) carries which permitted set
    flat, loops = ["initialization"], []
    name_of = lambda s: "initialization" if s == 0 else f"s{s}"
    perm = {}            # (o, meth) -> set of state names
    guid_done = set()
    held = []            # (bound handle, o, meth, permitted set or None)
    hist = []
    ok, msg = True, ""
    tags = set()
    ncalls = ncons = 0
    for ev in case["events"]:
        kind = ev[0]
        if kind == "phase":
            _, name, sts, lp = ev
            names = [name_of(s) for s in sts]
            try:
                mgr.add_phase(f"p{name}", names, lp)
                code = 0
                flat += names
                if lp:
                    loops.append((names[-1], names[0]))
            except Exception as e:
                code = LIFE_CODE.get(err_class(e), 5)
            hist.append((f"EAddPhase {cz(name)} {czlist(sts)} {cbool(lp)}", code, []))
        elif kind == "move":
            cur = mgr.current_state
            if ev[1] == "next":
                i = flat.index(cur)
                cands = [b for a, b in loops if a == cur] + ([flat[i + 1]] if i + 1 < len(flat) else [])
                target = cands[0] if cands else "initialization"
            else:
                target = name_of(ev[1])
            try:
                mgr.set_state(target)
                code = 0
            except Exception as e:
                code = LIFE_CODE.get(err_class(e), 5)
            s = 0 if target == "initialization" else int(target[1:])
            hist.append((f"EMove {cz(s)}", code, []))
        elif kind == "constrain":
            _, o, meth, al, re_, as_tuple = ev
            if o >= len(objs):
                method, m, key = plain_function, fm, None
            else:
                method, m, key = getattr(objs[o], meth), mid(o, meth), (o, meth)
            aln, ren = [name_of(s) for s in al], [name_of(s) for s in re_]
            conv = tuple if as_tuple else list
            ncons += 1
            tap.seen = None
            try:
                if al and re_:
                    mgr.add_constraint(method, allow_during=conv(aln), restrict_during=conv(ren))
                elif al:
                    mgr.add_constraint(method, allow_during=conv(aln))
                elif re_:
                    mgr.add_constraint(method, restrict_during=conv(ren))
                else:
                    mgr.add_constraint(method)
                code = 0
            except Exception as e:
                code = CONS_CODE.get(err_class(e), 5)
            tags.add(f"constrain_code{code}")
            obsA = []
            # direct oracle for the arguments (python transcription of the property's rule, independent of the model)
            both_or_none = (bool(al) and bool(re_)) or (not al and not re_)
            unknown = [s for s in aln + ren if s not in flat]
            if both_or_none:
                want = 3
            elif unknown:
                want = 2
            elif key is None:
                want = 4
            elif meth == "__dunder__":
                want = 3
            elif f"{objs[o].name}.{meth}" in guid_done:
                want = 1
            else:
                want = 0
            # an attempt with SEVERAL independent defects may be refused for any of them (which check comes first is not
            # specified): any of their error classes is accepted and the model's is recorded
            defects = set()
            if both_or_none:
                defects.add(3)
            if unknown:
                defects.add(2)
            if key is None:
                defects.add(4)
            elif meth == "__dunder__":
                defects.add(3)
            elif f"{objs[o].name}.{meth}" in guid_done:
                defects.add(1)
            if len(defects) > 1 and code in defects:
                tags.add("several_defects")
                code = want
            if want != code:
                ok, msg = False, f"add_constraint({meth}, allow={aln}, restrict={ren}) -> code {code}, expected {want}"
            if code == 0:
                guid_done.add(f"{objs[o].name}.{meth}")
                perm[key] = set(aln) if al else set(flat) - set(ren)
                # the list handed to the constraint maker if it can be observed (else what the oracle computed; the
                # walk-through observation of the installed guard is done by stream `install` and by the calls below)
                seen = tap.seen if tap.seen is not None else sorted(perm[key])
                if set(seen) != perm[key]:
                    ok, msg = False, f"add_constraint(allow={aln}, restrict={ren}) installed {seen}"
                obsA = [0 if s == "initialization" else int(s[1:]) for s in seen]
            hist.append((f"EConstrain {cz(m)} {czlist(al)} {czlist(re_)}", code, obsA))
        elif kind == "capture":
            _, o, meth = ev
            held.append((getattr(objs[o], meth), o, meth, perm.get((o, meth))))
            hist.append((f"ECapture {cz(mid(o, meth))}", 0, []))
        elif kind in ("call", "callh"):
            if kind == "call":
                _, o, meth = ev
                fn = lambda: getattr(objs[o], meth)()
                allowed = perm.get((o, meth))
                evtxt = f"ECallAttr {cz(mid(o, meth))}"
            else:
                k = ev[1]
                if k >= len(held):
                    continue
                h, o, meth, allowed = held[k]
                fn = h
                evtxt = f"ECallHandle {k}%nat"
            before = objs[o].ran
            code, err = call_code(fn)
            ran = objs[o].ran - before
            ncalls += 1
            tags.add(f"call_code{code}")
            want_pass = allowed is None or mgr.current_state in allowed
            if want_pass != (code == 0) or code == 2:
                ok, msg = False, (f"call of {meth} in {mgr.current_state} with permitted {allowed}: outcome code {code} "
                                  f"({err!r})")
            if ran != (1 if code == 0 else 0):
                ok, msg = False, f"underlying method ran {ran} times on outcome code {code}"
            hist.append((evtxt, code, []))
    reg = clist(cpair(cz(m), cpair(cz(g), cz(k))) for m, (g, k) in sorted(registry.items()))
    coq = "(" + cpair(reg, clist(cpair(e, cz(c), czlist(a)) for e, c, a in hist)) + " : hist_case)"
    tags.add(f"objs{len(objs)}")
    return Result(ok=ok, msg=msg, coq=coq, key=(case["objects"], case["events"]) if (ncalls and ncons) else None,
                  obs={"events": len(hist), "calls": ncalls, "constraints": ncons}, tags=tuple(tags))


# ---- stream `install`: add_constraint arguments; permitted set observed by walking through every state -------------
def gen_install(rng: random.Random):
    n = rng.randint(1, 9)
    states = list(range(1, n + 1))
    known = [0] + states

    def pick(lo=1):
        k = rng.randint(lo, min(4, len(known)))
        l = rng.sample(known, k)
        if rng.random() < 0.15:
            l.append(rng.choice(l))             # duplicate entry
        if rng.random() < 0.12:
            l.append(rng.choice([50, 77]))      # unknown state
        return l
    mode = rng.random()
    if mode < 0.4:
        al, re_ = pick(), []
    elif mode < 0.8:
        al, re_ = [], pick()
    elif mode < 0.9:
        al, re_ = pick(), pick()
    else:
        al, re_ = [], []
    if rng.random() < 0.08 and (al or re_):
        al, re_ = (known[:], []) if al else ([], known[:])          # everything allowed / everything restricted
    return {"n": n, "split": rng.randint(1, n), "allow": al, "restrict": re_, "tuple": rng.random() < 0.3}


def run_install(case):
    from vivarium.framework.lifecycle import LifeCycleManager

    class Toy:
        name = "toy"

        def __init__(self):
            self.ran = 0

        def service(self):
            self.ran += 1
    mgr = LifeCycleManager()
    n, split = case["n"], case["split"]
    names = [f"s{i}" for i in range(1, n + 1)]
    mgr.add_phase("first", names[:split])
    if names[split:]:
        mgr.add_phase("second", names[split:])
    nm = lambda s: "initialization" if s == 0 else f"s{s}"
    al, re_ = [nm(s) for s in case["allow"]], [nm(s) for s in case["restrict"]]
    conv = tuple if case["tuple"] else list
    toy = Toy()
    kw = {}
    if al:
        kw["allow_during"] = conv(al)
    if re_:
        kw["restrict_during"] = conv(re_)
    try:
        mgr.add_constraint(toy.service, **kw)
        code = 0
    except Exception as e:
        code = CONS_CODE.get(err_class(e), 5)
    # walk: initialization, s1 .. sn ; call in each
    passed = []
    ok, msg = True, ""
    allst = ["initialization"] + names
    for i, s in enumerate(allst):
        if i > 0:
            mgr.set_state(s)
        before = toy.ran
        c, err = call_code(toy.service)
        if c == 0:
            passed.append(s)
        if c == 2 or (toy.ran - before) != (1 if c == 0 else 0):
            ok, msg = False, f"call in {s}: outcome {c} ({err!r}), underlying ran {toy.ran - before} times"
    # direct oracle
    unknown = [s for s in al + re_ if s not in allst]
    if (al and re_) or not (al or re_):
        want_code, want = 3, set(allst)
    elif unknown:
        want_code, want = 2, set(allst)
    elif al:
        want_code, want = 0, set(al)
    else:
        want_code, want = 0, set(allst) - set(re_)
    if ((al and re_) or not (al or re_)) and unknown and code in (2, 3):
        code = want_code          # two independent defects: either error class is right (order of the checks unspecified)
    if code != want_code:
        ok, msg = False, f"add_constraint(allow={al}, restrict={re_}) -> code {code}, expected {want_code}"
    elif set(passed) != want:
        ok, msg = False, (f"add_constraint(allow={al}, restrict={re_}): the method passes in {passed}, "
                          f"expected {sorted(want)}")
    obsA = [0 if s == "initialization" else int(s[1:]) for s in passed] if code == 0 else []
    coq = "(" + cpair(czlist(range(0, n + 1)), czlist(case["allow"]), czlist(case["restrict"]), cz(code), czlist(obsA)) + " : install_case)"
    rejected_inert = code == 0 or len(passed) == len(allst)
    if not rejected_inert:
        ok, msg = False, f"rejected add_constraint left a guard behind: passes only in {passed}"
    return Result(ok=ok, msg=msg, coq=coq, key=(n, tuple(case["allow"]), tuple(case["restrict"])),
                  obs={"code": code, "passes_in": passed}, tags=(f"code{code}", "restrict" if re_ and not al else
                                                                 "allow" if al and not re_ else "malformed"))


def install_corpus():
    return [{"n": 9, "split": 3, "allow": [1], "restrict": [], "tuple": False},
            {"n": 9, "split": 3, "allow": [], "restrict": [0, 1, 2], "tuple": False},
            {"n": 9, "split": 3, "allow": [], "restrict": [0, 1, 2, 8, 9], "tuple": True},
            {"n": 9, "split": 3, "allow": [1], "restrict": [2], "tuple": False},
            {"n": 9, "split": 3, "allow": [], "restrict": [], "tuple": False},
            {"n": 3, "split": 3, "allow": [1, 50], "restrict": [], "tuple": False},
            {"n": 3, "split": 1, "allow": [], "restrict": [0, 1, 2, 3], "tuple": False}]


# ---- shrinking (minimal replays) --------------------------------------------------------------------------------
def shrink_real(case):
    import copy
    lay = case["layout"]
    for i, x in enumerate(lay):
        if x == "f" or lay.count("p") > 1:
            c = copy.deepcopy(case); del c["layout"][i]; yield c
    if case["days"] > 1:
        c = dict(case); c["days"] = case["days"] - 1; yield c
    for k in ("subviews", "outer_emits", "interactive"):
        if case.get(k):
            c = dict(case); c[k] = False; yield c
    for d in (0.2, 0.5, 0.8):
        if d < case["density"]:
            c = dict(case); c["density"] = d; yield c


def shrink_hist(case):
    import copy
    ev = case["events"]
    n = len(ev)
    if n > 3:
        c = copy.deepcopy(case); c["events"] = ev[:n // 2]; yield c
        c = copy.deepcopy(case); c["events"] = ev[n // 2:]; yield c
    for i in range(n):
        c = copy.deepcopy(case); del c["events"][i]; yield c
    for i, e in enumerate(ev):
        if e[0] == "constrain":
            for j in (3, 4):
                for k in range(len(e[j])):
                    c = copy.deepcopy(case); del c["events"][i][j][k]; yield c


def shrink_install(case):
    import copy
    for key in ("allow", "restrict"):
        for i in range(len(case[key])):
            c = copy.deepcopy(case); del c[key][i]; yield c
    if case["n"] > 1 and max([0] + case["allow"] + [x for x in case["restrict"] if x < 50]) < case["n"]:
        c = copy.deepcopy(case); c["n"] -= 1; c["split"] = min(c["split"], c["n"]); yield c
    if case["tuple"]:
        c = dict(case); c["tuple"] = False; yield c


def streams(tier):
    tab = "From Viv Require Import Common Lifecycle Constraints.\nFrom VivGen Require Import ConstraintTable_C07."
    return [
        Stream(name="matrix", imports=tab, check="(check_matrix_entry constraint_table)", gen=None,
               run=run_matrix_entry, exhaustive=all_matrix_entries,
               doc="every (named service, state) entry of the generated constraint table"),
        Stream(name="handles", imports=tab, check="(check_handle constraint_table)", gen=None, run=run_handle,
               exhaustive=all_handle_cases, doc="every handle variant obtained through the builder API has its constraint"),
        Stream(name="cells", imports=tab, check="(fun cs => forallb (check_cell constraint_table) cs)", gen=None,
               run=run_cell, exhaustive=all_cells, finding_of=finding_cells,
               doc="service handle x state x handle age on a real context, every visit"),
        Stream(name="real", imports="From Viv Require Import Common Lifecycle Constraints.", check="check_hist_real",
               gen=gen_real, run=run_real, n_quick=6, n_thorough=50, finding_of=finding_real, shrink=shrink_real),
        Stream(name="hist", imports="From Viv Require Import Common Lifecycle Constraints.", check="check_hist",
               gen=gen_hist, run=run_hist, n_quick=400, n_thorough=8000, shrink=shrink_hist),
        Stream(name="install", imports="From Viv Require Import Common Lifecycle Constraints.", check="check_install",
               gen=gen_install, run=run_install, n_quick=400, n_thorough=6000, corpus=install_corpus,
               shrink=shrink_install),
    ]
