"""C13 - Creating simulants adds fresh rows and disturbs nobody (DESIGN.md section 5, C13).

Tie to the code (model: coq/theories/Population.v [create], lemmas: PopulationProofs.v, theorems: coq/props/C13.v):
  stream `births`  generated *programs* (harness/props/popdrv.py) run on real InteractiveContexts: initial populations
                   of 0-12, then 1-9 operations of which about half are creations of 0-5 simulants - called from
                   outside and from listeners of the four time-step events (several per step), with and without user
                   data - interleaved with updates, untracking, reads and clock steps.  1-3 probe components with
                   declared column dependencies (so that the initializer order varies) log the SimulantData they
                   receive and execute scripts: fill, partial fill, split fill, re-fill equal/conflicting, touch old
                   rows, identity rewrite, new column after the first creation, wrong dtype (finding F-L), uncaught
                   failure (creation abandoned, flags left set), and for the initial creation: permuted index, missing
                   rows, duplicate labels, a second writer with equal / conflicting values, no new column.
                   Observed: the table at the entry of every initializer and after every action, the labels
                   returned, the initializer log, the manager's flags.
                   Creations the life cycle refuses (requested from a post_setup listener - before the initial
                   population, whose creation then meets the half-made table -, from a simulation_end listener, from
                   outside after the end) are part of the programs and of the Coq correspondence: the manager's own
                   update raises (ARefused), the rows stay, the flags stay set (C13_refused_creation).
  stream `edge`    (python oracle only) the same refused creations once more with the outcome class recorded, and
                   creations NESTED inside an initializer (during the initial creation and during a birth), which the
                   model does not cover: labels handed out are the consecutive fresh ones, rows are never lost,
                   existing cells keep their values.  (corpus/C13/pending/nested_creation_demo.py: for triage.)
Direct oracle: labels == range(old_len, old_len+count); rows afterwards 0..old_len+count-1; at the entry of the first
initializer every old cell has its old value (up to int64/float64) and the new rows are null; every probe called
exactly once with index == the new labels, the user data given, creation_time == clock, creation_window == step size
(initial population: start - step); flags cleared afterwards; plus the C11 oracle on every update made meanwhile.
"""
import os

import boot
from core import Result, Stream, is_open_finding
import props.popdrv as popdrv

PROPERTY = "C13"
RULE = ("births: generated programs (see module doc) on real InteractiveContexts; corpus of hand-written programs first "
        "(F-L witness, partial fills, old rows / identity / new column / re-fills, escaping exception, empty initial "
        "population with births of 0 and several creations per step, two components with equal and conflicting initial "
        "values).  distinct = distinct program; trivial = no creation after the initial one and no update attempted")
ASSUMPTIONS = [
    "cells are bool, int64 (mostly small; the boundary +-2^53; beyond it at low density: finding F-Z), float64 multiples "
    "of 0.5 (or NaN), strings from a fixed pool, whole-day "
    "datetime64[us] (or NaT); see C11",
    "initializers are deterministic functions of (SimulantData, table) that act on the table through view updates only "
    "(strategy trees in the model; the probe scripts of the harness); the clock and step size are inputs of the model, "
    "checked against the simulation clock by the oracle",
    "the position of the population manager's own initializer (tracked = True) among the initializers is inferred from "
    "the table seen at the entry of each probe initializer (it declares the column every other initializer depends on)",
    "tables are compared up to column order",
]
TRUSTED = [
    "C13: Population.v transcribes manager.py _create_simulants / on_initialize_simulants / get_population and the "
    "creation-time branches of population_view.py; pandas DataFrame.reindex (old rows kept, new rows null, bool->object "
    "and int64->float64 promotion, none for count 0) and Index.difference as transcribed - validated on the explored "
    "cases only",
    "C13: no private name of /repo/src is read.  The population manager is looked up BY TYPE among the context's "
    "attributes (public class PopulationManager) for two purposes: cross-checking its public flags (skipped if not "
    "found) and reading the table through its public get_population while the life cycle still refuses the context's "
    "accessor (before population_creation); everything else through public interfaces (see C11)",
]
CLAIM = {
    "technique": "Coq proof over a Gallina model + sampled model/implementation correspondence on real contexts",
    "text": "Theorems (all histories of updates, reads and creations; all initializers as strategy trees): every creation "
            "adds exactly count rows and returns exactly the labels n..n+count-1, so over any history the labels handed "
            "out are consecutive, fresh and never reused, and no other operation adds or removes a row; re-indexing keeps "
            "every existing cell's value and starts the new rows null; a creation whose accepted updates are confined to "
            "the new labels and lossless changes no cell of an existing simulant (guards shown necessary by two refutation "
            "witnesses: F-L, and int64 beyond 2^53); every initializer called receives the same SimulantData (new "
            "labels, user data, clock, step) once; after the first completed creation the column set is fixed for the "
            "rest of any history and a new column is refused; conflicting initial values / birth values are refused with "
            "the table unchanged.  Tied to /repo/src by generated creation histories on real InteractiveContexts (births "
            "from outside and from listeners, probe initializers with scripts), Coq comparing the full table after every "
            "action, the returned labels and the initializer log; a python oracle checks labels, old rows, log and flags.",
    "note": "Sampled correspondence (not exhaustive); the manager's own initializer is not observed directly (its effect "
            "is); the open known findings F-L and F-Z (int64 values beyond 2^53 of existing simulants are rounded by any "
            "birth: reindex promotes int64 to float64) are reproduced on every run as KNOWN-FINDING (witnesses proved in "
            "props/C13.v: C13_wrong_dtype_refuted, C13_bigint_refuted); creations refused by the life cycle (post_setup / "
            "simulation_end / after the end) are inside the model and the correspondence (C13_refused_creation, "
            "C13_abandoned_creation: rows added, flags left set); creations nested inside an initializer are checked by the "
            "python oracle only (stream `edge`; pending triage: corpus/C13/pending/nested_creation_demo.py).",
}
LEVEL_NOTE = ""


def _corpus():
    c = popdrv.corpus_creations() + popdrv.corpus_updates()[:2]
    c += popdrv.corpus_bigint()             # finding F-Z (open)
    return c


def streams(tier):
    return [
        Stream(name="births", imports="From Viv Require Import Common Population.", check="check_pop",
               gen=lambda rng: popdrv.gen_program(rng, "create"), run=popdrv.run_program, corpus=_corpus,
               n_quick=200, n_thorough=1600, finding_of=popdrv.finding_of, shrink=popdrv.shrink_program,
               doc="creation histories on real contexts: labels, old rows, initializer log, full-table comparison"),
        Stream(name="edge", imports="From Viv Require Import Common Population.", check="check_pop",
               gen=popdrv.gen_edge, run=popdrv.run_edge, n_quick=40, n_thorough=200, finding_of=popdrv.finding_of, shrink=popdrv.shrink_edge,
               doc="python oracle only: creations from post_setup / simulation_end listeners (outcome class recorded) and "
                   "nested inside an initializer - labels fresh and consecutive, no row lost, existing cells keep their values"),
    ]


def extra(run):
    popdrv.second_hash_seed(run, PROPERTY)
